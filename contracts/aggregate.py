"""Contracts: qartod.qartod_compare (inner loop cut by an invariant with an existential over the
vectors; the five priorities are unrolled natively), qartod.aggregate; spec-level lemmas of C04
(permutation, duplication, grouping, never better than the worst evaluated input)."""
import itertools

import z3

from pyvc import alg, solve
from pyvc.loops import CutSeq, LoopCut
from pyvc.npmodel import Arr, MArr, in_range

from .common import F, G, MISS, S, U, Case, Env, is_flag

PRIORITIES = (MISS, U, G, S, F)  # ascending precedence: MISSING < UNKNOWN < GOOD < SUSPECT < FAIL

VV = z3.Function("vec_val", z3.IntSort(), z3.IntSort(), z3.RealSort())
VM = z3.Function("vec_mask", z3.IntSort(), z3.IntSort(), z3.BoolSort())

_BV = [0]


def _bound(base):
    _BV[0] += 1
    return z3.Int("%s!b%d" % (base, _BV[0]))


def hit(q, i, p, vv=VV, vm=VM):
    """vector q holds flag p, unmasked, at position i"""
    return alg.and_(alg.not_(vm(alg.lift(q), alg.lift(i))), alg.eq(vv(alg.lift(q), alg.lift(i)), p))


def ex_hit(j, i, p, vv=VV, vm=VM):
    """exists q < j. hit(q, i, p)   (fresh bound variable every time)"""
    q = _bound("q")
    return z3.Exists([q], z3.And(q >= 0, q < alg.lift(j), alg.lift(hit(q, i, p, vv, vm))))


def rollup_spec(K, i, upto=5, vv=VV, vm=VM, ex=None):
    """flag of highest precedence among the unmasked flag-valued entries at i, MISSING if none:
    the first `upto` priorities only (upto=5: the statement)"""
    ex = ex or (lambda p: ex_hit(K, i, p, vv, vm))
    r = MISS
    for p in PRIORITIES[:upto]:
        r = alg.ite(ex(p), p, r)
    return r


def _masked(x):
    return x is None or isinstance(x, (list, tuple))


def _data(x):
    if x is None:
        return 0
    if isinstance(x, (list, tuple)):
        return x[1]
    return x


class Compare(Case):
    module = "ioos_qc.qartod"
    function = "qartod_compare"
    index_offsets = (0,)
    props = {
        "post.worst_flag_per_point": ("C04",),
        "post.one_flag_per_element": ("C04", "C01"),
        "post.not_masked": ("C04",),
        "no-raise": ("C04",),
        "frame": ("C04",),
    }

    def props_of(self, short):
        if short.startswith("loop.vectors."):
            return ("C04",)
        return Case.props_of(self, short)

    def declare(self, mk):
        e = Env()
        e.mode = mk.mode
        e.n = mk.length("n")
        if mk.mode == "sym":
            e.K = mk.length("K", lo=1)
            K, n = e.K, e.n

            def extract(ev):
                out = []
                for q in range(ev(K)):
                    row = []
                    for i in range(ev(n)):
                        v = ev(VV(z3.IntVal(q), z3.IntVal(i)))
                        row.append(["m", v] if ev(VM(z3.IntVal(q), z3.IntVal(i))) else v)
                    out.append(row)
                return out

            mk.decls.append(("custom", "vectors", extract))
        else:
            e.vectors = mk.values["vectors"]
            e.K = len(e.vectors)
            e.mk = mk
        return e

    def _vec(self, q, n):
        d = Arr(n, "f", lambda i: (False, VV(alg.lift(q), alg.lift(i))))
        m = Arr(n, "b", lambda i: (False, VM(alg.lift(q), alg.lift(i))))
        d.is_input = m.is_input = True
        d.name = m.name = "vectors[q]"
        return MArr(d, m)

    def inv(self, e, cut, state, j, i):
        (res,) = state.values()
        r = res._data.val(i)
        a = cut.entry  # index of the priority being applied
        p = PRIORITIES[a]
        prev = rollup_spec(e.K, i, upto=a)
        return {
            "partial_rollup": alg.and_(alg.not_(res._data.nan(i)), alg.eq(r, alg.ite(ex_hit(j, i, p), p, prev))),
        }

    def call(self, mod, e):
        if e.mode == "sym":
            def select(loc):
                # the accumulator: the one masked array of the frame that is not an input vector (any dtype)
                return {k: v for k, v in loc.items() if isinstance(v, MArr) and not v._data.is_input}

            cut = LoopCut("vectors", select, None, length_of=lambda st: list(st.values())[0].n)
            cut.inv = lambda st, j, i: self.inv(e, cut, st, j, i)
            vectors = CutSeq(e.K, lambda q: self._vec(q, e.n), cut)
        elif e.mode == "conc":
            from pyvc.npmodel import from_values

            vectors = []
            for v in e.vectors:
                d = from_values([_data(x) for x in v], "f")
                m = from_values([_masked(x) for x in v], "b")
                vectors.append(MArr(d, m))
        else:
            import numpy as np

            vectors = [np.ma.array([float(_data(x)) for x in v], mask=[_masked(x) for x in v], dtype="float64") for v in e.vectors]
        return mod.qartod_compare(vectors)

    def _conc_spec(self, e, i):
        best = MISS
        order = {p: r for r, p in enumerate(PRIORITIES)}
        for v in e.vectors:
            x = v[i]
            if not _masked(x) and x in order and order[x] >= order[best]:
                best = x
        return best

    def post(self, e, res, k):
        spec = rollup_spec(e.K, k) if e.mode == "sym" else self._conc_spec(e, k)
        return {
            "worst_flag_per_point": alg.and_(alg.not_(res.flagnan(k)), alg.eq(res.flag(k), spec)),
            "not_masked": alg.not_(res.masked(k)),
        }

    def post_global(self, e, res):
        return {"one_flag_per_element": alg.eq(res.n, e.n) if res.is_array else False}

    def canary(self, e, res, k):
        return alg.eq(res.flag(k), MISS)

    def grid(self, tier, rng):
        alpha = (1, 2, 3, 4, 9, 7, None, ("m", 4), ("m", 1))
        for K in (1, 2, 3):
            for n in (0, 1, 2):
                for cells in itertools.product(alpha, repeat=K * n):
                    yield {"n": n, "vectors": [list(cells[q * n : (q + 1) * n]) for q in range(K)]}
        # values that are not flags but turn into one when narrowed to a small integer type (fractions, codes
        # congruent to a flag modulo 256, negatives): they take no part in the roll-up
        # every evaluated flag GOOD and a position that no input evaluated (masked everywhere): the roll-up there is
        # MISSING, whatever shortcut the all-GOOD case takes
        for vs in ([[1, 1, ("m", 1)], [1, 1, ("m", 1)]], [[1, ("m", 4)], [("m", 1), ("m", 1)]], [[("m", 1), 1, 1]], [[1, 1, 1, ("m", 9)], [1, ("m", 1), 1, ("m", 1)], [1, 1, 1, ("m", 1)]], [[1, 1], [1, 1]]):
            yield {"n": len(vs[0]), "vectors": vs, "keep": 1}
        odd = (3.5, 4.25, 2.5, 9.75, 1.5, 260, 259, 265, 258, 257, -252, -253, -247, 0, -1)
        for i in range(0, len(odd), 3):
            row = list(odd[i : i + 3])
            yield {"n": 3, "vectors": [row], "keep": 1}
            yield {"n": 3, "vectors": [[1, 1, 1], row], "keep": 1}
            yield {"n": 3, "vectors": [row, [1, 2, ("m", 4)], row], "keep": 1}


def cases():
    return [Compare()]


# ------------------------------------------------------------------ spec-level lemmas of C04
def _rank(p):
    r = 0
    for k, f in enumerate(PRIORITIES):
        r = alg.ite(alg.eq(p, f), k, r)
    return r


class RollupLemmas(Case):
    """lemmas over the postcondition of qartod_compare (no code involved): they turn the
    'worst flag per point' postcondition into the consequences the statement lists"""

    module = "ioos_qc.qartod"
    function = "qartod_compare"
    is_lemma = True
    props = {"lemma.%s" % n: ("C04",) for n in ("never_better_than_worst_input", "permutation_invariant", "duplication_invariant", "grouping_invariant")}

    def lemmas(self):
        K, i = z3.Int("K"), z3.Int("i")
        base = [K >= 1]
        out = []
        # never better than the worst evaluated input
        q0 = z3.Int("q0")
        v0 = VV(q0, i)
        evaluated = z3.And(q0 >= 0, q0 < K, z3.Not(VM(q0, i)), alg.lift(is_flag(v0)))
        out.append(("never_better_than_worst_input", base + [evaluated], alg.ge(_rank(rollup_spec(K, i)), _rank(v0))))
        # permutation: V'(q, i) = V(pi(q), i) for a bijection pi of [0, K).  The quantified bijection is
        # beyond the solvers' instantiation heuristics, so the lemma is split by hand (proof hints only
        # weaken what the solver may use): for every priority p,  Ex'(p) <=> Ex(p)  in two directions with
        # the witness named, then the roll-ups agree given the five equivalences.
        pi = z3.Function("pi", z3.IntSort(), z3.IntSort())
        pinv = z3.Function("pi_inv", z3.IntSort(), z3.IntSort())

        def bij_at(q):
            return z3.Implies(z3.And(q >= 0, q < K), z3.And(pi(q) >= 0, pi(q) < K, pinv(q) >= 0, pinv(q) < K, pinv(pi(q)) == q, pi(pinv(q)) == q))

        vv2 = lambda a, b: VV(pi(a), b)  # noqa: E731
        vm2 = lambda a, b: VM(pi(a), b)  # noqa: E731
        steps = []
        exs, exs2 = {}, {}
        for p in PRIORITIES:
            exs[p] = ex_hit(K, i, p)
            exs2[p] = ex_hit(K, i, p, vv2, vm2)
            q1, q2 = z3.Int("q1!perm%d" % p), z3.Int("q2!perm%d" % p)
            steps.append((base + [q1 >= 0, q1 < K, alg.lift(hit(q1, i, p, vv2, vm2)), bij_at(q1)], exs[p]))
            w = pinv(q2)
            steps.append((base + [q2 >= 0, q2 < K, alg.lift(hit(q2, i, p)), bij_at(q2), alg.lift(hit(w, i, p, vv2, vm2)) == alg.lift(hit(pi(w), i, p))], exs2[p]))
        # Skolemised directions give the equivalences: Ex'(p) holds iff some q1 hits, which implies Ex(p), and back
        eqv = [exs2[p] == exs[p] for p in PRIORITIES]
        steps.append((eqv, alg.eq(rollup_spec(K, i, ex=lambda p: exs2[p]), rollup_spec(K, i, ex=lambda p: exs[p]))))
        out.append(("permutation_invariant", steps, None))
        # duplication: one more copy of vector d
        d = z3.Int("d")
        vv3 = lambda a, b: z3.If(a == K, VV(d, b), VV(a, b))  # noqa: E731
        vm3 = lambda a, b: z3.If(a == K, VM(d, b), VM(a, b))  # noqa: E731
        out.append(("duplication_invariant", base + [d >= 0, d < K], alg.eq(rollup_spec(K + 1, i, vv=vv3, vm=vm3), rollup_spec(K, i))))
        # grouping: compare(V1 ++ [compare(V2)]) = compare(V1 ++ V2), V1 = vectors [0, K1), V2 = [K1, K)
        K1 = z3.Int("K1")

        def ex2(p):
            qq = _bound("q")
            return z3.Exists([qq], z3.And(qq >= K1, qq < K, alg.lift(hit(qq, i, p))))

        w = rollup_spec(K, i, ex=ex2)  # the roll-up of V2 at i (contract of qartod_compare: unmasked)
        vv4 = lambda a, b: z3.If(a == K1, alg.lift(alg.to_real(w)) if z3.is_int(alg.lift(w)) else alg.lift(w), VV(a, b))  # noqa: E731
        vm4 = lambda a, b: z3.If(a == K1, z3.BoolVal(False), VM(a, b))  # noqa: E731
        out.append(("grouping_invariant", [K1 >= 0, K1 < K], alg.eq(rollup_spec(K1 + 1, i, vv=vv4, vm=vm4), rollup_spec(K, i))))
        return out


def cases():  # noqa: F811
    return [Compare(), RollupLemmas()]


# ------------------------------------------------------------------ callers of qartod_compare
def _seq_funs(vectors, n):
    """(vv, vm) of a symbolic sequence of vectors: functions (q, i) -> term, obtained by evaluating
    the sequence at a generic position and substituting"""
    from pyvc.ctx import cur

    c = cur()
    qg, ig = c.fresh("qg", z3.IntSort()), c.fresh("ig", z3.IntSort())
    v = vectors.at(qg)
    if isinstance(v, MArr):
        val, nan = v._data.val(ig), v._data.nan(ig)
        msk = v.m(ig)
    elif isinstance(v, Arr):
        val, nan, msk = v.val(ig), v.nan(ig), False
    else:
        c.unsupported_here("qartod_compare stub: element %r is not an array" % (type(v),))
    sub = lambda t, a, b: z3.substitute(alg.lift(t), (qg, alg.lift(a)), (ig, alg.lift(b)))  # noqa: E731
    vv = lambda a, b: sub(alg.to_real(val) if alg.is_sym(val) else z3.RealVal(val), a, b)  # noqa: E731
    vm = lambda a, b: sub(msk, a, b) if alg.is_sym(msk) else z3.BoolVal(bool(msk))  # noqa: E731
    length = lambda a: z3.substitute(alg.lift(v.n), (qg, alg.lift(a)))  # noqa: E731
    return vv, vm, length


def compare_stub(vectors, orig=None):
    """callee contract of qartod.qartod_compare(vectors) as seen by aggregate():
    requires a non-empty sequence of 1-D arrays of one length n;
    ensures  an unmasked uint8 array of length n holding rollup_spec at every position"""
    from pyvc.ctx import cur
    from pyvc.seqmodel import SymSeq

    c = cur()
    c.use("contract qartod.qartod_compare")
    if not isinstance(vectors, SymSeq):
        if orig is not None:
            return orig(vectors)  # concrete reading of the contract: the function itself
        c.unsupported_here("qartod_compare stub: concrete sequences run the real function")
    K = vectors.K
    c.ensure(alg.ge(K, 1), IndexError, "list index out of range")
    vv, vm, length = _seq_funs(vectors, None)
    n = length(z3.IntVal(0))
    # all lengths equal (assert in the callee): a differing length raises AssertionError
    w = c.fresh("lenw", z3.IntSort())
    differs = alg.and_(alg.le(0, w), alg.lt(w, K), alg.ne(length(w), n))
    if alg.simp(differs) is not False and c.fork(differs):
        raise AssertionError
    r = Arr(n, "u", lambda i: (False, rollup_spec(K, i, vv=vv, vm=vm)))
    compare_stub.last = {"K": K, "vv": vv, "vm": vm, "n": n}
    return r


class _Holder:
    """symbolic / concrete-model stand-in of a CollectedResult: only the flag array is modelled; any other
    attribute the real class has makes the function undecided (-> stand-in with real CollectedResult objects)"""

    def __init__(self, results):
        self.results = results

    def __getattr__(self, attr):
        from pyvc.ctx import unknown_attr

        return unknown_attr("ioos_qc.results.CollectedResult", attr, ("results",))


def _real_results(arrays):
    """real CollectedResult objects for the real runs: the entries 2j and 2j+1 belong to the same
    (stream, module, test) - a test collected twice with different flags, e.g. from two configurations -
    so the roll-up has to treat its inputs as flag arrays, whatever they are called"""
    from pyvc import replay

    R = replay.real_module("ioos_qc.results")
    Q = replay.real_module("ioos_qc.qartod")
    tests = (Q.gross_range_test, Q.spike_test, Q.flat_line_test)
    out = []
    for i, a in enumerate(arrays):
        f = tests[(i // 2) % len(tests)]
        out.append(R.CollectedResult(stream_id="s%d" % (i // (2 * len(tests))), package="qartod", test=f.__name__, function=f, results=a))
    return out


class Aggregate(Case):
    """qartod.aggregate(results) = qartod_compare of the results' flag arrays (callee contract)"""

    module = "ioos_qc.qartod"
    function = "aggregate"
    index_offsets = (0,)
    props = {"post.rollup_of_results": ("C04",), "no-raise": ("C04",), "frame": ("C04",), "post.one_flag_per_element": ("C04",)}

    def declare(self, mk):
        e = Env()
        e.mode = mk.mode
        e.n = mk.length("n")
        if mk.mode == "sym":
            e.K = mk.length("K", lo=1)
        else:
            e.vectors = mk.values["vectors"]
            e.K = len(e.vectors)
        return e

    def stubs(self, T):
        orig = T.module("ioos_qc.qartod").qartod_compare
        return [("ioos_qc.qartod", "qartod_compare", lambda vectors: compare_stub(vectors, orig))]

    def callee_cases(self):
        return [Compare()]

    _sym = True

    def call(self, mod, e):
        from pyvc.seqmodel import SymSeq

        if e.mode == "sym":
            cmp_ = Compare()
            seq = SymSeq(e.K, lambda q: _Holder(cmp_._vec(q, e.n)), None, "results")
            return mod.aggregate(seq)
        if e.mode == "conc":
            from pyvc.npmodel import from_values

            hs = [_Holder(MArr(from_values([_data(x) for x in v], "f"), from_values([_masked(x) for x in v], "b"))) for v in e.vectors]
        else:
            import numpy as np

            hs = _real_results([np.ma.array([float(_data(x)) for x in v], mask=[_masked(x) for x in v], dtype="float64") for v in e.vectors])
        return mod.aggregate(hs)

    def explore_hook(self, sym):
        self._sym = sym

    def post(self, e, res, k):
        spec = rollup_spec(e.K, k) if e.mode == "sym" else Compare._conc_spec(self, e, k)
        return {"rollup_of_results": alg.and_(alg.eq(res.flag(k), spec), alg.not_(res.masked(k)))}

    def post_global(self, e, res):
        return {"one_flag_per_element": alg.eq(res.n, e.n) if res.is_array else False}

    def canary(self, e, res, k):
        return alg.eq(res.flag(k), MISS)

    def grid(self, tier, rng):
        return Compare.grid(self, tier, rng)


def cases():  # noqa: F811
    return [Compare(), RollupLemmas(), Aggregate()]
