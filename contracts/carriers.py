"""C15 - flags do not depend on how the series and times are represented.

Deductive part (`Carrier`): every QC test is executed with its data inputs wrapped as opaque
carriers on which only `np.array(.)` is permitted and its time input as an opaque carrier on which
only `mapdates(.)` is permitted (pyvc/carriers.py).  Obligation `carrier-opaque`: no feasible path
performs any other operation on a raw carrier.  A test that passes computes its flags from the
normalised series alone.

Bounded part (`CarrierGrid`): the conversion facts of the carriers themselves
(np.array(list/tuple/Series/masked array), mapdates of datetime64 units, Python datetimes, pandas
Timestamps / DatetimeIndex / Series, tz-aware or not, epoch seconds) are library behaviour; they are
checked by calling the real functions on every carrier of concrete series (n <= 4) and comparing
the flags with the canonical ndarray / datetime64[ns] call."""
import datetime
import itertools

from pyvc import alg
from pyvc import carriers as CR
from pyvc.npmodel import Arr

from . import profile, qartod_attenuated, qartod_clim, qartod_flatline, qartod_location, qartod_range, qartod_spike, rate
from .common import Case


class Carrier(Case):
    default_props = {}
    props = {"carrier-opaque": ("C15",)}

    def __init__(self, base):
        Case.__init__(self, **base.params)
        self.base = base
        self.module, self.function = base.module, base.function
        self.index_offsets = base.index_offsets

    @property
    def name(self):
        return self.base.name + "|carrier"

    def declare(self, mk):
        e = self.base.declare(mk)
        if mk.mode == "sym":
            for k, v in list(e.items()):
                if isinstance(v, Arr) and v.is_input:
                    e[k] = CR.OpaqueTimes(v, k) if v.kind == "M" else CR.OpaqueSeries(v, k)
        return e

    def stubs(self, T):
        st = list(self.base.stubs(T))
        mod = T.module(self.module)
        if hasattr(mod, "mapdates"):
            st.append((self.module, "mapdates", CR.mapdates_stub(mod.mapdates)))
        return st

    def call(self, mod, e):
        return self.base.call(mod, e)

    def raises(self, e):
        return []

    def post(self, e, res, k):
        return {}

    def canary(self, e, res, k):
        return None

    def grid(self, tier, rng):
        return []


def cases():
    bases = []
    bases += [qartod_range.GrossRange(suspect=True, seq="tuple")]
    bases += [qartod_range.ValidRange(kind="float", lo=True, hi=True, si=True, ei=False), qartod_range.ValidRange(kind="datetime", lo=True, hi=True, si=True, ei=False)]
    bases += [qartod_location.Location(bbox="given", range_max=True, lens="same")]
    bases += [qartod_spike.Spike(method=m, sus=True, fail=True) for m in ("average", "differential")]
    bases += [rate.RateOfChange(lens="same"), rate.Speed(lens="same")]
    bases += [profile.DensityInversion(sus=True, fail=True, lens="same"), profile.PressureIncreasing()]
    bases += [qartod_flatline.FlatLine()]
    bases += [qartod_attenuated.Attenuated(check="std", window=True, minimum="period"), qartod_attenuated.Attenuated(check="range", window=False, minimum="none")]
    bases += [qartod_clim.ClimatologyCheck(period="month", hasz=True, hasf=True, view="C01")]
    # valid_range_test (dtype sniffing on the raw input) and pressure_increasing_test (np.diff /
    # np.ones_like on the raw input) use the raw carrier by design: the opaque-carrier discipline is a
    # sufficient condition they do not meet, so for them C15 rests on the bounded part alone
    return [Carrier(b) for b in bases if b.function not in ("valid_range_test", "pressure_increasing_test")]


# =========================================================================== bounded part
def _data_variants(a):
    import numpy as np
    import pandas as pd

    nan = np.isnan(a)
    out = {
        "list_nan": lambda: a.tolist(),
        "list_none": lambda: [None if m else float(v) for v, m in zip(a, nan)],
        "tuple_none": lambda: tuple(None if m else float(v) for v, m in zip(a, nan)),
        "float32": lambda: a.astype(np.float32),
        "series": lambda: pd.Series(a),
        "masked": lambda: np.ma.array(np.where(nan, 999.0, a), mask=nan),
        # "a NumPy array of any real dtype": the same float64 numbers in the other byte order (big-endian files),
        # in a non-contiguous (strided) buffer, and as float16-free long double is left out (platform dependent)
        "float64_swapped": lambda: a.astype(a.dtype.newbyteorder()),
        "float64_strided": lambda: np.repeat(a, 2)[::2],
    }
    if not nan.any() and np.all(a == np.round(a)):
        out["int64"] = lambda: a.astype(np.int64)
        if a.size and a.min() >= 0 and a.max() <= 255:
            out["uint8"] = lambda: a.astype(np.uint8)  # narrow dtypes: sums and differences must not wrap
        if a.size and a.min() >= -128 and a.max() <= 127:
            out["int8"] = lambda: a.astype(np.int8)
        if a.size and abs(a).max() <= 32767:
            out["int16"] = lambda: a.astype(np.int16)
    try:
        import dask.array as da

        out["dask"] = lambda: da.from_array(a, chunks=max(1, len(a)))
    except Exception:  # noqa: BLE001
        pass
    return out


def _time_variants(t):
    import numpy as np
    import pandas as pd

    ns = t.astype("datetime64[ns]").astype(np.int64)
    whole = bool(np.all(ns % 10**9 == 0))
    secs = ns // 10**9
    out = {
        "dt64_ms": lambda: t.astype("datetime64[ms]"),
        "pydatetime": lambda: [datetime.datetime(1970, 1, 1) + datetime.timedelta(microseconds=int(v) // 1000) for v in ns],
        "pd_timestamp": lambda: [pd.Timestamp(int(v), unit="ns") for v in ns],
        "dtindex": lambda: pd.DatetimeIndex(t),
        "dtindex_utc": lambda: pd.DatetimeIndex(t, tz="UTC"),
        "series": lambda: pd.Series(t),
        "series_utc": lambda: pd.Series(pd.DatetimeIndex(t, tz="UTC")),
        # seconds since the epoch as numbers: quarters of a second are exact in float64 at this magnitude
        "epoch_float": lambda: ns.astype(np.float64) / 1e9,
        "epoch_float_list": lambda: [float(v) / 1e9 for v in ns],
    }
    if whole:
        out["dt64_s"] = lambda: t.astype("datetime64[s]")
        out["epoch_int"] = lambda: [int(s_) for s_ in secs]
        out["epoch_int_array"] = lambda: secs.astype(np.int64)
        if len(secs) and secs.min() >= 0 and secs.max() < 2**31:
            # epoch seconds in the integer widths files use (int32 until 2038, uint32)
            out["epoch_int32_array"] = lambda: secs.astype(np.int32)
            out["epoch_uint32_array"] = lambda: secs.astype(np.uint32)
    # datetime64 arrays of coarser units ("datetime64 of any unit"): only for axes the unit can hold exactly
    for unit, span_ns in (("m", 60 * 10**9), ("h", 3600 * 10**9), ("D", 86400 * 10**9)):
        if bool(np.all(ns % span_ns == 0)):
            out["dt64_" + unit] = lambda unit=unit: t.astype("datetime64[%s]" % unit)
    return out


_FRACTIONS_NS = (250_000_000, 750_000_000, 500_000_000, 0, 250_000_000, 500_000_000, 750_000_000, 0)


def _with_fractions(t):
    """the same time axis with sub-second parts (multiples of 1/4 s, representable by every carrier used)"""
    import numpy as np

    ns = t.astype("datetime64[ns]").astype(np.int64)
    off = np.array([_FRACTIONS_NS[i % len(_FRACTIONS_NS)] for i in range(len(ns))], dtype=np.int64)
    return (ns + off).astype("datetime64[ns]")


def _flags(r):
    import numpy as np

    if isinstance(r, np.ma.MaskedArray):
        return (np.asarray(r.data).tolist(), np.ma.getmaskarray(r).tolist())
    return (np.asarray(r).tolist(), None)


class CarrierGrid(Case):
    """bounded: the real function on every carrier of concrete series vs the canonical call"""

    is_bounded = True
    default_props = {}
    props = {"bounded.same_flags_for_every_carrier": ("C15",)}

    def __init__(self, base):
        Case.__init__(self, **base.params)
        self.base = base
        self.module, self.function = base.module, base.function

    @property
    def name(self):
        return self.base.name + "|carriers-bounded"

    def all_props(self):
        return {"C15"}

    def _run(self, env):
        import warnings

        from pyvc import replay

        import logging

        mod = replay.real_module(self.module)
        logging.disable(logging.WARNING)  # "Trying to guess data input type" of valid_range_test
        try:
            with warnings.catch_warnings():
                warnings.simplefilter("ignore")
                return ("return", _flags(self.base.call(mod, env)))
        except Exception as e:  # noqa: BLE001
            return ("raise", type(e).__name__)
        finally:
            logging.disable(logging.NOTSET)

    def one(self, values, variant):
        """-> None when the carrier gives the canonical flags, else a description"""
        import numpy as np

        from pyvc.contract import RealMk

        # the carrier variants decide the element type themselves: dtype requests of the base grid are dropped
        values = {k_: v_ for k_, v_ in values.items() if not str(k_).startswith("dtype")}
        env = self.base.declare(RealMk(values))
        kind, name = variant
        if kind == "timefrac":
            # sub-second time axis: canonical call on datetime64[ns], carrier built from the same instants
            for k, v in list(env.items()):
                if isinstance(v, np.ndarray) and v.dtype.kind == "M" and k != "x":
                    env[k] = _with_fractions(v)
            kind = "time"
        canon = self._run(env)
        env2 = type(env)(env)
        changed = False
        for k, v in list(env.items()):
            if isinstance(v, np.ndarray) and v.dtype.kind == "f" and kind == "data":
                vs = _data_variants(v)
                if name not in vs:
                    return None
                env2[k] = vs[name]()
                changed = True
            if isinstance(v, np.ndarray) and v.dtype.kind == "M" and kind == "time" and k != "x":
                tvs = _time_variants(v)
                if name not in tvs:
                    return None
                env2[k] = tvs[name]()
                changed = True
        if not changed:
            return None
        got = self._run(env2)
        if got != canon:
            return "canonical %s, carrier %s:%s gives %s" % (canon, kind, name, got)
        return None

    def variants(self):
        import numpy as np

        dv = list(_data_variants(np.array([1.0])).keys()) + ["int64", "uint8", "int8", "int16"]
        tv = list(_time_variants(np.array([0], dtype="datetime64[ns]")).keys())
        tf = list(_time_variants(np.array([250_000_000], dtype="datetime64[ns]")).keys())
        return [("data", n) for n in dict.fromkeys(dv)] + [("time", n) for n in tv] + [("timefrac", n) for n in tf]

    def bounded_checks(self, tier, rng):
        grid = list(self.base.grid(tier, rng))
        lim = 12 if tier == "quick" else 120
        if len(grid) > lim:
            grid = rng.sample(grid, lim)
        def scaled(v):
            # the same series with magnitudes near the limits of the narrow integer dtypes
            w = dict(v)
            pat = {"x": [200, 210, 90, 220, 200, 205], "z": [10, 20, 30, 40, 50, 60]}
            for k_, x in v.items():
                if k_ in pat and isinstance(x, list) and x:
                    w[k_] = pat[k_][: len(x)] if len(x) <= 6 else x
            return w

        for values in grid:
            for variant in self.variants():
                yield ("%s:%s" % variant, "%s:%s" % variant, values, (lambda values=values, variant=variant: self.one(values, variant)))
        def inexact(v):
            # the same series at magnitudes float32 cannot hold exactly: the data are float32 numbers (so the
            # float32 carrier holds the very same values), the parameters stay Python floats such as 0.1 -
            # a comparison carried out in float32 would round the parameter onto the data
            import numpy as np

            skip = {"n", "m", "nl", "nt", "t", "D", "period", "min_obs", "min_period", "keep", "st", "ft", "members", "dtype"}
            w = {}
            for k_, x in v.items():
                if k_ in ("x", "z", "lon", "lat") and isinstance(x, list):
                    w[k_] = [None if a is None else float(np.float32(float(a) * 0.1)) for a in x]
                elif k_ == "members":
                    # climatology members: value / fail / depth spans scaled like the data
                    w[k_] = [{kk: (float(vv) * 0.1 if kk in ("vlo", "vhi", "flo", "fhi", "zlo", "zhi") else vv) for kk, vv in m_.items()} for m_ in x]
                elif k_ in skip or x is None or isinstance(x, (list, dict, str, bool)):
                    w[k_] = x
                else:
                    w[k_] = float(x) * 0.1
            return w

        for values in grid:
            iv = inexact(values)
            yield ("data:float32", "data:float32", iv, (lambda values=iv: self.one(values, ("data", "float32"))))

        def mixed(v):
            # float32 data of mixed magnitude (2**24 next to 1: sums and differences are not float32 numbers)
            # with parameters on and next to those sums and differences: arithmetic or comparisons carried
            # out in float32 instead of float64 give other flags
            data = (1.0, 3.0, 16777216.0, 16777218.0, -16777216.0, 0.5, 16777220.0)
            pars = (16777217.0, 16777215.0, 16777216.5, 16777219.0, 8388608.5, 33554433.0, 1.5)
            skip = {"n", "m", "nl", "nt", "t", "D", "period", "min_obs", "min_period", "keep", "st", "ft", "members", "dtype"}
            w = {}
            for k_, x in v.items():
                if k_ in ("x", "z", "lon", "lat") and isinstance(x, list):
                    w[k_] = [None if a is None else rng.choice(data) for a in x]
                elif k_ in skip or x is None or isinstance(x, (list, dict, str, bool)):
                    w[k_] = x
                else:
                    w[k_] = rng.choice(pars)
            return w

        for values in grid:
            for _ in range(2 if tier == "quick" else 6):
                mv = mixed(values)
                yield ("data:float32", "data:float32", mv, (lambda values=mv: self.one(values, ("data", "float32"))))
        for values in grid:
            sv = scaled(values)
            if sv == values:
                continue
            for variant in (("data", "uint8"), ("data", "int16"), ("data", "int8"), ("data", "series"), ("data", "list_nan")):
                yield ("%s:%s" % variant, "%s:%s" % variant, sv, (lambda values=sv, variant=variant: self.one(values, variant)))

        # time axes on whole minutes / hours / days with irregular steps (the two middle steps differ, so a median
        # step falls between two units of the carrier), thresholds given in seconds scaled with the unit
        pat = [0, 1, 3, 4, 6, 7, 9, 10, 12, 13, 15, 16]
        tkeys = ("st", "ft", "period", "min_period", "D")

        def coarse(v, unit_s):
            w = dict(v)
            ok = False
            for k_, x in v.items():
                if k_ == "t" and isinstance(x, list) and x and len(x) <= len(pat):
                    w[k_] = [p_ * unit_s for p_ in pat[: len(x)]]
                    ok = True
                elif k_ in tkeys and isinstance(x, (int, float)) and not isinstance(x, bool):
                    w[k_] = x * unit_s // 60
            return w if ok else None

        extra = []
        if self.function == "flat_line_test":
            extra = [{"n": 9, "x": [1, 1, 1, 1, 1, 1, 1, 1, 1], "t": [0] * 9, "D": 60, "st": 120, "ft": 240, "tol": 0.5}, {"n": 5, "x": [1, 1, 1, 1, 1], "t": [0] * 5, "D": 60, "st": 60, "ft": 150, "tol": 0.5}]
        if self.function == "attenuated_signal_test":
            extra = [dict(g_, n=9, x=[1, 1, 1, 5, 1, 1, 1, 1, 1], t=[0] * 9) for g_ in grid[:4] if "t" in g_]
        for values in extra + grid:
            for unit, unit_s in (("m", 60), ("h", 3600), ("D", 86400)):
                cv = coarse(values, unit_s)
                if cv is not None:
                    variant = ("time", "dt64_" + unit)
                    yield ("%s:%s" % variant, "%s:%s" % variant, cv, (lambda values=cv, variant=variant: self.one(values, variant)))

    def replay_bounded(self, label, values):
        kind, name = label.split(":")
        return self.one(values, (kind, name))


def bounded_cases():
    out = [CarrierGrid(c.base) for c in cases()]
    out += [CarrierGrid(b) for b in (qartod_range.ValidRange(kind="float", lo=True, hi=True, si=True, ei=False), qartod_range.ValidRange(kind="datetime", lo=True, hi=True, si=True, ei=False), profile.PressureIncreasing())]
    return out
