"""climatology_test under C16 / C17: its two member loops cannot be run in lock-step by the
self-composition, so for this one test the relational properties are *derived*: C08 proves
flag[i] = F_K(i) (the fold of the statement over the members) for present values and C02 proves
MISSING for missing ones; the lemmas below are the induction steps, at the level of the
specification, that carry a relation between two folds from j to j+1 members.  (A change to the
code that keeps monotonicity but breaks the fold is reported by C08, not here.)"""
import z3

from pyvc import alg

from .common import F, G, MISS, S, U, Case
from .relational import sev, um

R = z3.RealSort()
B = z3.BoolSort()


def classify(x, hasf, flo, fhi, vlo, vhi):
    return z3.If(z3.And(hasf, z3.Or(x < flo, x > fhi)), z3.IntVal(F), z3.If(z3.Or(x < vlo, x > vhi), z3.IntVal(S), z3.IntVal(G)))


def rel(a, b):
    return z3.And(alg.lift(um(a)) == alg.lift(um(b)), z3.Implies(z3.Not(alg.lift(um(a))), alg.lift(sev(b)) >= alg.lift(sev(a))))


class ClimatologyLemmas(Case):
    module = "ioos_qc.qartod"
    function = "climatology_test"
    is_lemma = True
    props = {
        "lemma.fold_monotone_in_nested_spans": ("C16",),
        "lemma.fold_invariant_under_time_shift_of_absolute_members": ("C17",),
        "lemma.fold_depends_on_own_observation_only": ("C17",),
    }

    @property
    def name(self):
        return "qartod.climatology_test[fold-lemmas]"

    def lemmas(self):
        out = []
        # --- C16: one more member, same time/depth match, spans of B nested in spans of A
        x = z3.Real("x")
        fa, fb = z3.Int("foldA"), z3.Int("foldB")  # folds over the first j members
        match = z3.Bool("match_j")
        hfa, hfb = z3.Bool("hasfA"), z3.Bool("hasfB")
        floa, fhia, vloa, vhia = z3.Reals("floA fhiA vloA vhiA")
        flob, fhib, vlob, vhib = z3.Reals("floB fhiB vloB vhiB")
        nested = [vloa <= vlob, vlob <= vhib, vhib <= vhia, z3.Implies(hfa, z3.And(hfb, floa <= flob, flob <= fhib, fhib <= fhia))]
        flagsdom = [z3.Or(*[fa == v for v in (G, U, S, F)]), z3.Or(*[fb == v for v in (G, U, S, F)])]
        stepa = z3.If(match, classify(x, hfa, floa, fhia, vloa, vhia), fa)
        stepb = z3.If(match, classify(x, hfb, flob, fhib, vlob, vhib), fb)
        out.append(("fold_monotone_in_nested_spans", [([], rel(z3.IntVal(U), z3.IntVal(U))), (nested + flagsdom + [rel(fa, fb)], rel(stepa, stepb))], None))
        # --- C17: shifting all timestamps and the absolute time spans by c keeps the time match
        t, c, tlo, thi = z3.Ints("t c tlo thi")
        out.append(("fold_invariant_under_time_shift_of_absolute_members", [], z3.And(t + c >= tlo + c, t + c <= thi + c) == z3.And(t >= tlo, t <= thi)))
        # --- C17 locality: F_{j+1}(i) is a function of F_j(i) and of observation i's own value, time, depth
        f1, f2 = z3.Int("fold1"), z3.Int("fold2")
        m1, m2 = z3.Bool("match1"), z3.Bool("match2")
        x1, x2 = z3.Reals("x1 x2")
        hf = z3.Bool("hasf")
        flo, fhi, vlo, vhi = z3.Reals("flo fhi vlo vhi")
        same = [f1 == f2, m1 == m2, x1 == x2]  # observation i unchanged (its match depends on t[i], z[i] only)
        out.append(("fold_depends_on_own_observation_only", same, z3.If(m1, classify(x1, hf, flo, fhi, vlo, vhi), f1) == z3.If(m2, classify(x2, hf, flo, fhi, vlo, vhi), f2)))
        return out


def cases():
    return [ClimatologyLemmas()]
