"""Contracts: results.collect_results_list / collect_results_dict (C06).

Abstract run: a sequence of K ContextResults over n input rows.  Context q has a window predicate
SUB(q, i) over the rows, optionally one CallResult, and its arrays are *selections* of full-length
columns by that predicate (canonical form (base column, predicate): an array of popcount(SUB) values
in row order is exactly such a selection; no rank arithmetic is needed).  All contexts of the run
under consideration share one key (stream id, module, test): a dict entry is touched only through its
own key, and keys of different (stream, module, test) triples differ (lemma `hash_key_injective`).
requires: windows of the contexts that produced a result are pairwise disjoint.

The loop over the ContextResults is cut with the invariant, for every row i,
    mask(i)  <=>  no processed context with a result covers i
    covered  =>   flags(i) = F(q, i) of the covering context, data/time/depth/position = source column
"""
import z3

from pyvc import alg
from pyvc.ctx import Unsupported, cur
from pyvc.loops import CutSeq, LoopCut
from pyvc.npmodel import Arr, MArr, Selection, in_range
from pyvc.strmodel import SStr

from .common import U, Case, Env

SUB = z3.Function("ctx_window", z3.IntSort(), z3.IntSort(), z3.BoolSort())  # context q covers row i
HAS = z3.Function("ctx_has_result", z3.IntSort(), z3.BoolSort())
FLG = z3.Function("ctx_flags", z3.IntSort(), z3.IntSort(), z3.IntSort())  # flag of context q at row i
COLS = {k: z3.Function("src_" + k, z3.IntSort(), z3.RealSort()) for k in ("data", "tinp", "zinp", "lat", "lon")}

_B = [0]


def _bv(base):
    _B[0] += 1
    return z3.Int("%s!c%d" % (base, _B[0]))


def covered(j, i):
    q = _bv("q")
    return z3.Exists([q], z3.And(q >= 0, q < alg.lift(j), HAS(q), SUB(q, alg.lift(i))))


def flags_ok(j, i, val):
    """every processed covering context agrees with val"""
    q = _bv("q")
    return z3.ForAll([q], z3.Implies(z3.And(q >= 0, q < alg.lift(j), HAS(q), SUB(q, alg.lift(i))), alg.lift(val) == FLG(q, alg.lift(i))))


class Collect(Case):
    """params: how in {'list','dict'}"""

    module = "ioos_qc.results"
    function = "collect_results_list"
    no_concrete_model = True  # concrete cases run the real function only (replay / stand-in)
    index_offsets = (0,)
    default_props = {}
    props = {"post.flags_on_covered_rows": ("C06",), "post.uncovered_rows_not_evaluated": ("C06",), "post.axes_equal_source_on_covered_rows": ("C06",), "post.one_result_per_key": ("C06",), "no-raise": ("C06", "C18")}

    def props_of(self, short):
        if short.startswith("loop.contexts."):
            return ("C06",)
        return Case.props_of(self, short)

    def __init__(self, **params):
        Case.__init__(self, **params)
        self.function = "collect_results_" + params["how"]

    def declare(self, mk):
        e = Env()
        e.mode = mk.mode
        e.n = mk.length("n")
        if mk.mode != "sym":
            e.contexts = mk.values["contexts"]
            e.K = len(e.contexts)
            return e
        e.K = mk.length("K")
        K = e.K
        mk.decls.append(("custom", "contexts", lambda ev: [{"has": int(bool(ev(HAS(z3.IntVal(q))))), "sub": [int(bool(ev(SUB(z3.IntVal(q), z3.IntVal(i))))) for i in range(ev(e.n))]} for q in range(ev(K))]))
        # disjoint windows among the contexts that produced a result
        q1, q2, i = z3.Int("q1!dj"), z3.Int("q2!dj"), z3.Int("i!dj")
        mk.assume(z3.ForAll([q1, q2, i], z3.Implies(z3.And(q1 >= 0, q1 < K, q2 >= 0, q2 < K, q1 != q2, HAS(q1), HAS(q2)), z3.Not(z3.And(SUB(q1, i), SUB(q2, i))))))
        return e

    def regions(self, e, res=None, k=None):
        K, n = e.K, e.n
        q, q2, i = _bv("q"), _bv("q"), _bv("i")
        covers_all = lambda qq: z3.ForAll([i], z3.Implies(z3.And(i >= 0, i < n), SUB(qq, i)))  # noqa: E731
        return {
            "result-after-all-covering-context": z3.Exists([q, q2], z3.And(q >= 0, q < K, q2 >= 0, q2 < K, q != q2, HAS(q), HAS(q2), covers_all(q))),
            "absent-axis-with-window": z3.Exists([q], z3.And(q >= 0, q < K, HAS(q), z3.Not(covers_all(q)))) if self.params.get("axes") == "absent" else False,
        }

    def concrete_regions(self, values):
        out = set()
        cs = values["contexts"]
        n = values["n"]
        res = [c_ for c_ in cs if c_["has"]]
        if any(all(c_["sub"]) for c_ in res) and len(res) >= 2:
            out.add("result-after-all-covering-context")
        if self.params.get("axes") == "absent" and any(not all(c_["sub"]) for c_ in res):
            out.add("absent-axis-with-window")
        return out

    def grid(self, tier, rng):
        import itertools

        for n in (0, 1, 2, 3):
            subs = list(itertools.product((0, 1), repeat=n))
            for K in (0, 1, 2):
                for ws in itertools.product(subs, repeat=K):
                    for hs in itertools.product((0, 1), repeat=K):
                        yield {"n": n, "K": K, "contexts": [{"has": h, "sub": list(w)} for h, w in zip(hs, ws)]}

    def canary(self, e, res, k):
        return None

    def conformance(self, T, values):
        """model-bound collect_results on concrete model arrays (selections of full columns) vs the real
        function on numpy arrays: same entries, masks and values"""
        import numpy as np

        from pyvc import ctx as C
        from pyvc import replay
        from pyvc.npmodel import from_values

        if self.concrete_regions(values):
            return "outside"
        n = values["n"]
        seen = [0] * n
        for c_ in values["contexts"]:
            if c_["has"]:
                for i, b in enumerate(c_["sub"]):
                    seen[i] += b
        if any(v > 1 for v in seen):
            return "outside"  # requires: disjoint windows
        absent = self.params.get("axes") == "absent"
        mod = T.module(self.module)
        c = C.Ctx()
        c.concrete_mode = True

        def lst(a, masked_ok=True):
            if isinstance(a, MArr):
                nn = alg.as_concrete(a.n)
                return [None if _b(a.m(i)) else _v(a._data.elem(i)) for i in range(nn)]
            if isinstance(a, Selection):
                nb = alg.as_concrete(a.base_n)
                return [_v(a.base_elem(i)) for i in range(nb) if _b(a.sel(i)[1])]
            if isinstance(a, Arr):
                return [_v(a.elem(i)) for i in range(alg.as_concrete(a.n))]
            return "?"

        def _b(x):
            return bool(alg.as_concrete(x) if alg.is_sym(x) else x)

        def _v(p):
            v = alg.as_concrete(p[1]) if alg.is_sym(p[1]) else p[1]
            return float(v)

        with C.activate(c):
            rs = []
            for q, c_ in enumerate(values["contexts"]):
                sub = from_values([bool(b) for b in c_["sub"]], "b")
                col = lambda off: Selection(from_values([i + off for i in range(n)], "f"), sub)  # noqa: E731
                flags = Selection(from_values([10 * (q + 1) + i for i in range(n)], "u"), sub)
                empty = from_values([], "f")
                results = [mod.CallResult(package="qartod", test="probe_test", function=len, results=flags)] if c_["has"] else []
                rs.append(mod.ContextResult(stream_id="s", results=results, subset_indexes=sub, data=col(0.5), tinp=col(100.0), zinp=empty if absent else col(200.0), lat=empty if absent else col(300.0), lon=empty if absent else col(400.0)))
            try:
                out = getattr(mod, self.function)(rs)
                if self.params["how"] == "list":
                    m = [(cr.stream_id, cr.package, cr.test, lst(cr.results), lst(cr.data), lst(cr.tinp)) for cr in out]
                else:
                    m = {k1: {k2: {k3: lst(a) for k3, a in d2.items()} for k2, d2 in d1.items()} for k1, d1 in out.items()}
            except C.Unsupported:
                raise
            except Exception as ex:  # noqa: BLE001
                m = ("raise", type(ex).__name__)
        e = Env(n=n, contexts=values["contexts"], K=len(values["contexts"]))
        rmod = replay.real_module(self.module)
        try:
            rout = getattr(rmod, self.function)(self._concrete_results(rmod, e, True))

            def rl(a):
                a = np.ma.masked_array(a)
                mk = np.ma.getmaskarray(a)
                return [None if mk[i] else float(a.data[i]) for i in range(len(a))]

            if self.params["how"] == "list":
                r = [(cr.stream_id, cr.package, cr.test, rl(cr.results), rl(cr.data), rl(cr.tinp)) for cr in rout]
            else:
                r = {k1: {k2: {k3: rl(a) for k3, a in d2.items()} for k2, d2 in d1.items()} for k1, d1 in rout.items()}
        except Exception as ex:  # noqa: BLE001
            r = ("raise", type(ex).__name__)
        if m != r:
            return "model %s vs real %s" % (str(m)[:300], str(r)[:300])
        return None

    # ------------------------------------------------------------------ concrete readings
    def _concrete_results(self, mod, e, real):
        import numpy as np

        n = e.n
        absent = self.params.get("axes") == "absent"
        out = []
        for q, c_ in enumerate(e.contexts):
            sub = np.array([bool(b) for b in c_["sub"]], dtype=bool)
            m = int(sub.sum())
            rows = [i for i in range(n) if sub[i]]
            def col(off):
                a = np.array([i + off for i in rows], dtype="float64")
                a.flags.writeable = False  # as handed out by PandasStream (Series.to_numpy() under copy-on-write)
                return a

            flags = np.array([10 * (q + 1) + i for i in rows], dtype="uint8")
            empty = np.array([], dtype="float64")
            results = [mod.CallResult(package="qartod", test="probe_test", function=len, results=flags)] if c_["has"] else []
            out.append(mod.ContextResult(stream_id="s", results=results, subset_indexes=sub, data=col(0.5), tinp=col(100.0), zinp=empty if absent else col(200.0), lat=empty if absent else col(300.0), lon=empty if absent else col(400.0)))
        return out

    def _element(self, mod, e, j):
        c = cur()
        n = e.n
        sub = Arr(n, "b", lambda i: (False, SUB(alg.lift(j), alg.lift(i))), None, "subset_indexes")
        sub.is_input = True

        def sel(fn, kind="f"):
            if self.params.get("axes") == "absent" and fn is not COLS["data"] and fn is not COLS["tinp"]:
                return Arr(0, kind, lambda i: (False, 0))  # the stream had no such column: a size-0 array
            base = Arr(n, kind, lambda i: (False, fn(alg.lift(i))))
            return Selection(base, sub)

        flags = Selection(Arr(n, "u", lambda i: (False, FLG(alg.lift(j), alg.lift(i)))), sub)
        has = c.fork(HAS(alg.lift(j)))
        results = [mod.CallResult(package="qartod", test="probe_test", function=len, results=flags)] if has else []
        return mod.ContextResult(stream_id="s", results=results, subset_indexes=sub, data=sel(COLS["data"]), tinp=sel(COLS["tinp"]), zinp=sel(COLS["zinp"]), lat=sel(COLS["lat"]), lon=sel(COLS["lon"]))

    @staticmethod
    def _accumulator(loc):
        """the mapping the function accumulates into: selected by kind (the one dict-valued local of the
        frame), not by its name"""
        ds = []
        for v in loc.values():
            if isinstance(v, dict) and not any(v is d for d in ds):
                ds.append(v)

        def inside(x, d, depth=0):
            return depth < 4 and any(v is x or (isinstance(v, dict) and inside(x, v, depth + 1)) for v in d.values())

        # temporaries pointing into the accumulator (a nested level of it) are not accumulators
        ds = [d for d in ds if not any(o is not d and inside(d, o) for o in ds)]
        if len(ds) != 1:
            raise Unsupported("collect contract: expected one mapping-valued local, found %d" % len(ds))
        return ds[0]

    def _entry_arrays(self, loc):
        """the loop-carried arrays of the (single) key"""
        coll = self._accumulator(loc)
        if self.params["how"] == "list":
            if not len(coll):
                return {}
            (cr,) = list(coll.values())
            # accumulators only; after an all-covering context data/tinp/... are the stream's own (read-only) arrays
            return {k: getattr(cr, k) for k in ("results", "data", "tinp", "zinp", "lat", "lon") if isinstance(getattr(cr, k), MArr)}
        try:
            a = coll["s"]["qartod"]["probe_test"]
        except KeyError:
            return {}
        return {"results": a}

    def _inv(self, e, state, j, i):
        out = {}
        if not state or "results" not in state:
            return out
        res = state["results"]
        if self.params["how"] == "dict" and isinstance(res, MArr):
            # dict form: plain flags, UNKNOWN where nothing ran; a masked accumulator must hide nothing
            rv = res._data.val(i)
            out["flags"] = alg.and_(alg.not_(res.m(i)), alg.implies(alg.not_(covered(j, i)), alg.eq(rv, U)), flags_ok(j, i, rv))
            return out
        if isinstance(res, MArr):
            rv, rm = res._data.val(i), res.m(i)
            out["flags"] = alg.and_(alg.iff(rm, alg.not_(covered(j, i))), flags_ok(j, i, rv))
            fs = []
            for k in ("data", "tinp", "zinp", "lat", "lon"):
                a = state.get(k)
                if isinstance(a, MArr):
                    fs.append(alg.iff(a.m(i), alg.not_(covered(j, i))))
                    fs.append(alg.implies(covered(j, i), alg.eq(a._data.val(i), COLS[k](alg.lift(i)))))
            out["axes"] = alg.and_(*fs)
        else:
            rv = res.val(i)
            out["flags"] = alg.and_(alg.implies(alg.not_(covered(j, i)), alg.eq(rv, U)), flags_ok(j, i, rv))
        return out

    def call(self, mod, e):
        if e.mode != "sym":
            fn = getattr(mod, self.function)
            if e.mode == "conc":
                raise NotImplementedError  # the concrete reading is the real function (no model arrays needed)
            return ("concrete", fn(self._concrete_results(mod, e, True)))
        c = cur()
        n, K = e.n, e.K
        how = self.params["how"]
        prior = {}

        def fresh_entry():
            np = mod.np
            if how == "list":
                cr = mod.CollectedResult(stream_id="s", package="qartod", test="probe_test", function=len)
                cr.results = np.ma.masked_all(shape=(n,), dtype="uint8")
                for k in ("data", "tinp", "zinp", "lat", "lon"):
                    setattr(cr, k, np.ma.masked_all(shape=(n,), dtype="float64"))
                return cr
            a = np.copy(np.ma.empty_like(Arr(n, "b", lambda i: (False, False)), dtype="uint8"))
            return a

        def put(loc, entry):
            coll = self._accumulator(loc)
            if how == "list":
                coll[entry.hash_key] = entry
            else:
                coll["s"]["qartod"]["probe_test"] = entry

        def all_covering_before(j):
            q, i = _bv("q"), _bv("i")
            return z3.Exists([q], z3.And(q >= 0, q < j, HAS(q), z3.ForAll([i], z3.Implies(z3.And(i >= 0, i < n), SUB(q, i)))))

        def own_arrays(entry):
            # the state left by a context whose window covers every row: the accumulators of the axes were
            # replaced by that context's own arrays - the full source columns, not writable
            for k in ("data", "tinp", "zinp", "lat", "lon"):
                a = Arr(n, "f", (lambda f: lambda i: (False, f(alg.lift(i))))(COLS[k]), None, k)
                a.readonly = True
                setattr(entry, k, a)

        def pre_hook(loc, j):
            # arbitrary prior state: the key is present iff some earlier context had a result
            q = _bv("q")
            present = z3.Exists([q], z3.And(q >= 0, q < j, HAS(q)))
            if c.fork(present):
                entry = fresh_entry()
                if how == "list" and c.fork(all_covering_before(j)):
                    own_arrays(entry)
                put(loc, entry)

        def post_hook(loc):
            q = _bv("q")
            present = z3.Exists([q], z3.And(q >= 0, q < K, HAS(q)))
            have = bool(self._entry_arrays(loc))
            if c.fork(present):
                if not have:
                    entry = fresh_entry()
                    if how == "list" and c.fork(all_covering_before(K)):
                        own_arrays(entry)
                    put(loc, entry)
            elif have:
                c.assume(False)  # an entry exists, so some context had a result: this side is infeasible

        cut = LoopCut("contexts", self._entry_arrays, lambda st, j, i: self._inv(e, st, j, i), length_of=lambda st: n)
        cut.pre_hook, cut.post_hook = pre_hook, post_hook
        seq = CutSeq(K, lambda j: self._element(mod, e, j), cut)
        fn = getattr(mod, self.function)
        return fn(seq)

    def _post_concrete(self, e, out):
        import numpy as np

        n = e.n
        cs = [c_ for c_ in e.contexts]
        # requires: disjoint windows among result contexts
        seen = [0] * n
        for c_ in cs:
            if c_["has"]:
                for i, b in enumerate(c_["sub"]):
                    seen[i] += b
        if any(v > 1 for v in seen):
            return None
        present = any(c_["has"] for c_ in cs)
        exp = {}
        for q, c_ in enumerate(cs):
            if c_["has"]:
                for i, b in enumerate(c_["sub"]):
                    if b:
                        exp[i] = 10 * (q + 1) + i
        if self.params["how"] == "list":
            if not present:
                return {"one_result_per_key": len(out) == 0}
            if len(out) != 1:
                return {"one_result_per_key": False}
            cr = out[0]
            r = np.ma.masked_array(cr.results)
            m = np.ma.getmaskarray(r)
            ok_f = all((not m[i] and int(r.data[i]) == exp[i]) if i in exp else bool(m[i]) for i in range(n))
            ok_a = True
            for name, off in (("data", 0.5), ("tinp", 100.0)):
                a = np.ma.masked_array(getattr(cr, name))
                am = np.ma.getmaskarray(a)
                ok_a = ok_a and len(a) == n and all((not am[i] and float(a.data[i]) == i + off) for i in exp)
            return {"one_result_per_key": len(r) == n, "flags_on_covered_rows": ok_f, "uncovered_rows_not_evaluated": ok_f, "axes_equal_source_on_covered_rows": ok_a}
        if not present:
            return {"one_result_per_key": len(out) == 0}
        a = out["s"]["qartod"]["probe_test"]
        ok = all(int(a[i]) == (exp[i] if i in exp else U) for i in range(n))
        return {"one_result_per_key": len(a) == n, "flags_on_covered_rows": ok, "uncovered_rows_not_evaluated": ok}

    def post_global(self, e, res):
        out = res.value
        if isinstance(out, tuple) and out and out[0] == "concrete":
            r = self._post_concrete(e, out[1])
            return r if r is not None else {}
        K, n = e.K, e.n
        q = _bv("q")
        present = z3.Exists([q], z3.And(q >= 0, q < K, HAS(q)))
        k = z3.Int("k!row")
        cur().index_seeds.append(k)
        inr = z3.And(k >= 0, k < n)
        if self.params["how"] == "list":
            if len(out) > 1:
                return {"one_result_per_key": False}
            if not out:
                return {"one_result_per_key": z3.Not(present)}
            cr = out[0]
            st = {kk: getattr(cr, kk) for kk in ("results", "data", "tinp", "zinp", "lat", "lon")}
            if not isinstance(st["results"], MArr):
                return {"one_result_per_key": False}
            inv = self._inv(e, st, K, k)
            own = []
            for kk in (("data", "tinp") if self.params.get("axes") == "absent" else ("data", "tinp", "zinp", "lat", "lon")):
                a = st[kk]
                if isinstance(a, Selection):
                    # the context's own array: legitimate only if that context covered every row
                    own.append(alg.and_(a.sel(k)[1], alg.eq(a.base_elem(k)[1], COLS[kk](k))))
                elif isinstance(a, Arr):
                    own.append(alg.eq(a.val(k), COLS[kk](k)))
                elif not isinstance(a, MArr):
                    own.append(False)
            inv["axes"] = alg.and_(inv.get("axes", True), *own)
            return {
                "one_result_per_key": alg.and_(present, cr.stream_id == "s", cr.package == "qartod", cr.test == "probe_test", alg.eq(cr.results.n, n)),
                "flags_on_covered_rows": z3.Implies(inr, alg.lift(inv["flags"])),
                "uncovered_rows_not_evaluated": z3.Implies(inr, alg.lift(alg.iff(cr.results.m(k), alg.not_(covered(K, k))))),
                "axes_equal_source_on_covered_rows": z3.Implies(inr, alg.lift(inv["axes"])),
            }
        try:
            a = out["s"]["qartod"]["probe_test"]
        except KeyError:
            return {"one_result_per_key": z3.Not(present)}
        inv = self._inv(e, {"results": a}, K, k)
        return {
            "one_result_per_key": alg.and_(present, alg.eq(a.n, n), len(out) == 1, len(out["s"]) == 1, len(out["s"]["qartod"]) == 1),
            "flags_on_covered_rows": z3.Implies(inr, alg.lift(inv["flags"])),
            "uncovered_rows_not_evaluated": z3.Implies(z3.And(inr, z3.Not(covered(K, k))), alg.lift(alg.eq((a._data if isinstance(a, MArr) else a).val(k), U))),
        }


FLG2 = z3.Function("ctx_test_flags", z3.IntSort(), z3.IntSort(), z3.IntSort(), z3.IntSort())  # context q, test t, row i
TESTS = ("probe_a", "probe_b")


class CollectMulti(Case):
    """Test multiplicity: two contexts (concrete, so the loops run natively) that each carry the results
    of TWO tests of one stream, over a symbolic number of rows with symbolic disjoint windows and
    flags.  Every test's collected result must carry its own flags and the source values of the axes on
    the covered rows (an accumulator shared between tests, or axes attached to one test only, fails).
    params: how in {'list','dict'}"""

    module = "ioos_qc.results"
    no_concrete_model = True
    index_offsets = (0,)
    default_props = {}
    props = {"post.each_test_has_its_own_flags": ("C06",), "post.uncovered_rows_not_evaluated": ("C06",), "post.axes_equal_source_on_covered_rows": ("C06",), "post.one_result_per_key": ("C06",), "no-raise": ("C06", "C18")}
    NCTX = 2

    def __init__(self, **params):
        Case.__init__(self, **params)
        self.function = "collect_results_" + params["how"]

    def declare(self, mk):
        e = Env()
        e.mode = mk.mode
        e.n = mk.length("n")
        if mk.mode != "sym":
            e.contexts = mk.values["contexts"]
            e.K = len(e.contexts)
            return e
        e.K = self.NCTX
        mk.decls.append(("custom", "contexts", lambda ev: [{"has": int(bool(ev(HAS(q)))), "sub": [int(bool(ev(SUB(q, z3.IntVal(i))))) for i in range(ev(e.n))]} for q in range(self.NCTX)]))
        i = z3.Int("i!dj")
        mk.assume(z3.ForAll([i], z3.Not(z3.And(HAS(0), HAS(1), SUB(0, i), SUB(1, i)))))
        # Skolem witness of "context 0 does not cover every row" (fresh constant: a definitional axiom), so
        # that the exclusion of the known-finding region meets the code's own `.all()` at a common index
        e.w = z3.Int("w!not_all_0")
        mk.assume(z3.Implies(z3.Not(self._covers_all(e, 0)), z3.And(e.w >= 0, e.w < alg.lift(e.n), z3.Not(SUB(0, e.w)))))
        return e

    def _covers_all(self, e, q):
        i = _bv("i")
        return z3.ForAll([i], z3.Implies(z3.And(i >= 0, i < alg.lift(e.n)), SUB(q, i)))

    def regions(self, e, res=None, k=None):
        if self.params["how"] != "list":
            return {}
        return {"result-after-all-covering-context": z3.And(HAS(0), HAS(1), self._covers_all(e, 0))}

    def concrete_regions(self, values):
        cs = [c_ for c_ in values["contexts"] if c_["has"]]
        if self.params["how"] == "list" and len(cs) >= 2 and any(all(c_["sub"]) for c_ in cs[:-1]):
            return {"result-after-all-covering-context"}
        return set()

    def canary(self, e, res, k):
        return None

    def grid(self, tier, rng):
        import itertools

        for n in (0, 1, 2, 3):
            subs = list(itertools.product((0, 1), repeat=n))
            for K in (1, 2):
                for ws in itertools.product(subs, repeat=K):
                    for hs in itertools.product((0, 1), repeat=K):
                        yield {"n": n, "K": K, "contexts": [{"has": h, "sub": list(w)} for h, w in zip(hs, ws)]}

    # ------------------------------------------------------------------ runs
    def _contexts_sym(self, mod, e):
        c = cur()
        n = e.n
        c.index_seeds.append(e.w)
        out = []
        for q in range(self.NCTX):
            sub = Arr(n, "b", (lambda q: lambda i: (False, SUB(q, alg.lift(i))))(q), None, "subset_indexes")
            sub.is_input = True
            sel = lambda fn, kind="f", sub=sub: Selection(Arr(n, kind, lambda i: (False, fn(alg.lift(i)))), sub)  # noqa: E731
            results = []
            if c.fork(HAS(q)):
                for t, name in enumerate(TESTS):
                    fl = Selection(Arr(n, "u", (lambda q, t: lambda i: (False, FLG2(q, t, alg.lift(i))))(q, t)), sub)
                    results.append(mod.CallResult(package="qartod", test=name, function=len, results=fl))
            out.append(mod.ContextResult(stream_id="s", results=results, subset_indexes=sub, data=sel(COLS["data"]), tinp=sel(COLS["tinp"]), zinp=sel(COLS["zinp"]), lat=sel(COLS["lat"]), lon=sel(COLS["lon"])))
        return out

    def _contexts_real(self, mod, e):
        import numpy as np

        n = e.n
        out = []
        for q, c_ in enumerate(e.contexts):
            sub = np.array([bool(b) for b in c_["sub"]], dtype=bool)
            rows = [i for i in range(n) if sub[i]]

            def col(off):
                a = np.array([i + off for i in rows], dtype="float64")
                a.flags.writeable = False
                return a

            results = []
            if c_["has"]:
                for t, name in enumerate(TESTS):
                    results.append(mod.CallResult(package="qartod", test=name, function=len, results=np.array([100 * t + 10 * (q + 1) + i for i in rows], dtype="uint8")))
            out.append(mod.ContextResult(stream_id="s", results=results, subset_indexes=sub, data=col(0.5), tinp=col(100.0), zinp=col(200.0), lat=col(300.0), lon=col(400.0)))
        return out

    def call(self, mod, e):
        fn = getattr(mod, self.function)
        if e.mode != "sym":
            if e.mode == "conc":
                raise NotImplementedError
            return ("concrete", fn(self._contexts_real(mod, e)))
        return fn(self._contexts_sym(mod, e))

    # ------------------------------------------------------------------ postconditions
    def _post_concrete(self, e, out):
        import numpy as np

        n = e.n
        cs = e.contexts
        seen = [0] * n
        for c_ in cs:
            if c_["has"]:
                for i, b in enumerate(c_["sub"]):
                    seen[i] += b
        if any(v > 1 for v in seen):
            return None
        present = any(c_["has"] for c_ in cs)
        res = {"one_result_per_key": True, "each_test_has_its_own_flags": True, "uncovered_rows_not_evaluated": True, "axes_equal_source_on_covered_rows": True}
        if self.params["how"] == "list":
            res["one_result_per_key"] = sorted(cr.test for cr in out) == (sorted(TESTS) if present else [])
        else:
            got = sorted(out["s"]["qartod"]) if present and "s" in out else []
            res["one_result_per_key"] = got == (sorted(TESTS) if present else [])
        if not present or not res["one_result_per_key"]:
            return res
        for t, name in enumerate(TESTS):
            exp = {}
            for q, c_ in enumerate(cs):
                if c_["has"]:
                    for i, b in enumerate(c_["sub"]):
                        if b:
                            exp[i] = 100 * t + 10 * (q + 1) + i
            if self.params["how"] == "list":
                cr = [c_ for c_ in out if c_.test == name][0]
                r = np.ma.masked_array(cr.results)
                m = np.ma.getmaskarray(r)
                if len(r) != n:
                    res["one_result_per_key"] = False
                    continue
                for i in range(n):
                    if i in exp:
                        if m[i] or int(r.data[i]) != exp[i]:
                            res["each_test_has_its_own_flags"] = False
                    elif not m[i]:
                        res["uncovered_rows_not_evaluated"] = False
                for nm, off in (("data", 0.5), ("tinp", 100.0), ("zinp", 200.0), ("lat", 300.0), ("lon", 400.0)):
                    a = np.ma.masked_array(getattr(cr, nm))
                    am = np.ma.getmaskarray(a)
                    if len(a) != n or any(am[i] or float(a.data[i]) != i + off for i in exp):
                        res["axes_equal_source_on_covered_rows"] = False
            else:
                a = out["s"]["qartod"][name]
                if len(a) != n:
                    res["one_result_per_key"] = False
                    continue
                for i in range(n):
                    if i in exp:
                        if int(a[i]) != exp[i]:
                            res["each_test_has_its_own_flags"] = False
                    elif int(a[i]) != U:
                        res["uncovered_rows_not_evaluated"] = False
        return res

    def post_global(self, e, res):
        out = res.value
        if isinstance(out, tuple) and out and out[0] == "concrete":
            r = self._post_concrete(e, out[1])
            return r if r is not None else {}
        n = e.n
        k = z3.Int("k!row")
        cur().index_seeds.append(k)
        inr = z3.And(k >= 0, k < alg.lift(n))
        present = z3.Or(HAS(0), HAS(1))
        cov = lambda q: z3.And(HAS(q), SUB(q, k))  # noqa: E731
        covered_ = z3.Or(cov(0), cov(1))
        if self.params["how"] == "list":
            by = {}
            for cr in out:
                by.setdefault(cr.test if isinstance(cr.test, str) else str(cr.test), []).append(cr)
            if not out:
                return {"one_result_per_key": z3.Not(present)}
            if sorted(by) != sorted(TESTS) or any(len(v) != 1 for v in by.values()):
                return {"one_result_per_key": False}
            own, unc, axes, shape = [], [], [], [present]
            for t, name in enumerate(TESTS):
                cr = by[name][0]
                r = cr.results
                if not isinstance(r, MArr):
                    return {"one_result_per_key": False}
                shape.append(alg.eq(r.n, n))
                for q in range(self.NCTX):
                    own.append(z3.Implies(cov(q), alg.lift(alg.and_(alg.not_(r.m(k)), alg.eq(r._data.val(k), FLG2(q, t, k))))))
                unc.append(z3.Implies(z3.Not(covered_), alg.lift(r.m(k))))
                for nm in ("data", "tinp", "zinp", "lat", "lon"):
                    a = getattr(cr, nm)
                    if isinstance(a, MArr):
                        axes.append(z3.Implies(covered_, alg.lift(alg.and_(alg.not_(a.m(k)), alg.eq(a._data.val(k), COLS[nm](k))))))
                    elif isinstance(a, Selection):
                        axes.append(alg.lift(alg.and_(a.sel(k)[1], alg.eq(a.base_elem(k)[1], COLS[nm](k)))))
                    elif isinstance(a, Arr):
                        axes.append(alg.lift(alg.eq(a.val(k), COLS[nm](k))))
                    else:
                        axes.append(False)
            return {
                "one_result_per_key": alg.and_(*shape),
                "each_test_has_its_own_flags": z3.Implies(inr, z3.And(*[alg.lift(x) for x in own])),
                "uncovered_rows_not_evaluated": z3.Implies(inr, z3.And(*[alg.lift(x) for x in unc])),
                "axes_equal_source_on_covered_rows": z3.Implies(inr, z3.And(*[alg.lift(x) for x in axes])),
            }
        d = dict(out).get("s", {})
        d = dict(d).get("qartod", {})
        if not d:
            return {"one_result_per_key": z3.Not(present)}
        if sorted(d) != sorted(TESTS) or len(out) != 1 or len(out["s"]) != 1:
            return {"one_result_per_key": False}
        own, unc, shape = [], [], [present]
        for t, name in enumerate(TESTS):
            a = d[name]
            data, hidden = (a._data, a.m(k)) if isinstance(a, MArr) else (a, False)
            shape.append(alg.eq(a.n, n))
            for q in range(self.NCTX):
                own.append(z3.Implies(cov(q), alg.lift(alg.and_(alg.not_(hidden), alg.eq(data.val(k), FLG2(q, t, k))))))
            unc.append(z3.Implies(z3.Not(covered_), alg.lift(alg.and_(alg.not_(hidden), alg.eq(data.val(k), U)))))
        return {
            "one_result_per_key": alg.and_(*shape),
            "each_test_has_its_own_flags": z3.Implies(inr, z3.And(*[alg.lift(x) for x in own])),
            "uncovered_rows_not_evaluated": z3.Implies(inr, z3.And(*[alg.lift(x) for x in unc])),
        }


class KeyLemmas(Case):
    """hash_key = f"{stream_id}:{package}.{test}" identifies the (stream, module, test) triple when
    package and test are identifiers (module and function names): no ':' and no '.' inside them"""

    module = "ioos_qc.results"
    function = "CollectedResult.hash_key"
    is_lemma = True
    cvc5_first = True  # word equation with regular constraints: cvc5 decides it in under a second, z3 times out
    props = {"lemma.hash_key_injective": ("C06",)}

    def lemmas(self):
        S = z3.StringSort()
        s1, p1, t1, s2, p2, t2 = (z3.Const(n, S) for n in ("s1", "p1", "t1", "s2", "p2", "t2"))
        a = z3.Union(z3.Range("a", "z"), z3.Range("A", "Z"), z3.Re("_"))
        ident = z3.Concat(a, z3.Star(z3.Union(a, z3.Range("0", "9"))))
        key = lambda s, p, t: z3.Concat(s, z3.StringVal(":"), p, z3.StringVal("."), t)  # noqa: E731
        asm = [z3.InRe(p1, ident), z3.InRe(t1, ident), z3.InRe(p2, ident), z3.InRe(t2, ident), key(s1, p1, t1) == key(s2, p2, t2)]
        return [("hash_key_injective", asm, z3.And(s1 == s2, p1 == p2, t1 == t2))]


class CollectEndToEnd(Case):
    """bounded: a run of the real stream front ends collected by the real collect_results, on concrete
    tables whose rows are labelled in different ways (default index, permuted integers, offset labels)
    with two disjoint windows and an unwindowed context: every covered row carries the flag the direct
    call on its window produces, uncovered rows are masked (list) / UNKNOWN (dict), the collected data
    and time equal the source on covered rows, and the list and dict forms agree"""

    is_bounded = True
    module = "ioos_qc.results"
    function = "collect_results"
    default_props = {}
    props = {"bounded.collected_run": ("C06",)}

    def all_props(self):
        return {"C06"}

    TABLES = {
        "six": ([1.0, 20.0, 3.0, 40.0, 5.0, 60.0], [0, 10, 20, 30, 40, 50]),
        "gap": ([7.0, None, 9.0, 70.0, 2.0], [0, 10, 20, 30, 40]),
        # NumpyStream only: the data (and the depth axis) arrive as numpy masked arrays with masked samples inside the
        # windows - a covered row keeps its flag in the list form whatever its data look like
        "masked": ([7.0, 8.0, 9.0, 70.0, 2.0, 3.0], [0, 10, 20, 30, 40, 50]),
    }
    MASKS = {"masked": [False, False, True, False, False, True]}
    # None: that bound is not given (open-ended window)
    WINDOWS = {"two": [(0, 20), (30, 50)], "one-late": [(20, 45)], "touching": [(0, 30), (30, 60)], "open-ended": [(None, 20), (30, None)], "open-late-first": [(30, None), (None, 20)], "ending-only": [(None, 30)]}

    def one(self, values):
        import logging
        import warnings

        import numpy as np
        import pandas as pd

        from pyvc import replay

        cfgm, stm, rsm, qm = (replay.real_module(m) for m in ("ioos_qc.config", "ioos_qc.streams", "ioos_qc.results", "ioos_qc.qartod"))
        vals, secs = self.TABLES[values["table"]]
        n = len(vals)
        v = np.array([np.nan if x is None else x for x in vals], dtype="float64")
        vmask = self.MASKS.get(values["table"])
        if vmask is not None:
            if values["front"] != "numpy":
                return None
            v = np.ma.array(v, mask=vmask)
        t = np.array([s_ * 10**9 for s_ in secs], dtype="datetime64[ns]")
        wins = self.WINDOWS[values["windows"]]
        span = {"fail_span": [0, 50], "suspect_span": [2, 30]}
        ts = lambda s_: str(np.datetime64(s_, "s"))  # noqa: E731
        ctxs = [{"window": dict(([("starting", ts(a))] if a is not None else []) + ([("ending", ts(b))] if b is not None else [])), "streams": {"v": {"qartod": {"gross_range_test": span}}}} for a, b in wins]
        config = cfgm.Config({"contexts": ctxs})
        front, index = values["front"], values["index"]
        logging.disable(logging.CRITICAL)
        try:
            with warnings.catch_warnings():
                warnings.simplefilter("ignore")
                if front == "numpy":
                    zax = np.full(n, 1.5) if vmask is None else np.ma.array(np.full(n, 1.5), mask=vmask[::-1])
                    st = stm.NumpyStream(inp=v.copy(), time=t.copy(), z=zax, lat=np.full(n, 2.5), lon=np.full(n, 3.5))
                else:
                    df = pd.DataFrame({"time": t, "v": v, "z": 1.5, "lat": 2.5, "lon": 3.5})
                    if index == "permuted":
                        df = df.set_axis([(3 * i + 2) % n for i in range(n)]) if n % 3 else df.set_axis(list(range(n - 1, -1, -1)))
                    elif index == "offset":
                        df = df.set_axis([100 - 7 * i for i in range(n)])
                    st = stm.PandasStream(df)
                runs = list(st.run(config))
                lst = rsm.collect_results(runs, how="list")
                dct = rsm.collect_results(runs, how="dict")
        except Exception as e:  # noqa: BLE001
            return "%s/%s raised %r" % (front, index, e)
        finally:
            logging.disable(logging.NOTSET)
        # expectation: the direct call on the rows of each window
        exp = {}
        for a, b in wins:
            rows = [i for i in range(n) if (a is None or a <= secs[i]) and (b is None or secs[i] < b)]
            if rows:
                with warnings.catch_warnings():
                    warnings.simplefilter("ignore")
                    fl = qm.gross_range_test(v[rows], **span)
                for i, f in zip(rows, np.ma.filled(np.ma.masked_array(fl), 255).tolist()):
                    exp[i] = int(f)
        if len(lst) != 1 or lst[0].test != "gross_range_test" or lst[0].stream_id != "v":
            return "list form: %d results" % len(lst)
        cr = lst[0]
        r = np.ma.masked_array(cr.results)
        m = np.ma.getmaskarray(r)
        if len(r) != n:
            return "list form: %d flags for %d rows" % (len(r), n)
        for i in range(n):
            if i in exp and (m[i] or int(r.data[i]) != exp[i]):
                return "list form: row %d (covered) has %s, the direct call on its window gives %d" % (i, "a masked flag" if m[i] else int(r.data[i]), exp[i])
            if i not in exp and not m[i]:
                return "list form: row %d is covered by no window but carries flag %d" % (i, int(r.data[i]))
        for name, src in (("data", v), ("tinp", t)):
            a = np.ma.masked_array(getattr(cr, name))
            am = np.ma.getmaskarray(a)
            for i in exp:
                if vmask is not None and name == "data" and vmask[i]:
                    continue  # a masked sample: its collected data may stay masked
                same = (not am[i]) and ((a.data[i] == src[i]) or (src.dtype.kind == "f" and np.isnan(src[i]) and np.isnan(a.data[i])))
                if not same:
                    return "list form: collected %s of row %d is %s, source %s" % (name, i, "masked" if am[i] else a.data[i], src[i])
        try:
            d = np.asarray(dct["v"]["qartod"]["gross_range_test"])
        except KeyError:
            return "dict form: no entry for v/qartod/gross_range_test"
        for i in range(n):
            want = exp.get(i, U)
            if len(d) != n or int(d[i]) != want:
                return "dict form: row %d has %s, expected %d" % (i, int(d[i]) if len(d) == n else "?", want)
        return None

    def bounded_checks(self, tier, rng):
        for table in self.TABLES:
            for w in self.WINDOWS:
                for front, index in (("numpy", "default"), ("pandas", "default"), ("pandas", "permuted"), ("pandas", "offset")):
                    v = {"table": table, "windows": w, "front": front, "index": index}
                    yield ("e2e", "e2e", v, (lambda v=v: self.one(v)))

    def replay_bounded(self, label, values):
        return self.one(values)


def cases():
    return [CollectEndToEnd(), Collect(how="list", axes="present"), Collect(how="dict", axes="present"), Collect(how="list", axes="absent"), Collect(how="dict", axes="absent"), CollectMulti(how="list", tests=2), CollectMulti(how="dict", tests=2), KeyLemmas()]
