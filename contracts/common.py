"""Shared vocabulary of the contracts."""
from pyvc import alg
from pyvc.contract import F, G, MISS, S, U, Case  # noqa: F401

FLAGS = (G, U, S, F, MISS)


def is_flag(v):
    return alg.or_(*[alg.eq(v, f) for f in FLAGS])


def case_of(*branches, default):
    """first matching branch: case_of((c1, v1), (c2, v2), default=v)"""
    r = default
    for c, v in reversed(branches):
        r = alg.ite(c, v, r)
    return r


def minmax(a, b):
    return alg.min_(a, b), alg.max_(a, b)


def pval(x):
    """algebra value of a real/int parameter (SNum or python number)"""
    return getattr(x, "val", x)


class Env(dict):
    __getattr__ = dict.__getitem__
    __setattr__ = dict.__setitem__


def basic_shape_clauses(res, k, n):
    """C01 (b)(c)(d): one flag per element, from the alphabet, none hidden behind a mask"""
    return {
        "flag_in_alphabet": alg.and_(alg.not_(res.flagnan(k)), is_flag(res.flag(k))),
        "not_masked": alg.not_(res.masked(k)),
    }


import itertools  # noqa: E402
from fractions import Fraction  # noqa: E402

H = Fraction(1, 2)
ALPHABET = (-2, -H, 0, 1, 3, None)


def series_grid(maxn, alphabet=ALPHABET, minn=0):
    for n in range(minn, maxn + 1):
        yield from itertools.product(alphabet, repeat=n)
