"""C07 - every equivalent spelling of a configuration yields the same calls.

Deductive: utils.dict_depth (recursive contract over a ghost nested mapping).
Bounded: generated configurations x 4 layouts x 8 carriers on the real Config: the content is the
behaviour of the YAML / JSON / xarray libraries, which no contract within reach expresses."""
import io
import itertools
import json
import os
import tempfile
from collections import OrderedDict

from .common import Case

MODULES = {"qartod": ["gross_range_test", "spike_test", "flat_line_test", "location_test"], "argo": ["pressure_increasing_test", "speed_test"], "axds": ["valid_range_test"]}
PARAMS = {
    "gross_range_test": [{"fail_span": [0, 10]}, {"fail_span": [0, 10], "suspect_span": [1, 9]}],
    "spike_test": [{"suspect_threshold": 1, "fail_threshold": 2.5}, {"suspect_threshold": 3, "method": "differential"}],
    "flat_line_test": [{"suspect_threshold": 60, "fail_threshold": 120, "tolerance": 0.1}],
    "location_test": [{"bbox": [-80, 40, -70, 60]}, None],
    "pressure_increasing_test": [None, {}],
    "speed_test": [{"suspect_threshold": 1, "fail_threshold": 3}],
    "valid_range_test": [{"valid_span": [0, 5]}],
}


def gen_stream_cfgs(rng, k):
    """k random stream mappings {stream: {module: {test: params}}} with sprinkled unknown names"""
    out = []
    for _ in range(k):
        sc = OrderedDict()
        for sid in rng.sample(["temp", "salinity", "var.1"], rng.randint(1, 2)):
            mods = OrderedDict()
            for m in rng.sample(list(MODULES), rng.randint(1, 2)):
                tests = OrderedDict()
                for t in rng.sample(MODULES[m], rng.randint(1, min(2, len(MODULES[m])))):
                    tests[t] = rng.choice(PARAMS[t])
                if rng.random() < 0.3:
                    tests["no_such_test"] = {"x": 1}
                mods[m] = tests
            if rng.random() < 0.3:
                mods["no_such_module"] = {"some_test": {"x": 1}}
            sc[sid] = mods
        out.append(sc)
    # a test name that exists in one module, configured (by mistake) under another real module that lacks it and
    # listed BEFORE the module that has it, in the same stream and in a later one: only the misplaced entry drops out
    out.append(OrderedDict([
        ("temp", OrderedDict([("axds", OrderedDict([("gross_range_test", {"fail_span": [0, 10]}), ("valid_range_test", {"valid_span": [0, 5]})])), ("qartod", OrderedDict([("gross_range_test", {"fail_span": [0, 10]}), ("spike_test", {"suspect_threshold": 1, "fail_threshold": 2.5})]))])),
        ("salinity", OrderedDict([("argo", OrderedDict([("spike_test", {"suspect_threshold": 3})])), ("qartod", OrderedDict([("spike_test", {"suspect_threshold": 3, "method": "differential"}), ("gross_range_test", {"fail_span": [0, 10]})]))])),
    ]))
    out.append(OrderedDict([("var.1", OrderedDict([("qartod", OrderedDict([("valid_range_test", {"valid_span": [0, 5]}), ("flat_line_test", {"suspect_threshold": 60, "fail_threshold": 120, "tolerance": 0.1})])), ("axds", OrderedDict([("valid_range_test", {"valid_span": [0, 5]})]))]))]))
    return out


def expected_calls(contexts):
    """the statement: one call per configured (stream, known module, known test)"""
    out = []
    for ctx in contexts:
        win = ctx.get("window")
        for sid, mods in ctx["streams"].items():
            for m, tests in mods.items():
                if m not in MODULES:
                    continue
                for t, params in tests.items():
                    if t not in MODULES[m]:
                        continue
                    out.append((sid, m, t, json.dumps(params or {}, sort_keys=True), _win(win), _region_wkt(ctx.get("region"))))
    return sorted(out, key=repr)


def _region_wkt(region):
    """the configured region as the WKT of its geometries (None when there is none)"""
    if not region:
        return None
    from shapely.geometry import GeometryCollection, shape

    if "features" in region:
        g = GeometryCollection([shape(f["geometry"]) for f in region["features"]])
    else:
        g = GeometryCollection([shape(region["geometry"])])
    return g.wkt


def _win(w):
    import pandas as pd

    if not w:
        return (None, None)
    f = lambda v: None if v is None else str(pd.Timestamp(v).tz_localize(None) if pd.Timestamp(v).tzinfo else pd.Timestamp(v))  # noqa: E731
    return (f(w.get("starting")), f(w.get("ending")))


def actual_calls(config):
    out = []
    for c in config.calls:
        w = c.window
        out.append((c.stream_id, c.module, c.method, json.dumps(dict(c.kwargs), sort_keys=True), _win({"starting": w.starting, "ending": w.ending}), c.region.wkt if c.region is not None else None))
    return sorted(out, key=repr)


class ConfigSpellings(Case):
    is_bounded = True
    module = "ioos_qc.config"
    function = "Config.__init__"
    default_props = {}
    props = {"bounded.same_calls_for_every_spelling": ("C07",)}

    def all_props(self):
        return {"C07"}

    CARRIERS = ("dict", "odict", "yaml", "json", "stringio", "path_yaml", "path_json", "xarray_attr", "xarray_vars", "dict_objects")

    def carry(self, obj, carrier, tmp):
        import xarray as xr
        from ruamel.yaml import YAML

        plain = json.loads(json.dumps(obj))
        if carrier == "dict":
            return plain
        if carrier == "dict_objects":
            # an in-memory configuration whose windows are TimeWindow objects and whose regions are
            # shapely GeometryCollections (the object spellings ContextConfig accepts)
            from shapely.geometry import GeometryCollection, shape

            from pyvc import replay

            tw = replay.real_module("ioos_qc.config").tw

            def conv(ctx):
                ctx = dict(ctx)
                if "window" in ctx:
                    ctx["window"] = tw(**ctx["window"])
                if ctx.get("region"):
                    r = ctx["region"]
                    ctx["region"] = GeometryCollection([shape(f["geometry"]) for f in r["features"]]) if "features" in r else GeometryCollection([shape(r["geometry"])])
                return ctx

            if isinstance(plain, dict) and "contexts" in plain:
                return {"contexts": [conv(c_) for c_ in plain["contexts"]]}
            if isinstance(plain, dict) and "streams" in plain:
                return conv(plain)
            return None
        if carrier == "odict":
            return OrderedDict(plain)
        if carrier in ("yaml", "stringio", "path_yaml"):
            buf = io.StringIO()
            YAML(typ="safe").dump(plain, buf)
            text = buf.getvalue()
            if carrier == "yaml":
                return text
            if carrier == "stringio":
                return io.StringIO(text)
            p = os.path.join(tmp, "cfg.yaml")
            open(p, "w").write(text)
            return p
        if carrier == "json":
            return json.dumps(plain)
        if carrier == "path_json":
            from pathlib import Path

            p = os.path.join(tmp, "cfg.json")
            open(p, "w").write(json.dumps(plain))
            return Path(p)
        if carrier == "xarray_attr":
            return xr.Dataset(attrs={"ioos_qc_config": json.dumps(plain)})
        if carrier == "xarray_vars":
            # "the QC attributes of an xarray Dataset": one QC variable per (stream, module, test) with the
            # ioos_qc_module / ioos_qc_test / ioos_qc_target / ioos_qc_config attributes.  Only a stream
            # mapping whose tests all have a parameter mapping can be written this way.
            import numpy as np

            if not self._is_stream_mapping_with_params(plain):
                return None
            dvs = {}
            for sid, mods in plain.items():
                for mod, tests in mods.items():
                    for test, params in tests.items():
                        dvs["qc_%d" % len(dvs)] = xr.DataArray(np.zeros(2), dims=("obs",), attrs={"ioos_qc_module": mod, "ioos_qc_test": test, "ioos_qc_target": sid, "ioos_qc_config": json.dumps(params)})
            return xr.Dataset(dvs)
        raise ValueError(carrier)

    @staticmethod
    def _is_stream_mapping_with_params(plain):
        try:
            return bool(plain) and all(isinstance(params, dict) and params for mods in plain.values() for tests in mods.values() for params in tests.values())
        except AttributeError:
            return False

    def layouts(self, contexts):
        """(layout name, object, default stream key or None) for every layout that can express `contexts`"""
        out = [("contexts", {"contexts": contexts}, None)]
        if len(contexts) == 1:
            c = contexts[0]
            out.append(("single-context", c, None))
            if "window" not in c and "region" not in c:
                out.append(("stream-mapping", c["streams"], None))
                if len(c["streams"]) == 1:
                    (sid, mods), = c["streams"].items()
                    out.append(("module-mapping", mods, sid))
        return out

    def one(self, contexts, layout, carrier, history=None):
        from pyvc import replay

        cfgm = replay.real_module("ioos_qc.config")
        if history == "after-yaml-1.1":
            # history: another, valid configuration written as a YAML 1.1 document was loaded before; what a
            # later configuration means must not depend on it
            try:
                cfgm.Config("%YAML 1.1\n---\nstreams:\n  w:\n    qartod:\n      gross_range_test:\n        fail_span: [0, 10]\n")
            except Exception:  # noqa: BLE001, S110
                pass
        exp = expected_calls(contexts)
        for name, obj, sid in self.layouts(contexts):
            if name != layout:
                continue
            with tempfile.TemporaryDirectory() as tmp:
                try:
                    src = None if (carrier == "xarray_vars" and layout != "stream-mapping") else self.carry(obj, carrier, tmp)
                    if src is None:
                        return None  # this carrier cannot express the layout
                    cfg = cfgm.Config(src, default_stream_key=sid) if sid is not None else cfgm.Config(src)
                    got = actual_calls(cfg)
                except Exception as e:  # noqa: BLE001
                    return "%s/%s raised %r" % (layout, carrier, e)
            if got != exp:
                missing = [c for c in exp if c not in got]
                extra = [c for c in got if c not in exp]
                return "%s/%s: missing %s extra %s" % (layout, carrier, missing[:3], extra[:3])
        return None

    def region_of(self, contexts, layout):
        """known-finding region: a bare stream mapping in which no test has parameters has nesting
        depth 3 and is read as a module mapping"""
        if layout == "stream-mapping":
            from pyvc import replay

            depth = replay.real_module("ioos_qc.utils").dict_depth(json.loads(json.dumps(contexts[0]["streams"])))
            if depth < 4:
                return "shallow-stream-mapping"
        return "spelling"

    def bounded_checks(self, tier, rng):
        k = 6 if tier == "quick" else 40
        cfgs = []
        for sc in gen_stream_cfgs(rng, k):
            cfgs.append([{"streams": sc}])
            cfgs.append([{"streams": sc, "window": {"starting": "2020-01-01T00:00:00", "ending": "2020-04-01T00:00:00"}}])
        more = gen_stream_cfgs(rng, 2)
        cfgs.append([{"streams": more[0], "window": {"starting": "2020-01-01T00:00:00"}}, {"streams": more[1]}])
        # windows with one bound, written ending-first; GeoJSON regions as a Feature and as a FeatureCollection
        poly = {"type": "Polygon", "coordinates": [[[-70.0, 40.0], [-60.0, 40.0], [-60.0, 45.0], [-70.0, 45.0], [-70.0, 40.0]]]}
        point = {"type": "Point", "coordinates": [-65.0, 42.0]}
        simple = {"v": {"qartod": {"gross_range_test": {"fail_span": [0, 10]}}}}
        cfgs.append([{"streams": simple, "window": {"ending": "2020-04-01T00:00:00"}}])
        cfgs.append([{"streams": simple, "window": OrderedDict([("ending", "2020-04-01T00:00:00"), ("starting", "2020-01-01T00:00:00")])}])
        cfgs.append([{"streams": simple, "region": {"type": "Feature", "geometry": poly}}])
        cfgs.append([{"streams": simple, "region": {"type": "FeatureCollection", "features": [{"type": "Feature", "geometry": poly}, {"type": "Feature", "geometry": point}]}, "window": {"starting": "2020-01-01T00:00:00", "ending": "2020-04-01T00:00:00"}}])
        cfgs.append([{"streams": simple, "region": {"type": "Feature", "geometry": point}}, {"streams": more[1]}])
        # the shallow case: tests without parameters only
        cfgs.append([{"streams": {"v": {"argo": {"pressure_increasing_test": None}}}}])
        # every pattern of streams with / without parameters (1-3 streams, any order)
        withp = {"qartod": {"gross_range_test": {"fail_span": [0, 10]}}}
        without = {"argo": {"pressure_increasing_test": None}, "qartod": {"location_test": None}}
        for kk in (2, 3):
            for pat in itertools.product((True, False), repeat=kk):
                if not any(pat):
                    continue
                cfgs.append([{"streams": OrderedDict(("s%d" % i, (withp if p_ else without)) for i, p_ in enumerate(pat))}])
        for contexts in cfgs:
            for (layout, _obj, _sid) in self.layouts(contexts):
                for carrier in self.CARRIERS:
                    yield ("%s/%s" % (layout, carrier), self.region_of(contexts, layout), {"contexts": contexts, "layout": layout, "carrier": carrier}, (lambda c=contexts, la=layout, ca=carrier: self.one(c, la, ca)))
        # plain scalars that YAML 1.1 and 1.2 read differently (NO, yes, on), after a YAML 1.1 document was loaded
        odd = [{"streams": OrderedDict([("NO", {"qartod": {"gross_range_test": {"fail_span": [0, 10]}}}), ("on", {"qartod": {"location_test": {"bbox": [0, 0, 10, 10]}}})])}]
        for (layout, _obj, _sid) in self.layouts(odd):
            for carrier in ("dict", "yaml", "stringio", "path_yaml", "json"):
                for hist in (None, "after-yaml-1.1"):
                    yield ("%s/%s%s" % (layout, carrier, "/" + hist if hist else ""), self.region_of(odd, layout), {"contexts": odd, "layout": layout, "carrier": carrier, "history": hist}, (lambda c=odd, la=layout, ca=carrier, h=hist: self.one(c, la, ca, h)))

    def replay_bounded(self, label, values):
        return self.one(values["contexts"], values["layout"], values["carrier"], values.get("history"))


def cases():
    return [ConfigSpellings()]


# ------------------------------------------------------------------ utils.dict_depth (deductive)
import z3  # noqa: E402

from pyvc import alg  # noqa: E402
from pyvc.ctx import cur  # noqa: E402
from pyvc.seqmodel import SymSeq  # noqa: E402
from pyvc.values import SBool, SNum  # noqa: E402

from .common import Env  # noqa: E402

DEPTH = z3.Function("ghost_depth", z3.IntSort(), z3.IntSort())  # nesting depth of child q


class _Child:
    def __init__(self, q):
        self.q = q


class GhostDict(dict):
    """a mapping with a symbolic number K of values; child q is a ghost object of depth DEPTH(q)"""

    def __init__(self, K):
        dict.__init__(self)
        self.K = K

    def __bool__(self):
        return bool(SBool(alg.gt(self.K, 0)))

    def values(self):
        return SymSeq(self.K, lambda q: _Child(q), None, "values")


class DictDepth(Case):
    """params: kind in {'scalar','mapping'}.  Recursive calls are bound to the contract
    (dict_depth(child q) == DEPTH(q)): induction on the nesting depth."""

    module = "ioos_qc.utils"
    function = "dict_depth"
    default_props = {}
    props = {"post.depth_is_one_plus_deepest_value": ("C07",), "no-raise": ("C07",)}

    def declare(self, mk):
        e = Env(mode=mk.mode)
        if self.params["kind"] == "mapping" and mk.mode == "sym":
            e.K = mk.length("K")
        return e

    def grid(self, tier, rng):
        return [{}]

    def canary(self, e, res, k):
        return None

    def call(self, mod, e):
        if e.mode != "sym":
            return mod.dict_depth({"a": {"b": {}}, "c": 1}) if self.params["kind"] == "mapping" else mod.dict_depth(5)
        if self.params["kind"] == "scalar":
            return mod.dict_depth(5)
        real = mod.dict_depth

        def stub(x):
            if isinstance(x, _Child):
                cur().use("contract utils.dict_depth (recursive call)")
                return SNum(DEPTH(alg.lift(x.q)), False, "pyi")
            return real(x)

        g = mod.__dict__
        real = getattr(real, "__pyvc_real__", real)
        stub.__pyvc_real__ = real
        # the stub stays bound after the call: a comprehension over the symbolic values is answered lazily
        # (the recursive calls happen while the obligations are built); for anything but a ghost child the
        # stub is the real function
        g["dict_depth"] = stub
        return real(GhostDict(e.K))

    def post_global(self, e, res):
        r = res.value
        if e.mode != "sym":
            return {"depth_is_one_plus_deepest_value": r == (3 if self.params["kind"] == "mapping" else 0)}
        if self.params["kind"] == "scalar":
            return {"depth_is_one_plus_deepest_value": r == 0}
        rv = r.val if isinstance(r, SNum) else r
        K = e.K
        q = z3.Int("q!dd")
        cur().index_seeds.append(q)
        q2 = z3.Int("q2!dd")
        deepest = z3.And(z3.ForAll([q2], z3.Implies(z3.And(q2 >= 0, q2 < K), alg.lift(rv) - 1 >= DEPTH(q2))) if False else z3.Implies(z3.And(q >= 0, q < K), alg.lift(rv) - 1 >= DEPTH(q)), z3.Exists([q2], z3.And(q2 >= 0, q2 < K, alg.lift(rv) - 1 == DEPTH(q2))))
        return {"depth_is_one_plus_deepest_value": z3.If(K == 0, alg.lift(rv) == 1, deepest)}


def cases():  # noqa: F811
    return [ConfigSpellings(), DictDepth(kind="scalar"), DictDepth(kind="mapping")]


# ------------------------------------------------------------------ Config.__init__: layout dispatch (deductive)
HASP = z3.Function("stream_has_params", z3.IntSort(), z3.BoolSort())  # some test of stream q has parameters


class _GhostStream:
    """a stream entry {module: {test: params}} of nesting depth 2, or 3 when some test has parameters"""

    def __init__(self, q):
        self.q = q


class GhostStreamMapping(OrderedDict):
    """a bare stream mapping {stream id: {module: {test: params}}} with a symbolic number K >= 1 of streams"""

    def __init__(self, K):
        OrderedDict.__init__(self)
        self.K = K

    def __bool__(self):
        return True

    def __pyvc_contains__(self, key):
        return False  # neither 'contexts' nor 'streams' is a stream id here

    def values(self):
        return SymSeq(self.K, lambda q: _GhostStream(q), None, "streams")


class LayoutDispatch(Case):
    """Config.__init__ on a bare stream mapping: it must be handed to ContextConfig as `streams`
    (so that every configured stream keeps its id), whatever the parameters of the tests are.
    dict_depth is bound to its contract, ContextConfig to a recorder."""

    module = "ioos_qc.config"
    function = "Config.__init__"
    default_props = {}
    props = {"post.stream_mapping_is_read_as_streams": ("C07",), "no-raise": ("C07",)}

    def declare(self, mk):
        e = Env(mode=mk.mode)
        if mk.mode == "sym":
            e.K = mk.length("K", lo=1)
            K = e.K
            mk.decls.append(("custom", "hasp", lambda ev: [bool(ev(HASP(z3.IntVal(i)))) for i in range(ev(K))]))
        else:
            e.hasp = [bool(h) for h in mk.values["hasp"]]
        return e

    def regions(self, e, res=None, k=None):
        q = z3.Int("q!sh")
        return {"shallow-stream-mapping": z3.Not(z3.Exists([q], z3.And(q >= 0, q < e.K, HASP(q))))}

    def grid(self, tier, rng):
        return []

    def canary(self, e, res, k):
        return None

    no_concrete_model = True

    def call(self, mod, e):
        if e.mode != "sym":
            withp = {"qartod": {"gross_range_test": {"fail_span": [0, 10]}}}
            without = {"argo": {"pressure_increasing_test": None}}
            src = OrderedDict(("s%d" % i, (withp if h else without)) for i, h in enumerate(e.hasp))
            return ("concrete", mod.Config(src), list(src))
        c = cur()
        src = GhostStreamMapping(e.K)
        seen = {}

        def depth_stub(x):
            c.use("contract utils.dict_depth")
            if isinstance(x, GhostStreamMapping):
                m = c.fresh("depth", z3.IntSort())
                w = c.fresh("depthw", z3.IntSort())
                d = lambda q: z3.If(HASP(q), z3.IntVal(3), z3.IntVal(2))  # noqa: E731
                c.assume(z3.And(w >= 0, w < x.K, m == 1 + d(w)))
                qq = z3.Int("q!depth%d" % id(x))
                c.assume(z3.ForAll([qq], z3.Implies(z3.And(qq >= 0, qq < x.K), m >= 1 + d(qq))))
                return SNum(m, False, "pyi")
            if isinstance(x, _GhostStream):
                return SNum(z3.If(HASP(alg.lift(x.q)), z3.IntVal(3), z3.IntVal(2)), False, "pyi")
            raise AssertionError("dict_depth of %r" % (type(x),))

        class Recorder:
            def __init__(self, source):
                seen["source"] = source
                self.calls = []

        g = mod.__dict__
        real_dd, real_cc = g["dict_depth"], g["ContextConfig"]
        g["dict_depth"], g["ContextConfig"] = depth_stub, Recorder
        try:
            mod.Config(src)
        finally:
            g["dict_depth"], g["ContextConfig"] = real_dd, real_cc
        return (seen, src)

    def post_global(self, e, res):
        if res.value[0] == "concrete":
            _tag, cfg, ids = res.value
            return {"stream_mapping_is_read_as_streams": sorted({c_.stream_id for c_ in cfg.calls}) == sorted(ids)}
        seen, src = res.value
        s = seen.get("source")
        ok = s is not None and "streams" in s and s["streams"] is src
        return {"stream_mapping_is_read_as_streams": bool(ok)}


def cases():  # noqa: F811
    return [ConfigSpellings(), DictDepth(kind="scalar"), DictDepth(kind="mapping"), LayoutDispatch()]
