"""Contracts: config_creator.fx_parser.evaluate_stack / eval_fx, QcVariableConfig._validate_fx (C20).

evaluate_stack is recursive over a postfix token list.  Ghost expression tree e; contract
    requires  s == S0 ++ postfix(e)          (S0 arbitrary: whatever earlier parses left behind)
    ensures   result == val(e)  and  s == S0
proved per constructor of e: the body is executed once on a stack whose top is the constructor's own
token, with the recursive calls bound to the contract (a stub that consumes one ghost subtree and
returns its value) - induction on the depth of e.  Because S0 is universally quantified, the value
does not depend on the history of the module-level exprStack, which is never cleared."""
import z3

from pyvc import alg
from pyvc.ctx import Unsupported, cur
from pyvc.strmodel import PYFLOAT, STR2FLOAT, SStr
from pyvc.values import SNum

from .common import Case, Env, pval

NUMBER_RE = None


def number_re():
    """fnumber = [+-]?\\d+(?:\\.\\d*)?(?:[eE][+-]?\\d+)?  (the grammar's number token)"""
    d = z3.Range("0", "9")
    sign = z3.Option(z3.Union(z3.Re("+"), z3.Re("-")))
    return z3.Concat(sign, z3.Plus(d), z3.Option(z3.Concat(z3.Re("."), z3.Star(d))), z3.Option(z3.Concat(z3.Union(z3.Re("e"), z3.Re("E")), sign, z3.Plus(d))))


def ident_re():
    """ident = Word(alphas, alphanums + '_$')"""
    a = z3.Union(z3.Range("a", "z"), z3.Range("A", "Z"))
    an = z3.Union(a, z3.Range("0", "9"), z3.Re("_"), z3.Re("$"))
    return z3.Concat(a, z3.Star(an))


class Tree:
    """ghost subtree on the stack: an expression whose value is `val`"""

    def __init__(self, val):
        self.val = val


class GhostStack:
    """list of tokens seen as  S0 ++ segments ; only pop() of a concrete top token and the
    recursive contract (consume one ghost subtree) are possible"""

    def __init__(self, segments):
        self.segments = list(segments)
        self.popped = 0

    def pop(self):
        if not self.segments:
            cur().notes.append(("stack-underflow", "pop below the expression: reads the history S0"))
            raise IndexError("pop from empty list")
        top = self.segments.pop()
        if isinstance(top, Tree):
            cur().unsupported_here("pop of a ghost subtree (the body must recurse)")
        self.popped += 1
        return top

    def consume_tree(self):
        if not self.segments or not isinstance(self.segments[-1], Tree):
            cur().notes.append(("contract-pre", "recursive call without a subtree on top"))
            raise AssertionError("evaluate_stack contract: requires a complete expression on top of the stack")
        return self.segments.pop()


class FxOut:
    def __init__(self, value, rest):
        self.value, self.rest = value, rest


class EvalStack(Case):
    """params: node in {'+','-','*','/','unary -','mean','min','max','std','PI','E','number','badident'}"""

    module = "ioos_qc.config_creator.fx_parser"
    function = "evaluate_stack"
    default_props = {}
    props = {"post.value_of_node": ("C20",), "post.stack_restored": ("C20",), "no-raise": ("C20",), "raises.invalid-identifier": ("C20",), "raises.division-by-zero": ("C20",)}

    def declare(self, mk):
        e = Env()
        e.mode = mk.mode
        node = self.params["node"]
        e.stats = {k: mk.real("stat_" + k) for k in ("mean", "min", "max", "std")}
        if node in ("+", "-", "*", "/"):
            e.l, e.r = mk.real("l"), mk.real("r")
        if node == "unary -":
            e.l = mk.real("l")
        if node in ("number", "badident"):
            e.tok = SStr(z3.String("tok")) if mk.mode == "sym" else mk.values["tok"]
            if mk.mode == "sym":
                if node == "number":
                    mk.assume(z3.InRe(e.tok.term, number_re()))
                    # every token of the grammar's number syntax is accepted by float()
                    mk.assume(PYFLOAT(e.tok.term))
                else:
                    mk.assume(z3.InRe(e.tok.term, ident_re()))
                    for kw in ("mean", "min", "max", "std", "PI", "E", "sin", "cos", "tan", "exp", "abs", "trunc", "round", "sgn"):
                        mk.assume(e.tok.term != z3.StringVal(kw))
        return e

    def call(self, mod, e):
        node = self.params["node"]
        real_fn = mod.evaluate_stack
        if e.mode != "sym":
            # concrete reading: a real list with concrete subexpressions
            hist = ["7", "unary -"]  # leftovers of an earlier parse
            if node in ("+", "-", "*", "/"):
                s = hist + [str(float(e.l)), str(float(e.r)), node]
            elif node == "unary -":
                s = hist + [str(float(e.l)), node]
            elif node in ("number", "badident"):
                s = hist + [e.tok]
            else:
                s = hist + [node]
            n0 = len(hist)
            stats = {k: float(v) if not hasattr(v, "val") else v for k, v in e.stats.items()}
            r = real_fn(s, stats)
            return FxOut(r, len(s) - n0)
        segs = []
        if node in ("+", "-", "*", "/"):
            segs = [Tree(e.l), Tree(e.r), node]
        elif node == "unary -":
            segs = [Tree(e.l), node]
        elif node in ("number", "badident"):
            segs = [e.tok]
        else:
            segs = [node]
        st = GhostStack(segs)

        def stub(s, stats):
            cur().use("contract fx_parser.evaluate_stack (recursive call)")
            if not isinstance(s, GhostStack):
                return real_fn(s, stats)
            return s.consume_tree().val

        g = mod.__dict__
        g["evaluate_stack"] = stub
        try:
            r = real_fn(st, e.stats)
        finally:
            g["evaluate_stack"] = real_fn
        return FxOut(r, len(st.segments))

    def raises(self, e):
        node = self.params["node"]
        if node == "badident":
            return [(Exception, "invalid-identifier", True)]
        if node == "/":
            return [(ZeroDivisionError, "division-by-zero", alg.eq(pval(e.r), 0))]
        return []

    def canary(self, e, res, k):
        return None

    def post_global(self, e, res):
        node = self.params["node"]
        out = res.value
        v = out.value
        val = pval(v) if isinstance(v, SNum) else (alg.conc(v) if isinstance(v, (int, float)) else None)
        if val is None:
            return {"value_of_node": False}
        import math

        l, r = (pval(e.l) if "l" in e else None), (pval(e.r) if "r" in e else None)
        if node == "+":
            spec = alg.add(l, r)
        elif node == "-":
            spec = alg.sub(l, r)
        elif node == "*":
            spec = alg.mul(l, r)
        elif node == "/":
            spec = alg.rdiv(l, r)
        elif node == "unary -":
            spec = alg.neg(l)
        elif node in ("mean", "min", "max", "std"):
            spec = pval(e.stats[node])
        elif node == "PI":
            spec = alg.conc(math.pi)
        elif node == "E":
            spec = alg.conc(math.e)
        elif node == "number":
            spec = STR2FLOAT(e.tok.term) if e.mode == "sym" else alg.conc(float(e.tok))
        else:
            spec = None
        return {"value_of_node": alg.eq(val, spec) if spec is not None else False, "stack_restored": out.rest == 0}

    def grid(self, tier, rng):
        node = self.params["node"]
        if node == "number":
            for t in ("3", "-2.5", "+7.", "1e3", "2.5E-1"):
                yield {"tok": t, "stat_mean": 1, "stat_min": 0, "stat_max": 3, "stat_std": 0.5}
        elif node == "badident":
            for t in ("foo", "meanx", "a_1"):
                yield {"tok": t, "stat_mean": 1, "stat_min": 0, "stat_max": 3, "stat_std": 0.5}
        else:
            for l, r in ((1, 2), (3, 0.5), (-2, 4), (5, 0)):
                yield {"l": l, "r": r, "stat_mean": 1, "stat_min": 0, "stat_max": 3, "stat_std": 0.5}


def cases():
    return [EvalStack(node=n) for n in ("+", "-", "*", "/", "unary -", "mean", "min", "max", "std", "PI", "E", "number", "badident")]


# ------------------------------------------------------------------ QcVariableConfig._validate_fx
STATS, OPS, GROUPS = ("min", "max", "mean", "std"), ("+", "-", "*", "/"), ("(", ")")


def allowed(tok):
    """the statement: a token is a number, one of the four statistics, an operator or a parenthesis"""
    if isinstance(tok, SStr):
        t = tok.term
        return alg.or_(PYFLOAT(t), *[t == z3.StringVal(k) for k in STATS + OPS + GROUPS])
    try:
        float(tok)
        return True
    except ValueError:
        return tok in STATS + OPS + GROUPS


class ValidateFx(Case):
    """the token loop is cut as a stateless loop: the clauses speak about the arbitrary token j the
    body was executed for; "accepted iff every token is allowed" is their generalisation over j
    (each iteration reads only its own token and either raises or completes)"""

    module = "ioos_qc.config_creator.config_creator"
    function = "QcVariableConfig._validate_fx"
    default_props = {}
    props = {"raises.token-not-allowed": ("C20",), "no-raise": ("C20",)}

    def declare(self, mk):
        e = Env()
        e.mode = mk.mode
        e.fx = SStr(z3.String("fx")) if mk.mode == "sym" else mk.values["fx"]
        return e

    def call(self, mod, e):
        obj = mod.QcVariableConfig.__new__(mod.QcVariableConfig)
        return mod.QcVariableConfig._validate_fx(obj, e.fx, "gross_range_test")

    def _tok(self, e):
        c = cur()
        g = getattr(c, "ghost", {})
        sp = g.get("splits", [])
        j = g.get("cut_index", {}).get("tokens")
        if not sp or j is None:
            return None
        return sp[0].at(j)

    def raises(self, e):
        if e.mode == "sym":
            t = self._tok(e)
            if t is None:
                return [(ValueError, "token-not-allowed", False)]
            return [(ValueError, "token-not-allowed", alg.not_(allowed(t)))]
        bad = any(not allowed(t) for t in e.fx.split(" "))
        return [(ValueError, "token-not-allowed", bad)]

    def canary(self, e, res, k):
        return None

    def grid(self, tier, rng):
        for fx in ("mean - std * 2", "max + 1e3", "( min + max ) / 2", "mean-std", "mean + foo", "3 +  4", "", "nan", "min * -inf", "sum ( min )"):
            yield {"fx": fx}


class CreateConfigGrid(Case):
    """bounded: QcConfigCreator.create_config on synthetic climatologies that are constant in time
    (written as netCDF3 files with the scipy engine, read back by the real code): the spans equal the
    limit expressions evaluated on min / max / mean / std of the cells inside the bounding box.  Grids,
    bounding boxes (edges on and between grid lines) and date ranges are enumerated; xarray / scipy
    interpolation is outside any contract within reach."""

    is_bounded = True
    module = "ioos_qc.config_creator.config_creator"
    function = "QcConfigCreator.create_config"
    default_props = {}
    props = {"bounded.create_config_spans": ("C20",)}

    def all_props(self):
        return {"C20"}

    LAT = [10.0, 11.0, 12.0, 13.0]
    LON = [-70.0, -69.0, -68.0, -67.0, -66.0]
    FIELDS = {
        "squares": lambda i, j: 1.0 + float(5 * i + j) ** 2,
        "ramp": lambda i, j: 0.5 * i - 1.25 * j + 3.0,
        "mixed": lambda i, j: float((-1) ** (i + j)) * (2.0 + i + 0.5 * j) + 1.0,
        # anomalies around zero: inside a box that is symmetric about the middle column the cells sum to 0
        "anomaly": lambda i, j: float(j - 2) * (1.0 + i),
    }
    EXPRS = {"suspect_min": "min", "suspect_max": "max", "fail_min": "mean - 2 * std", "fail_max": "( max + min ) / 2 + std"}

    def one(self, values):
        import logging
        import tempfile
        import warnings
        from pathlib import Path

        import numpy as np
        import pandas as pd
        import xarray as xr

        from pyvc import replay

        mod = replay.real_module(self.module)
        lat, lon = np.array(self.LAT), np.array(self.LON)
        f = self.FIELDS[values["field"]]
        cells = np.array([[f(i, j) for j in range(lon.size)] for i in range(lat.size)], dtype="float64")
        time = pd.to_datetime(["2001-%02d-15" % m for m in range(1, 13)])
        field = np.broadcast_to(cells, (time.size, lat.size, lon.size)).copy()
        ds = xr.Dataset({"t_an": (("time", "lat", "lon"), field)}, coords={"time": time, "lat": lat, "lon": lon})
        bbox = [float(b) for b in values["bbox"]]
        logging.disable(logging.CRITICAL)
        try:
            with tempfile.TemporaryDirectory() as tmp, warnings.catch_warnings():
                warnings.simplefilter("ignore")
                path = Path(tmp) / "clim.nc"
                ds.to_netcdf(path, engine="scipy")
                creator = mod.QcConfigCreator(mod.CreatorConfig({"datasets": [{"name": "clim", "file_path": str(path), "variables": {"temperature": "t_an"}}]}))
                vc = mod.QcVariableConfig({"variable": "temperature", "bbox": list(bbox), "start_time": values["start"], "end_time": values["end"], "tests": {"gross_range_test": dict(self.EXPRS)}})
                got = creator.create_config(vc)["temperature"]["qartod"]["gross_range_test"]
        except Exception as e:  # noqa: BLE001
            return "create_config raised %r" % (e,)
        finally:
            logging.disable(logging.NOTSET)
        inside = cells[np.ix_((lat >= bbox[1]) & (lat <= bbox[3]), (lon >= bbox[0]) & (lon <= bbox[2]))]
        if inside.size == 0:
            return None  # no cell inside the box: the statement does not say what the spans are
        mn, mx, mean, std = inside.min(), inside.max(), inside.mean(), inside.std()
        want = {"suspect_span": [mn, mx], "fail_span": [mean - 2 * std, (mx + mn) / 2 + std]}
        for k_, w in want.items():
            if not np.allclose(np.array(got[k_], dtype=float), w, rtol=1e-9, atol=1e-9):
                return "%s = %s, statistics of the %d cells inside the box give %s" % (k_, [float(x) for x in got[k_]], inside.size, [float(x) for x in w])
        return None

    def region_of(self, values):
        import numpy as np

        lat, lon = np.array(self.LAT), np.array(self.LON)
        f = self.FIELDS[values["field"]]
        b = [float(x) for x in values["bbox"]]
        inside = [f(i, j) for i in range(lat.size) for j in range(lon.size) if b[1] <= lat[i] <= b[3] and b[0] <= lon[j] <= b[2]]
        if inside and abs(sum(inside)) < 1e-12:
            return "cells-sum-to-zero"
        return "grid"

    def bounded_checks(self, tier, rng):
        boxes = [
            [-69.5, 10.5, -66.5, 12.5],  # every edge between grid lines
            [-69.0, 11.0, -67.0, 12.0],  # every edge on a grid line
            [-69.5, 10.5, -67.0, 12.5],  # east edge on a grid line
            [-69.0, 10.5, -66.5, 12.5],  # west edge on a grid line
            [-69.5, 11.0, -66.5, 12.5],  # south edge on a grid line
            [-69.5, 10.5, -66.5, 12.0],  # north edge on a grid line
            [-68.0, 12.0, -68.0, 12.0],  # a single cell
            [-70.0, 10.0, -66.0, 13.0],  # the whole grid
        ]
        dates = [("2021-03-01", "2021-04-01"), ("2021-06-10", "2021-06-20"), ("2021-01-01", "2021-12-31")]
        if tier == "quick":
            dates = dates[:2]
        for fld in self.FIELDS:
            for b in boxes:
                for (s0, s1) in dates:
                    v = {"field": fld, "bbox": b, "start": s0, "end": s1}
                    yield ("create_config", self.region_of(v), v, (lambda v=v: self.one(v)))

    def replay_bounded(self, label, values):
        return self.one(values)


def cases():  # noqa: F811
    cs = [EvalStack(node=n) for n in ("+", "-", "*", "/", "unary -", "mean", "min", "max", "std", "PI", "E", "number", "badident")]
    cs.append(ValidateFx())
    return cs


# ------------------------------------------------------------------ eval_fx relative to the grammar contract
class _ParserStub:
    """contract of BNF().parseString(fx, parseAll=True): appends postfix(tree(fx)) to exprStack"""

    def __init__(self, stack, tree):
        self.stack, self.tree = stack, tree

    def parseString(self, fx, parseAll=False):  # noqa: N802, N803
        cur().use("contract pyparsing grammar BNF(): parseString appends the postfix form of the expression")
        self.stack.segments.append(self.tree)
        return None


class _StackGlobal(GhostStack):
    def __getitem__(self, idx):
        if isinstance(idx, slice) and idx == slice(None, None, None):
            return GhostStack(self.segments)  # exprStack[:] : a copy
        cur().unsupported_here("exprStack indexing other than [:]")

    def copy(self):
        return GhostStack(self.segments)

    def __pyvc_list__(self):  # list(exprStack)
        return GhostStack(self.segments)

    def __iter__(self):
        cur().unsupported_here("iteration over exprStack")


class EvalFx(Case):
    """eval_fx(fx, stats) == val(tree(fx)) whatever earlier calls left on the never-cleared
    module-level stack (the history is the universally quantified S0 of evaluate_stack's contract)"""

    module = "ioos_qc.config_creator.fx_parser"
    function = "eval_fx"
    default_props = {}
    props = {"post.value_independent_of_history": ("C20",), "no-raise": ("C20",)}

    def declare(self, mk):
        e = Env()
        e.mode = mk.mode
        e.v = mk.real("v")
        return e

    def call(self, mod, e):
        if e.mode != "sym":
            return FxOut(mod.eval_fx("mean - %s" % float(e.v), {"mean": 1.0, "min": 0.0, "max": 2.0, "std": 0.5}), 0)
        g = mod.__dict__
        real_es, real_bnf, real_stack = g["evaluate_stack"], g["BNF"], g["exprStack"]
        stack = _StackGlobal([])
        tree = Tree(e.v)

        def es_stub(s, stats):
            cur().use("contract fx_parser.evaluate_stack")
            if not isinstance(s, GhostStack) or isinstance(s, _StackGlobal):
                cur().notes.append(("contract-pre", "evaluate_stack called on the shared stack instead of a copy"))
                raise AssertionError("evaluate_stack must get a copy")
            return s.consume_tree().val

        g["evaluate_stack"], g["BNF"], g["exprStack"] = es_stub, (lambda: _ParserStub(stack, tree)), stack
        try:
            r = mod.eval_fx(SStr(z3.String("fx")), {})
        finally:
            g["evaluate_stack"], g["BNF"], g["exprStack"] = real_es, real_bnf, real_stack
        return FxOut(r, 0)

    def canary(self, e, res, k):
        return None

    def post_global(self, e, res):
        v = res.value.value
        if e.mode != "sym":
            return {"value_independent_of_history": abs(float(v) - (1.0 - float(e.v))) < 1e-12}
        return {"value_independent_of_history": alg.eq(pval(v), pval(e.v))}

    def grid(self, tier, rng):
        for v in (0, 0.5, 3):
            yield {"v": v}


def OrderedDictLike(pairs):
    """statistics as a list of [name, value] pairs (JSON-able, order kept)"""
    return [[k, v] for k, v in pairs]


class FxGrammar(Case):
    """bounded: the pyparsing grammar (built at run time from combinators) against ordinary
    arithmetic - all expressions up to the given depth, and histories with failing parses between"""

    is_bounded = True
    module = "ioos_qc.config_creator.fx_parser"
    function = "BNF"
    default_props = {}
    props = {"bounded.grammar_value": ("C20",)}

    def all_props(self):
        return {"C20"}

    STATS = {"min": -1.5, "max": 4.0, "mean": 1.25, "std": 0.5}

    def exprs(self, depth):
        """(text, value) pairs"""
        atoms = [("2", 2.0), ("0.5", 0.5), ("3e0", 3.0)] + [(k, v) for k, v in self.STATS.items()]
        level = list(atoms)
        allx = list(level)
        for _ in range(depth):
            nxt = []
            for (ta0, va) in level[:12]:
                atomic = " " not in ta0 and not ta0.startswith("-")
                ta = ta0 if atomic else "( %s )" % ta0  # a compound operand is parenthesised; precedence and
                # associativity are exercised by the explicit three-operand patterns below
                nxt.append(("-%s" % ta, -va))
                nxt.append(("- - %s" % ta, va))  # runs of unary minus signs in front of one operand
                nxt.append(("- - - %s" % ta, -va))
                nxt.append(("2 * - - %s" % ta, 2 * va))
                nxt.append(("max - - - %s" % ta, self.STATS["max"] - va))  # binary minus, then two unary ones
                nxt.append(("( %s )" % ta0, va))
                for (tb, vb) in atoms[:5]:
                    nxt.append(("%s + %s" % (ta, tb), va + vb))
                    nxt.append(("%s - %s" % (ta, tb), va - vb))
                    nxt.append(("%s * %s" % (ta, tb), va * vb))
                    if vb != 0:
                        nxt.append(("%s / %s" % (ta, tb), va / vb))
                    nxt.append(("%s - %s * %s" % (tb, ta, tb), vb - va * vb))
                    nxt.append(("(%s - %s) * %s" % (tb, ta, tb), (vb - va) * vb))
                    nxt.append(("%s - %s - %s" % (ta, tb, tb), va - vb - vb))
                    nxt.append(("%s + %s * %s - %s" % (tb, tb, ta, tb), vb + vb * va - vb))
                    if vb != 0:
                        nxt.append(("%s / %s / %s" % (ta, tb, tb), va / vb / vb))
                        nxt.append(("%s - %s / %s" % (tb, ta, tb), vb - va / vb))
            level = nxt
            allx.extend(nxt)
        return allx

    def bounded_checks(self, tier, rng):
        from pyvc import replay

        mod = replay.real_module(self.module)
        ex = self.exprs(1 if tier == "quick" else 2)
        if tier == "quick" and len(ex) > 250:
            ex = rng.sample(ex, 250)
        bad_inputs = ["mean +", "foo", "( min", "2 */ 3", ""]

        def one(text, value, history):
            for h in history:
                try:
                    if isinstance(h, (list, tuple)):
                        # an earlier evaluation of an expression on OTHER statistics (given as [text, stats])
                        mod.eval_fx(h[0], dict(h[1]))
                    else:
                        mod.eval_fx(h, dict(self.STATS))
                except Exception:  # noqa: BLE001, S110
                    pass
            try:
                got = mod.eval_fx(text, dict(self.STATS))
            except Exception as e:  # noqa: BLE001
                return "eval_fx(%r) raised %r" % (text, e)
            if abs(got - value) > 1e-9 * max(1.0, abs(value)):
                return "eval_fx(%r) = %r, arithmetic value %r (history %r)" % (text, got, value, history)
            return None

        for text, value in ex:
            hist = [rng.choice(bad_inputs), rng.choice(ex)[0]] if rng.random() < 0.5 else [rng.choice(bad_inputs)]
            yield ("expr", "grammar", {"text": text, "value": value, "history": hist}, (lambda t=text, v=value, h=hist: one(t, v, h)))
        # the expression itself, then an expression that is rejected only after part of it was pushed on the
        # module-level stack (unbalanced parentheses, trailing operator, leading ')'), then the expression again:
        # the value must not come from what the rejected parse left behind (nor from a remembered parse)
        partial = ["( max + 100", "7 * 6 )", ") 1", "2 * ( 3 + mean", "min + 2 *", "( ( std )"]
        for text, value in ex[:: max(1, len(ex) // 12)][:12] + [("mean + 2 * std", self.STATS["mean"] + 2 * self.STATS["std"]), ("max", self.STATS["max"])]:
            for bad in partial:
                for hist in ([text, bad], [text, bad, bad], [bad, text, bad]):
                    yield ("expr", "grammar", {"text": text, "value": value, "history": hist}, (lambda t=text, v=value, h=hist: one(t, v, h)))
        # the same expression evaluated before on other statistics: the same numbers under other names, the same
        # names in another order, one statistic changed - the value depends on the statistics handed over now
        S0 = self.STATS
        others = [
            OrderedDictLike([("min", S0["min"]), ("max", S0["max"]), ("std", S0["mean"]), ("mean", S0["std"])]),
            OrderedDictLike([("std", S0["std"]), ("mean", S0["mean"]), ("max", S0["max"]), ("min", S0["min"])]),
            OrderedDictLike([("min", S0["min"]), ("max", S0["max"]), ("mean", S0["mean"] + 1), ("std", S0["std"])]),
            OrderedDictLike([("max", S0["min"]), ("min", S0["max"]), ("mean", S0["mean"]), ("std", S0["std"])]),
        ]
        for text, value in (("mean + 2 * std", S0["mean"] + 2 * S0["std"]), ("( max - min ) / 2", (S0["max"] - S0["min"]) / 2), ("mean", S0["mean"]), ("min - std", S0["min"] - S0["std"])):
            for o in others:
                hist = [[text, list(o)]]
                yield ("expr", "grammar", {"text": text, "value": value, "history": hist}, (lambda t=text, v=value, h=hist: one(t, v, h)))
        # every spelling of a number that Python's float() reads (what QcVariableConfig validates tokens with):
        # bare trailing point, exponent forms, leading zeros - alone and inside each kind of expression
        S = self.STATS
        for tok, val in (("3.", 3.0), ("10.", 10.0), ("2.e1", 20.0), ("1.5e+2", 150.0), ("7E-1", 0.7), ("0.25", 0.25), ("12", 12.0), ("007", 7.0), ("1e0", 1.0), ("4.E0", 4.0)):
            for text, value in ((tok, val), ("max + %s" % tok, S["max"] + val), ("mean - %s * std" % tok, S["mean"] - val * S["std"]), ("( max - min ) / %s" % tok, (S["max"] - S["min"]) / val), ("- %s + min" % tok, -val + S["min"]), ("%s*%s" % (tok, tok), val * val)):
                yield ("expr", "grammar", {"text": text, "value": value, "history": []}, (lambda t=text, v=value: one(t, v, [])))

    def replay_bounded(self, label, values):
        from pyvc import replay

        mod = replay.real_module(self.module)
        for h in values["history"]:
            try:
                if isinstance(h, (list, tuple)):
                    mod.eval_fx(h[0], dict(h[1]))
                else:
                    mod.eval_fx(h, dict(self.STATS))
            except Exception:  # noqa: BLE001, S110
                pass
        got = mod.eval_fx(values["text"], dict(self.STATS))
        return None if abs(got - float(values["value"])) < 1e-9 else "eval_fx(%r) = %r, expected %r" % (values["text"], got, values["value"])


class CreateConfigGrid(Case):
    """bounded: QcConfigCreator.create_config on synthetic climatologies that are constant in time
    (written as netCDF3 files with the scipy engine, read back by the real code): the spans equal the
    limit expressions evaluated on min / max / mean / std of the cells inside the bounding box.  Grids,
    bounding boxes (edges on and between grid lines) and date ranges are enumerated; xarray / scipy
    interpolation is outside any contract within reach."""

    is_bounded = True
    module = "ioos_qc.config_creator.config_creator"
    function = "QcConfigCreator.create_config"
    default_props = {}
    props = {"bounded.create_config_spans": ("C20",)}

    def all_props(self):
        return {"C20"}

    LAT = [10.0, 11.0, 12.0, 13.0]
    LON = [-70.0, -69.0, -68.0, -67.0, -66.0]
    FIELDS = {
        "squares": lambda i, j: 1.0 + float(5 * i + j) ** 2,
        "ramp": lambda i, j: 0.5 * i - 1.25 * j + 3.0,
        "mixed": lambda i, j: float((-1) ** (i + j)) * (2.0 + i + 0.5 * j) + 1.0,
        # anomalies around zero: inside a box that is symmetric about the middle column the cells sum to 0
        "anomaly": lambda i, j: float(j - 2) * (1.0 + i),
    }
    EXPRS = {"suspect_min": "min", "suspect_max": "max", "fail_min": "mean - 2 * std", "fail_max": "( max + min ) / 2 + std"}

    def one(self, values):
        import logging
        import tempfile
        import warnings
        from pathlib import Path

        import numpy as np
        import pandas as pd
        import xarray as xr

        from pyvc import replay

        mod = replay.real_module(self.module)
        lat, lon = np.array(self.LAT), np.array(self.LON)
        f = self.FIELDS[values["field"]]
        cells = np.array([[f(i, j) for j in range(lon.size)] for i in range(lat.size)], dtype="float64")
        time = pd.to_datetime(["2001-%02d-15" % m for m in range(1, 13)])
        field = np.broadcast_to(cells, (time.size, lat.size, lon.size)).copy()
        ds = xr.Dataset({"t_an": (("time", "lat", "lon"), field)}, coords={"time": time, "lat": lat, "lon": lon})
        bbox = [float(b) for b in values["bbox"]]
        logging.disable(logging.CRITICAL)
        try:
            with tempfile.TemporaryDirectory() as tmp, warnings.catch_warnings():
                warnings.simplefilter("ignore")
                path = Path(tmp) / "clim.nc"
                ds.to_netcdf(path, engine="scipy")
                creator = mod.QcConfigCreator(mod.CreatorConfig({"datasets": [{"name": "clim", "file_path": str(path), "variables": {"temperature": "t_an"}}]}))
                vc = mod.QcVariableConfig({"variable": "temperature", "bbox": list(bbox), "start_time": values["start"], "end_time": values["end"], "tests": {"gross_range_test": dict(self.EXPRS)}})
                got = creator.create_config(vc)["temperature"]["qartod"]["gross_range_test"]
        except Exception as e:  # noqa: BLE001
            return "create_config raised %r" % (e,)
        finally:
            logging.disable(logging.NOTSET)
        inside = cells[np.ix_((lat >= bbox[1]) & (lat <= bbox[3]), (lon >= bbox[0]) & (lon <= bbox[2]))]
        if inside.size == 0:
            return None  # no cell inside the box: the statement does not say what the spans are
        mn, mx, mean, std = inside.min(), inside.max(), inside.mean(), inside.std()
        want = {"suspect_span": [mn, mx], "fail_span": [mean - 2 * std, (mx + mn) / 2 + std]}
        for k_, w in want.items():
            if not np.allclose(np.array(got[k_], dtype=float), w, rtol=1e-9, atol=1e-9):
                return "%s = %s, statistics of the %d cells inside the box give %s" % (k_, [float(x) for x in got[k_]], inside.size, [float(x) for x in w])
        return None

    def region_of(self, values):
        import numpy as np

        lat, lon = np.array(self.LAT), np.array(self.LON)
        f = self.FIELDS[values["field"]]
        b = [float(x) for x in values["bbox"]]
        inside = [f(i, j) for i in range(lat.size) for j in range(lon.size) if b[1] <= lat[i] <= b[3] and b[0] <= lon[j] <= b[2]]
        if inside and abs(sum(inside)) < 1e-12:
            return "cells-sum-to-zero"
        return "grid"

    def bounded_checks(self, tier, rng):
        boxes = [
            [-69.5, 10.5, -66.5, 12.5],  # every edge between grid lines
            [-69.0, 11.0, -67.0, 12.0],  # every edge on a grid line
            [-69.5, 10.5, -67.0, 12.5],  # east edge on a grid line
            [-69.0, 10.5, -66.5, 12.5],  # west edge on a grid line
            [-69.5, 11.0, -66.5, 12.5],  # south edge on a grid line
            [-69.5, 10.5, -66.5, 12.0],  # north edge on a grid line
            [-68.0, 12.0, -68.0, 12.0],  # a single cell
            [-70.0, 10.0, -66.0, 13.0],  # the whole grid
        ]
        dates = [("2021-03-01", "2021-04-01"), ("2021-06-10", "2021-06-20"), ("2021-01-01", "2021-12-31")]
        if tier == "quick":
            dates = dates[:2]
        for fld in self.FIELDS:
            for b in boxes:
                for (s0, s1) in dates:
                    v = {"field": fld, "bbox": b, "start": s0, "end": s1}
                    yield ("create_config", self.region_of(v), v, (lambda v=v: self.one(v)))

    def replay_bounded(self, label, values):
        return self.one(values)


def cases():  # noqa: F811
    cs = [EvalStack(node=n) for n in ("+", "-", "*", "/", "unary -", "mean", "min", "max", "std", "PI", "E", "number", "badident")]
    cs.append(ValidateFx())
    cs.append(EvalFx())
    cs.append(FxGrammar())
    cs.append(CreateConfigGrid())
    return cs
