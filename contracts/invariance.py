"""C17 - flags ignore value/time offsets and depend only on the local neighbourhood.
Self-composition on the real code: the function is executed twice, on a series and on its
transformed copy (x + c, -x, t + c, reversed, or changed at one symbolic position j), and the two
results are related at a Skolem index.  The transformations are exact in the real-number model,
which is the restriction the property itself imposes (exactly representable values).

Abstract statistics (np.std / np.ptp of the whole series, rolling-window statistics, the median
time step) are uninterpreted; the invariance facts of the *statistics themselves* (std(x+c) =
std(x), a window statistic depends only on the window's values, ...) are assumed and listed in
the evidence - what is proved is that the code around them preserves the invariance."""
import itertools

import z3

from pyvc import alg
from pyvc.contract import Pair
from pyvc.npmodel import Arr

from . import utils_c
from .common import F, G, H, MISS, S, U, Case, Env, pval, series_grid


def _derived(n, base, fn, kind="f", unit=None, name=None):
    a = Arr(n, kind, lambda i: fn(base.elem(i), i), unit, name or (base.name + "'"))
    a.is_input = True
    return a


def _is_np(x):
    import numpy as np

    return isinstance(x, np.ndarray)


def transform_values(e, x, tr, mk):
    """the transformed copy of series x"""
    if _is_np(x):
        import numpy as np

        y = x.copy()
        if tr == "shift":
            return y + float(e.c)
        if tr == "neg":
            return -y
        if tr == "reverse":
            return y[::-1].copy()
        if tr == "local":
            y[int(e.j)] = np.nan if e.newnan else float(e.newval)
        return y
    n = x.n
    if tr == "shift":
        c = pval(e.c)
        return _derived(n, x, lambda p, i: (p[0], alg.add(p[1], c)))
    if tr == "neg":
        return _derived(n, x, lambda p, i: (p[0], alg.neg(p[1])))
    if tr == "reverse":
        return Arr(n, "f", lambda i: x.elem(alg.sub(alg.sub(n, 1), i)), None, x.name + "_rev")
    if tr == "local":
        j = pval(e.j)
        nv, nn = pval(e.newval), e.newnan
        return _derived(n, x, lambda p, i: (alg.ite(alg.eq(i, j), nn, p[0]), alg.ite(alg.eq(i, j), nv, p[1])))
    return x


def transform_times(e, t, tr):
    if _is_np(t):
        import numpy as np

        if tr == "tshift":
            return t + np.timedelta64(int(e.ct), "ns")
        return t
    if tr == "tshift":
        c = pval(e.ct)  # nanoseconds
        return _derived(t.n, t, lambda p, i: (p[0], alg.add(p[1], c)), "M", "ns")
    return t


def _local(e, x, newval, newnan):
    if _is_np(x):
        import numpy as np

        y = x.copy()
        y[int(e.j)] = np.nan if newnan else float(newval)
        return y
    j, nv = pval(e.j), pval(newval)
    return _derived(x.n, x, lambda p, i: (alg.ite(alg.eq(i, j), newnan, p[0]), alg.ite(alg.eq(i, j), nv, p[1])))


class Inv(Case):
    """params: tr in {'shift','neg','tshift','reverse','local'} plus test-specific ones"""

    index_offsets = (0, -1, 1)
    grid_limit = 150
    props = {"post.flags_related": ("C17",)}
    default_props = {}

    def common(self, mk, e):
        tr = self.params["tr"]
        if tr == "shift":
            e.c = mk.real("c")
        if tr == "tshift":
            e.ct = mk.integer("ct")
        if tr == "local":
            e.j = mk.integer("j")
            mk.assume(alg.and_(alg.le(0, pval(e.j)), alg.lt(pval(e.j), e.n)))
            e.newval = mk.real("newval")
            e.newnan = mk.boolean("newnan")

    def neighbourhood(self, e, k):
        """positions whose flag may change when position j changes"""
        raise NotImplementedError

    def relation(self, e, res, k):
        a, b = res.a.flag(k), res.b.flag(k)
        tr = self.params["tr"]
        if tr == "reverse":
            return alg.eq(res.b.flag(alg.sub(alg.sub(e.n, 1), k)), a)
        if tr == "local":
            return alg.implies(alg.not_(self.neighbourhood(e, k)), alg.eq(a, b))
        return alg.eq(a, b)

    def hints(self, e, res, k):
        return []

    def post(self, e, res, k):
        return {"flags_related": (self.relation(e, res, k), self.hints(e, res, k))}

    def canary(self, e, res, k):
        return alg.eq(res.a.flag(k), G)

    def tvalues(self, v):
        tr = self.params["tr"]
        if tr == "shift":
            v["c"] = H * 5
        if tr == "tshift":
            v["ct"] = (86400 * 3 + 7) * 10**9 + 500000000
        return v


# ------------------------------------------------------------------ statistics facts (assumed)
def stat_equalities(res, same_window=None):
    """assumed invariance facts of the abstract statistics of the two runs: equal values for the
    whole-series statistics; equal window statistics where `same_window(k)` holds"""
    path = getattr(res, "path", None)
    hs = []
    if path is None:
        return hs
    st = [s for s in path.stats if s.name in ("std", "ptp")]
    if len(st) == 2 and hasattr(st[0].value, "val") and hasattr(st[1].value, "val"):
        hs.append(alg.and_(alg.eq(st[0].value.val, st[1].value.val), alg.iff(st[0].value.nan, st[1].value.nan)))
    return hs


def rolling_equalities(res, k, cond=True):
    path = getattr(res, "path", None)
    if path is None or not hasattr(path.ctx, "ghost"):
        return []
    g = path.ctx.ghost.get("rolling", [])
    if len(g) != 2:
        return []
    a, b = g
    kk = alg.lift(k)
    eq = alg.and_(alg.eq(a["wval"](kk), b["wval"](kk)), alg.eq(a["wcount"](kk), b["wcount"](kk)), alg.iff(a["wnan"](kk), b["wnan"](kk)))
    return [alg.implies(cond, eq)]


def reduction_hints(res, k):
    path = getattr(res, "path", None)
    hs = []
    if path is not None:
        reds = list(path.reductions)
        pos = [alg.add(r["row"], r["wit"]) for r in reds] + [k]
        for r in reds:
            for p_ in pos:
                hs.append(r["bound"](alg.sub(p_, r["row"])))
    return hs


# ------------------------------------------------------------------ tests
class InvSpike(Inv):
    module, function = "ioos_qc.qartod", "spike_test"

    def declare(self, mk):
        e = Env()
        e.n = mk.length("n")
        e.x = mk.series("x", e.n)
        e.sus, e.fail = mk.real("sus"), mk.real("fail")
        self.common(mk, e)
        return e

    def call(self, mod, e):
        m = self.params["method"]
        x2 = transform_values(e, e.x, self.params["tr"], None)
        return Pair(mod.spike_test(e.x, e.sus, e.fail, method=m), mod.spike_test(x2, e.sus, e.fail, method=m))

    def neighbourhood(self, e, k):
        j = pval(e.j)
        return alg.and_(alg.ge(k, alg.sub(j, 1)), alg.le(k, alg.add(j, 1)))

    def grid(self, tier, rng):
        for xs in series_grid(4):
            v = self.tvalues({"n": len(xs), "x": list(xs), "sus": H, "fail": 2})
            if self.params["tr"] == "local":
                for j in range(len(xs)):
                    for nv, nn in ((5, False), (0, True)):
                        yield dict(v, j=j, newval=nv, newnan=nn)
            else:
                yield v


class InvRate(Inv):
    module, function = "ioos_qc.qartod", "rate_of_change_test"

    def declare(self, mk):
        e = Env()
        e.n = mk.length("n")
        e.x = mk.series("x", e.n)
        e.t = mk.times_ns("t", e.n)
        e.thr = mk.real("thr")
        mk.assume(alg.ge(pval(e.thr), 0))
        self.common(mk, e)
        return e

    def call(self, mod, e):
        tr = self.params["tr"]
        x2 = transform_values(e, e.x, tr, None)
        t2 = transform_times(e, e.t, tr)
        return Pair(mod.rate_of_change_test(e.x, e.t, e.thr), mod.rate_of_change_test(x2, t2, e.thr))

    def neighbourhood(self, e, k):
        j = pval(e.j)
        return alg.or_(alg.eq(k, j), alg.eq(k, alg.add(j, 1)))

    def grid(self, tier, rng):
        for xs in series_grid(4):
            v = self.tvalues({"n": len(xs), "x": list(xs), "t": [0, 1500000000, 3000000000, 3600 * 10**9][: len(xs)], "thr": H})
            if self.params["tr"] == "local":
                for j in range(len(xs)):
                    for nv, nn in ((5, False), (0, True)):
                        yield dict(v, j=j, newval=nv, newnan=nn)
            else:
                yield v


class InvFlat(Inv):
    module, function = "ioos_qc.qartod", "flat_line_test"
    grid_limit = 60

    def declare(self, mk):
        e = Env()
        e.n = mk.length("n")
        e.x = mk.series("x", e.n)
        e.t = mk.times_ns("t", e.n, min_step_ns=None)
        e.D = mk.integer("D")
        mk.assume(alg.ge(pval(e.D), 1))
        n, D = e.n, pval(e.D)
        if mk.mode == "sym":
            fs = e.t.fns
            mk.fact("regular-sampling", lambda i: alg.implies(alg.and_(alg.le(0, i), alg.lt(alg.add(i, 1), n)), alg.eq(alg.sub(fs(alg.lift(alg.add(i, 1))), fs(alg.lift(i))), alg.mul(D, 10**9))))
        elif mk.mode == "conc":
            ns = e.t.ns
            mk.assume(all(b - a == D * 10**9 for a, b in zip(ns, ns[1:])))
        e.st, e.ft = mk.integer("st"), mk.integer("ft")
        e.tol = mk.real("tol")
        mk.assume(alg.ge(pval(e.st), 0))
        mk.assume(alg.ge(pval(e.ft), 0))
        self.common(mk, e)
        return e

    def call(self, mod, e):
        tr = self.params["tr"]
        x2 = transform_values(e, e.x, tr, None)
        t2 = transform_times(e, e.t, tr)
        return Pair(mod.flat_line_test(e.x, e.t, e.st, e.ft, e.tol), mod.flat_line_test(x2, t2, e.st, e.ft, e.tol))

    def neighbourhood(self, e, k):
        # the points whose trailing window (of floor(threshold/D)+1 points) contains j
        j, D = pval(e.j), alg.to_real(pval(e.D))
        cs = alg.trunc(alg.rdiv(pval(e.st), D))
        cf = alg.trunc(alg.rdiv(pval(e.ft), D))
        cmax = alg.max_(cs, cf)
        return alg.and_(alg.ge(k, j), alg.le(k, alg.add(j, cmax)))

    def hints(self, e, res, k):
        return reduction_hints(res, k)

    def grid(self, tier, rng):
        for xs in series_grid(5, alphabet=(0, H / 2, 1, None)):
            v = self.tvalues({"n": len(xs), "x": list(xs), "t": [(1000 + 60 * i) * 10**9 + 250000000 for i in range(len(xs))], "D": 60, "st": 60, "ft": 130, "tol": H})
            if self.params["tr"] == "local":
                for j in range(len(xs)):
                    yield dict(v, j=j, newval=5, newnan=False)
                    yield dict(v, j=j, newval=0, newnan=True)
            else:
                yield v


class InvAttenuated(Inv):
    module, function = "ioos_qc.qartod", "attenuated_signal_test"
    index_offsets = (0,)

    def declare(self, mk):
        e = Env()
        e.n = mk.length("n")
        e.x = mk.series("x", e.n)
        e.t = mk.times_ns("t", e.n)
        e.sus, e.fail = mk.real("sus"), mk.real("fail")
        if self.params["window"]:
            e.period = mk.integer("period")
            mk.assume(alg.ge(pval(e.period), 1))
            e.min_obs = mk.integer("min_obs")
            mk.assume(alg.ge(pval(e.min_obs), 1))
        self.common(mk, e)
        return e

    def call(self, mod, e):
        tr = self.params["tr"]
        x2 = transform_values(e, e.x, tr, None)
        t2 = transform_times(e, e.t, tr)
        kw = {"check_type": self.params["check"]}
        if self.params["window"]:
            kw.update(test_period=e.period, min_obs=e.min_obs)
        return Pair(mod.attenuated_signal_test(e.x, e.t, e.sus, e.fail, **kw), mod.attenuated_signal_test(x2, t2, e.sus, e.fail, **kw))

    def neighbourhood(self, e, k):
        # the points whose trailing window (t - period, t] contains j
        j = pval(e.j)
        p = alg.mul(pval(e.period), 10**9)
        return alg.and_(alg.ge(k, j), alg.gt(e.t.val(j), alg.sub(e.t.val(k), p)))

    def hints(self, e, res, k):
        tr = self.params["tr"]
        if self.params["window"]:
            cond = alg.not_(self.neighbourhood(e, k)) if tr == "local" else True
            return rolling_equalities(res, k, cond)
        return stat_equalities(res)

    def grid(self, tier, rng):
        for xs in series_grid(4, alphabet=(0, 1, 3, None)):
            v = self.tvalues({"n": len(xs), "x": list(xs), "t": [0, 60500000000, 120 * 10**9, 180 * 10**9][: len(xs)], "sus": 1, "fail": H, "period": 120, "min_obs": 1})
            if self.params["tr"] == "local":
                for j in range(len(xs)):
                    yield dict(v, j=j, newval=5, newnan=False)
                    yield dict(v, j=j, newval=0, newnan=True)
            else:
                yield v


class InvDensity(Inv):
    module, function = "ioos_qc.qartod", "density_inversion_test"

    def declare(self, mk):
        e = Env()
        e.n = mk.length("n")
        e.x = mk.series("x", e.n)
        e.z = mk.series("z", e.n)
        e.sus, e.fail = mk.real("sus"), mk.real("fail")
        self.common(mk, e)
        return e

    def call(self, mod, e):
        x2 = transform_values(e, e.x, self.params["tr"], None)
        return Pair(mod.density_inversion_test(e.x, e.z, e.sus, e.fail), mod.density_inversion_test(x2, e.z, e.sus, e.fail))

    def neighbourhood(self, e, k):
        j = pval(e.j)
        return alg.and_(alg.ge(k, alg.sub(j, 1)), alg.le(k, alg.add(j, 1)))

    def grid(self, tier, rng):
        for n in range(0, 4):
            for xs in itertools.product((-1, 0, 1, None), repeat=n):
                for zs in itertools.product((0, 1, None), repeat=n):
                    v = self.tvalues({"n": n, "x": list(xs), "z": list(zs), "sus": 0, "fail": -H})
                    if self.params["tr"] == "local":
                        for j in range(n):
                            yield dict(v, j=j, newval=5, newnan=False)
                    else:
                        yield v


class InvSpeed(Inv):
    """time shift; locality: the position at j changes (both coordinates)"""

    module, function = "ioos_qc.argo", "speed_test"
    index_offsets = (0, -1)

    def declare(self, mk):
        e = Env()
        e.n = mk.length("n")
        e.lon = mk.series("lon", e.n)
        e.lat = mk.series("lat", e.n)
        e.t = mk.times_ns("t", e.n)
        e.sus, e.fail = mk.real("sus"), mk.real("fail")
        self.common(mk, e)
        if self.params["tr"] == "local":
            e.newlat = mk.real("newlat")
            e.newlatnan = mk.boolean("newlatnan")
        return e

    def stubs(self, T):
        return [("ioos_qc.argo", "great_circle_distance", utils_c.gcd_stub)]

    def call(self, mod, e):
        tr = self.params["tr"]
        lon2 = transform_values(e, e.lon, tr, None)
        lat2 = e.lat
        if tr == "local":
            lat2 = _local(e, e.lat, e.newlat, e.newlatnan)
        t2 = transform_times(e, e.t, tr)
        return Pair(mod.speed_test(e.lon, e.lat, e.t, e.sus, e.fail), mod.speed_test(lon2, lat2, t2, e.sus, e.fail))

    def neighbourhood(self, e, k):
        j = pval(e.j)
        return alg.or_(alg.eq(k, j), alg.eq(k, alg.add(j, 1)))

    def grid(self, tier, rng):
        pts = [(0, 0), (10, 20), (10, 20.5), (None, 5), (None, None)]
        for n in range(0, 4):
            for ps in itertools.product(pts, repeat=n):
                v = self.tvalues({"n": n, "lon": [p[0] for p in ps], "lat": [p[1] for p in ps], "t": [0, 10500000000, 3600 * 10**9][:n], "sus": 1, "fail": 100})
                if self.params["tr"] == "local":
                    for j in range(n):
                        yield dict(v, j=j, newval=11, newnan=False, newlat=21, newlatnan=False)
                else:
                    yield v
        if self.params["tr"] == "local":
            # as for location_test: a repeated first fix and a threshold inside the fractional metre of a later hop
            import math

            from pyvc import libmodels

            lon = [10, 10, 10.01, 10.02, 10.03, 10.04, 10.09]
            lat = [20] * 7
            d = libmodels.concrete_geod(lat[4], lon[4], lat[5], lon[5])
            thr = math.floor(d) + (d - math.floor(d)) / 2
            for j in (0, 1):
                yield dict(self.tvalues({"n": 7, "lon": list(lon), "lat": list(lat), "t": [i * 10**9 for i in range(7)], "sus": thr, "fail": 10 * thr}), j=j, newval=11, newnan=False, newlat=21, newlatnan=False, keep=1)


class InvLocation(Inv):
    """locality only: bounding-box test (range_max None): the point itself; with range_max: the
    point and its successor"""

    module, function = "ioos_qc.qartod", "location_test"
    index_offsets = (0, -1)

    def declare(self, mk):
        e = Env()
        e.n = mk.length("n")
        e.lon = mk.series("lon", e.n)
        e.lat = mk.series("lat", e.n)
        e.box = tuple(mk.real(k) for k in ("minx", "miny", "maxx", "maxy"))
        if self.params["rmax"]:
            e.rmax = mk.real("rmax")
            mk.assume(alg.ge(pval(e.rmax), 0))
        self.common(mk, e)
        e.newlat = mk.real("newlat")
        e.newlatnan = mk.boolean("newlatnan")
        return e

    def stubs(self, T):
        return [("ioos_qc.qartod", "great_circle_distance", utils_c.gcd_stub)]

    def call(self, mod, e):
        lon2 = transform_values(e, e.lon, "local", None)
        lat2 = _local(e, e.lat, e.newlat, e.newlatnan)
        r = e.rmax if self.params["rmax"] else None
        return Pair(mod.location_test(e.lon, e.lat, e.box, r), mod.location_test(lon2, lat2, e.box, r))

    def neighbourhood(self, e, k):
        j = pval(e.j)
        if self.params["rmax"]:
            return alg.or_(alg.eq(k, j), alg.eq(k, alg.add(j, 1)))
        return alg.eq(k, j)

    def grid(self, tier, rng):
        pts = [(0, 0), (10, 20), (181, 0), (None, 5), (None, None)]
        for n in range(0, 4):
            for ps in itertools.product(pts, repeat=n):
                v = {"n": n, "lon": [p[0] for p in ps], "lat": [p[1] for p in ps], "minx": -180, "miny": -90, "maxx": 180, "maxy": 90}
                if self.params["rmax"]:
                    v["rmax"] = 1000
                for j in range(n):
                    yield dict(v, j=j, newval=11, newnan=False, newlat=21, newlatnan=False)
        if self.params["rmax"]:
            # a track that repeats its first fix, and a hop far down the track whose real geodesic length lies
            # within a fraction of a metre of range_max: changing observation 0 or 1 must not touch that hop
            import math

            from pyvc import libmodels

            lon = [10, 10, 10.01, 10.02, 10.03, 10.04, 10.09]
            lat = [20] * 7
            d = libmodels.concrete_geod(lat[4], lon[4], lat[5], lon[5])
            for r in (math.floor(d) + (d - math.floor(d)) / 2, float(math.floor(d))):
                for j in (0, 1):
                    yield {"n": 7, "lon": list(lon), "lat": list(lat), "minx": -180, "miny": -90, "maxx": 180, "maxy": 90, "rmax": r, "j": j, "newval": 11, "newnan": False, "newlat": 21, "newlatnan": False, "keep": 1}


class InvGross(Inv):
    """shift data and spans together; locality: the point itself"""

    module, function = "ioos_qc.qartod", "gross_range_test"
    index_offsets = (0,)

    def declare(self, mk):
        e = Env()
        e.n = mk.length("n")
        e.x = mk.series("x", e.n)
        e.f = (mk.real("f0"), mk.real("f1"))
        e.s = (mk.real("s0"), mk.real("s1"))
        self.common(mk, e)
        return e

    def call(self, mod, e):
        tr = self.params["tr"]
        x2 = transform_values(e, e.x, tr, None)
        f2, s2 = e.f, e.s
        if tr == "shift":
            f2 = tuple(v + e.c for v in e.f)
            s2 = tuple(v + e.c for v in e.s)
        return Pair(mod.gross_range_test(e.x, e.f, e.s), mod.gross_range_test(x2, f2, s2))

    def neighbourhood(self, e, k):
        return alg.eq(k, pval(e.j))

    def grid(self, tier, rng):
        for xs in series_grid(3):
            v = self.tvalues({"n": len(xs), "x": list(xs), "f0": -1, "f1": 3, "s0": 0, "s1": 1})
            if self.params["tr"] == "local":
                for j in range(len(xs)):
                    yield dict(v, j=j, newval=5, newnan=False)
            else:
                yield v
        if self.params["tr"] == "shift":
            # dyadic values a hair outside / inside the bounds, shifted far (all shifts exact in float64): a
            # comparison that forgives a relative error of the bound depends on the absolute level
            xs = [-1 / 256, 16 + 1 / 256, 4 - 1 / 512, 12 + 1 / 512, 0, 16, 4, 12, 1 / 1024, None]
            for c in (1024, -4096, 2**20, -(2**30)):
                for i in range(0, len(xs), 5):
                    part = xs[i : i + 5]
                    yield {"n": len(part), "x": part, "f0": 0, "f1": 16, "s0": 4, "s1": 12, "c": c, "keep": 1}


class InvValid(Inv):
    module, function = "ioos_qc.axds", "valid_range_test"
    index_offsets = (0,)

    def declare(self, mk):
        e = Env()
        e.n = mk.length("n")
        kind = self.params["kind"]
        if kind == "float":
            e.x = mk.series("x", e.n)
            e.lo, e.hi = mk.real("lo"), mk.real("hi")
        else:
            e.x = mk.dtseries("x", e.n)
            e.lo, e.hi = mk.dt("lo"), mk.dt("hi")
        self.common(mk, e)
        return e

    def call(self, mod, e):
        tr = self.params["tr"]
        from pyvc.values import SNum

        if self.params["kind"] == "float":
            x2 = transform_values(e, e.x, tr, None)
            lo2, hi2 = (e.lo + e.c, e.hi + e.c) if tr == "shift" else (e.lo, e.hi)
        elif _is_np(e.x):
            import numpy as np

            x2 = e.x.copy()
            c = np.timedelta64(int(e.ct), "ns") if tr == "tshift" else np.timedelta64(0, "ns")
            if tr == "local":
                x2[int(e.j)] = np.datetime64("NaT") if e.newnan else np.datetime64(int(e.newval) * 10**9, "ns")
            x2 = x2 + c
            lo2, hi2 = e.lo + c, e.hi + c
            return Pair(mod.valid_range_test(e.x, (e.lo, e.hi)), mod.valid_range_test(x2, (lo2, hi2)))
        else:
            x2 = transform_times(e, e.x, tr)
            if tr == "local":
                j = pval(e.j)
                nv, nn = alg.mul(alg.trunc(pval(e.newval)), 10**9), e.newnan
                x2 = _derived(e.n, e.x, lambda p, i: (alg.ite(alg.eq(i, j), nn, p[0]), alg.ite(alg.eq(i, j), nv, p[1])), "M", "ns")
            c = pval(e.ct) if tr == "tshift" else 0  # nanoseconds
            lo2 = SNum(alg.add(e.lo.val, c), False, "M", "ns")
            hi2 = SNum(alg.add(e.hi.val, c), False, "M", "ns")
        return Pair(mod.valid_range_test(e.x, (e.lo, e.hi)), mod.valid_range_test(x2, (lo2, hi2)))

    def neighbourhood(self, e, k):
        return alg.eq(k, pval(e.j))

    def grid(self, tier, rng):
        alpha = (-2, 0, 1, 3, None)
        for xs in series_grid(3, alphabet=alpha):
            v = self.tvalues({"n": len(xs), "x": list(xs), "lo": 0, "hi": 3})
            if self.params["tr"] == "local":
                for j in range(len(xs)):
                    yield dict(v, j=j, newval=5, newnan=False)
            else:
                yield v


class ClimatologyShiftHistory(Case):
    """bounded (climatology_test is outside the self-composition): time stamps and absolute time spans shifted
    together leave every flag unchanged - also when the shifted configuration is the SAME list / dict objects
    edited in place between the two calls (what a program that slides a window over its data does), and when the
    value spans are shifted together with the data"""

    is_bounded = True
    module = "ioos_qc.qartod"
    function = "climatology_test"
    default_props = {}
    props = {"bounded.climatology_shift_history": ("C17",)}

    def all_props(self):
        return {"C17"}

    def one(self, values):
        import copy
        import warnings

        import numpy as np
        import pandas as pd

        from pyvc import replay

        q = replay.real_module("ioos_qc.qartod")
        day = 86400
        base = pd.Timestamp("2021-03-01")
        ts = lambda d: base + pd.Timedelta(days=d)  # noqa: E731
        cfg = [{"tspan": [ts(0), ts(20)], "vspan": [10, 20], "fspan": [0, 40]}, {"tspan": [ts(10), ts(30)], "vspan": [12, 14], "zspan": [0, 5]}]
        if values["carrier"] == "tuple":
            cfg = tuple(cfg)
        times = np.array([ts(d) for d in (-1, 0, 5, 12, 25, 31)], dtype="datetime64[ns]")
        x = np.array([15.0, 15.0, 30.0, 13.0, 50.0, 15.0])
        z = np.array([1.0, 1.0, 1.0, 1.0, 9.0, 1.0])
        shift_t = pd.Timedelta(days=values["days"])
        shift_v = values["dv"]
        flags = lambda r: np.ma.filled(np.ma.masked_array(r), 255).astype(int).tolist()  # noqa: E731
        try:
            with warnings.catch_warnings():
                warnings.simplefilter("ignore")
                first = flags(q.climatology_test(cfg, x, times, z))
                if values["how"] == "in-place":
                    for m in cfg:
                        m["tspan"] = [m["tspan"][0] + shift_t, m["tspan"][1] + shift_t]
                        for k_ in ("vspan", "fspan"):
                            if k_ in m:
                                m[k_] = [m[k_][0] + shift_v, m[k_][1] + shift_v]
                    cfg2 = cfg
                else:
                    cfg2 = copy.deepcopy(cfg)
                    cfg2 = type(cfg)({**m, "tspan": [m["tspan"][0] + shift_t, m["tspan"][1] + shift_t], **{k_: [m[k_][0] + shift_v, m[k_][1] + shift_v] for k_ in ("vspan", "fspan") if k_ in m}} for m in cfg2)
                second = flags(q.climatology_test(cfg2, x + shift_v, times + shift_t.to_timedelta64(), z))
        except Exception as ex:  # noqa: BLE001
            return "%s raised %r" % (values, ex)
        if first != second:
            return "flags %s before, %s after shifting stamps and spans together (%s)" % (first, second, values)
        return None

    def bounded_checks(self, tier, rng):
        for how in ("in-place", "fresh"):
            for carrier in ("list", "tuple"):
                for days, dv in ((40, 0), (-400, 0), (0, 8), (7, 2.5)):
                    v = {"how": how, "carrier": carrier, "days": days, "dv": dv}
                    yield ("climatology-shift", "climatology-shift", v, (lambda v=v: self.one(v)))

    def replay_bounded(self, label, values):
        return self.one(values)


def cases():
    cs = []
    for m in ("average", "differential"):
        for tr in ("shift", "neg", "reverse", "local"):
            cs.append(InvSpike(method=m, tr=tr))
    for tr in ("shift", "neg", "tshift", "local"):
        cs.append(InvRate(tr=tr))
        cs.append(InvFlat(tr=tr))
    for chk in ("std", "range"):
        for tr in ("shift", "neg", "tshift"):
            cs.append(InvAttenuated(check=chk, window=False, tr=tr))
        for tr in ("shift", "neg", "tshift", "local"):
            cs.append(InvAttenuated(check=chk, window=True, tr=tr))
    for tr in ("shift", "local"):
        cs.append(InvDensity(tr=tr))
    for tr in ("tshift", "local"):
        cs.append(InvSpeed(tr=tr))
    cs.append(InvLocation(tr="local", rmax=False))
    cs.append(InvLocation(tr="local", rmax=True))
    for tr in ("shift", "local"):
        cs.append(InvGross(tr=tr))
    cs.append(InvValid(kind="float", tr="shift"))
    cs.append(InvValid(kind="float", tr="local"))
    cs.append(InvValid(kind="datetime", tr="tshift"))
    cs.append(InvValid(kind="datetime", tr="local"))
    cs.append(ClimatologyShiftHistory())
    return cs
