"""Contracts: qartod.density_inversion_test, argo.pressure_increasing_test (C13; C01/C02 clauses)."""
from pyvc import alg
from pyvc import npfuncs as NPF

from .common import F, G, H, MISS, S, U, Case, Env, basic_shape_clauses, case_of, pval, series_grid


class DensityInversion(Case):
    """params: sus, fail in {False, True}; lens in {'same','differ'}"""

    module = "ioos_qc.qartod"
    function = "density_inversion_test"
    index_offsets = (0, -1, 1)
    props = {
        "post.flag_by_pairs": ("C13",),
        "post.single_point_unknown": ("C13",),
        "raises.shape-mismatch": ("C13",),
        "post.missing_is_missing": ("C02",),
        "post.missing_only_if_needed": ("C02",),
    }

    def declare(self, mk):
        e = Env()
        e.n = mk.length("n")
        e.m = mk.length("m") if self.params["lens"] == "differ" else e.n
        e.x = mk.series("x", e.n)
        e.z = mk.series("z", e.m)
        if self.params["sus"]:
            e.sus = mk.real("sus")
        if self.params["fail"]:
            e.fail = mk.real("fail")
        return e

    def call(self, mod, e):
        return mod.density_inversion_test(
            e.x, e.z, suspect_threshold=e.sus if self.params["sus"] else None, fail_threshold=e.fail if self.params["fail"] else None
        )

    def raises(self, e):
        if self.params["lens"] == "same":
            return []
        return [(ValueError, "shape-mismatch", alg.ne(e.n, e.m))]

    def canary(self, e, res, k):
        return None if self.params["lens"] == "differ" else alg.eq(res.flag(k), G)

    def delta(self, e, k):
        """density change over the pair (k, k+1) in the direction of increasing depth"""
        dz = alg.sub(e.z.val(alg.add(k, 1)), e.z.val(k))
        dr = alg.sub(e.x.val(alg.add(k, 1)), e.x.val(k))
        return alg.ite(alg.gt(dz, 0), dr, alg.ite(alg.lt(dz, 0), alg.neg(dr), 0))

    def pair_ok(self, e, k):
        """pair (k, k+1) exists and all four values are present"""
        k1 = alg.add(k, 1)
        return alg.and_(alg.ge(k, 0), alg.lt(k1, e.n), alg.not_(e.x.nan(k)), alg.not_(e.z.nan(k)), alg.not_(e.x.nan(k1)), alg.not_(e.z.nan(k1)))

    def post(self, e, res, k):
        if self.params["lens"] == "differ":
            return {}
        n = e.n
        km = alg.sub(k, 1)
        own_missing = alg.or_(e.x.nan(k), e.z.nan(k))
        prev_missing = alg.and_(alg.ge(k, 1), alg.or_(e.x.nan(km), e.z.nan(km)))

        def hit(thr):
            return alg.or_(
                alg.and_(self.pair_ok(e, km), alg.lt(self.delta(e, km), thr)),
                alg.and_(self.pair_ok(e, k), alg.lt(self.delta(e, k), thr)),
            )

        br = [(alg.or_(own_missing, prev_missing), MISS)]
        if self.params["fail"]:
            br.append((hit(pval(e.fail)), F))
        if self.params["sus"]:
            br.append((hit(pval(e.sus)), S))
        spec = case_of(*br, default=G)
        fl = res.flag(k)
        out = {
            "flag_by_pairs": alg.implies(alg.ge(n, 2), alg.eq(fl, spec)),
            "single_point_unknown": alg.implies(alg.eq(n, 1), alg.eq(fl, U)),
            "missing_is_missing": alg.implies(e.x.nan(k), alg.or_(alg.eq(fl, MISS), alg.and_(alg.eq(n, 1), alg.eq(fl, U)))),
            "missing_only_if_needed": alg.implies(alg.and_(alg.not_(e.x.nan(k)), alg.eq(fl, MISS)), alg.or_(e.z.nan(k), prev_missing)),
        }
        out.update(basic_shape_clauses(res, k, n))
        return out

    def post_global(self, e, res):
        if self.params["lens"] == "differ":
            return {}
        return {"one_flag_per_element": alg.eq(res.n, e.n) if res.is_array else False}

    def grid(self, tier, rng):
        import itertools

        xs_alpha = (-1, 0, 1, None)
        zs_alpha = (0, 1, 2, None)
        ths = [(0, -1), (-1, 0), (H, H), (-H, -2)]
        for n in range(0, 4 if tier == "quick" else 5):
            for xs in itertools.product(xs_alpha, repeat=n):
                for zs in itertools.product(zs_alpha, repeat=n):
                    for s_, f_ in ths:
                        v = {"n": n, "x": list(xs), "z": list(zs)}
                        if self.params["lens"] == "differ":
                            v["m"] = n + 1
                            v["z"] = v["z"] + [0]
                        if self.params["sus"]:
                            v["sus"] = s_
                        if self.params["fail"]:
                            v["fail"] = f_
                        yield v
        if self.params["lens"] == "same":
            # depths that differ by millimetres / centimetres at great depth (distinct numbers: the cast direction is
            # their order, however close they are), densities stepping by whole units
            for zs in ([1000.0, 1000.005], [1000.005, 1000.0], [4000.0, 4000.03, 4000.06, 4000.09], [4000.09, 4000.06, 4000.03, 4000.0], [1.0, 1.0000000000000002, 1.0000000000000004]):
                for xs in ([1025, 1024, 1023, 1022], [1022, 1023, 1024, 1025], [1025, 1022, 1026, 1021]):
                    for s_, f_ in ths:
                        v = {"n": len(zs), "x": list(xs[: len(zs)]), "z": list(zs), "keep": 1}
                        if self.params["sus"]:
                            v["sus"] = s_
                        if self.params["fail"]:
                            v["fail"] = f_
                        yield v


class PressureIncreasing(Case):
    """requires a series without missing values (the function documents none) and a non-zero
    mean step, i.e. last != first (the profile's overall direction is undefined otherwise)"""

    module = "ioos_qc.argo"
    function = "pressure_increasing_test"
    index_offsets = (0, -1)
    props = {"post.suspect_iff_not_advancing": ("C13",)}

    def declare(self, mk):
        e = Env()
        e.n = mk.length("n", lo=2)
        e.x = mk.series("x", e.n, missing=False)
        e.mode = mk.mode
        e.dtype = mk.values.get("dtype") if mk.mode != "sym" else None
        return e

    def call(self, mod, e):
        x = e.x
        if e.mode == "real" and e.dtype:
            # the same pressures as an integer array ("a numeric numpy array"): the model's integers are
            # mathematical, so a wrap-around of the real run shows up as a conformance mismatch
            import numpy as np

            x = np.asarray(x).astype(e.dtype)
        return mod.pressure_increasing_test(x)

    def post(self, e, res, k):
        # the profile's overall direction: the sign of the mean step, i.e. of (last - first) / (n - 1);
        # stated on the inputs alone (not on whatever statistic the code happens to compute) and
        # required to be non-zero
        d = alg.sub(e.x.val(alg.sub(e.n, 1)), e.x.val(0))
        km = alg.sub(k, 1)
        step = alg.sub(e.x.val(k), e.x.val(km))
        up = alg.gt(d, 0)
        notadv = alg.and_(alg.ge(k, 1), alg.ite(up, alg.le(step, 0), alg.ge(step, 0)))
        fl = res.flag(k)
        out = {"suspect_iff_not_advancing": alg.implies(alg.ne(d, 0), alg.eq(fl, alg.ite(notadv, S, G)))}
        out.update(basic_shape_clauses(res, k, e.n))
        return out

    def post_global(self, e, res):
        return {"one_flag_per_element": alg.eq(res.n, e.n) if res.is_array else False}

    def grid(self, tier, rng):
        for xs in series_grid(4 if tier == "quick" else 5, alphabet=(-2, 0, 1, 3, 3.5), minn=2):
            yield {"n": len(xs), "x": list(xs)}
        for xs in series_grid(4 if tier == "quick" else 5, alphabet=(0, 1, 3, 100, 200), minn=2):
            yield {"n": len(xs), "x": list(xs), "dtype": "uint8"}
        for xs in series_grid(3 if tier == "quick" else 4, alphabet=(-100, -2, 0, 3, 100), minn=2):
            yield {"n": len(xs), "x": list(xs), "dtype": "int8"}


def cases():
    cs = [DensityInversion(sus=s, fail=f, lens="same") for s in (False, True) for f in (False, True)]
    cs.append(DensityInversion(sus=True, fail=True, lens="differ"))
    cs.append(PressureIncreasing())
    return cs
