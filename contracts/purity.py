"""C01, last sentence: calling a test again with the same arguments returns the same flags, and the
call depends on nothing but its arguments.

* `Twice`: self-composition - the real function is executed twice on the same symbolic arguments in
  one path exploration (fresh havoc symbols for uninitialised memory in each run); the two results
  must agree element-wise.  A dependence on np.empty memory or on state carried from the first
  call to the second would make them differ.
* `ModuleState`: static obligation from the AST of the real source - the names a test function reads
  from module scope are modules, functions, classes, immutable constants, or containers that no code
  of the package ever mutates; no `global` statement."""
import ast
import logging
import types

from pyvc import alg, front
from pyvc.contract import Pair

from . import profile, qartod_attenuated, qartod_clim, qartod_flatline, qartod_location, qartod_range, qartod_spike, rate
from .common import Case


class Twice(Case):
    default_props = {}
    props = {"post.same_flags_when_called_again": ("C01",), "frame": ("C01",)}

    def __init__(self, base):
        Case.__init__(self, **base.params)
        self.base = base
        self.module, self.function = base.module, base.function
        self.index_offsets = base.index_offsets
        self.grid_limit = 40

    @property
    def name(self):
        return self.base.name + "|twice"

    def declare(self, mk):
        return self.base.declare(mk)

    def stubs(self, T):
        return self.base.stubs(T)

    def regions(self, e, res=None, k=None):
        return {}

    def call(self, mod, e):
        a = self.base.call(mod, e)
        b = self.base.call(mod, e)
        return Pair(a, b)

    def post(self, e, res, k):
        from .invariance import reduction_hints

        f = alg.and_(alg.eq(res.a.flag(k), res.b.flag(k)), alg.iff(res.a.masked(k), res.b.masked(k)), alg.iff(res.a.flagnan(k), res.b.flagnan(k)))
        return {"same_flags_when_called_again": (f, reduction_hints(res, k))}

    def post_global(self, e, res):
        if res.a is None or not res.a.is_array:
            return {}
        return {"same_flags_when_called_again": alg.eq(res.a.n, res.b.n)}

    def canary(self, e, res, k):
        return alg.eq(res.a.flag(k), 1)

    def grid(self, tier, rng):
        return self.base.grid(tier, rng)


IMMUTABLE = (types.ModuleType, types.FunctionType, types.BuiltinFunctionType, type, int, float, str, bytes, tuple, frozenset, bool, type(None), logging.Logger)


class ModuleState(Case):
    """static: global reads of the function (and of the repo functions it calls, one level) are not
    mutable module state"""

    is_lemma = True
    default_props = {}

    def __init__(self, module, function, **kw):
        Case.__init__(self)
        self.module, self.function = module, function
        self.props = {"lemma.reads_no_mutable_module_state": ("C01",)}

    @property
    def name(self):
        return "%s.%s[static]" % (self.module.split(".")[-1], self.function)

    def _mutations_of(self, name):
        """places in the package where the module-level object `name` of self.module is mutated"""
        import glob
        import os

        hits = []
        for path in glob.glob(os.path.join(front.REPO, "ioos_qc", "**", "*.py"), recursive=True):
            tree = ast.parse(open(path).read())
            for node in ast.walk(tree):
                tgt = None
                if isinstance(node, (ast.Assign, ast.AugAssign, ast.Delete)):
                    for t in (node.targets if hasattr(node, "targets") else [node.target]):
                        if isinstance(t, ast.Subscript) and isinstance(t.value, ast.Name) and t.value.id == name:
                            tgt = t
                if isinstance(node, ast.Call) and isinstance(node.func, ast.Attribute) and isinstance(node.func.value, ast.Name) and node.func.value.id == name and node.func.attr in ("append", "extend", "insert", "pop", "remove", "clear", "sort", "reverse", "update", "setdefault", "add", "discard"):
                    tgt = node
                if tgt is not None:
                    hits.append("%s:%d" % (os.path.relpath(path, front.REPO), node.lineno))
        return hits

    def lemmas(self):
        from pyvc import replay

        mod = replay.real_module(self.module)
        reads = front.global_reads(self.module, self.function)
        bad = []
        if "__global_stmt__" in reads:
            bad.append("global statement: %s" % (reads["__global_stmt__"],))
            reads = set()
        import builtins

        for nm in sorted(reads):
            if hasattr(builtins, nm) and not hasattr(mod, nm):
                continue
            if not hasattr(mod, nm):
                continue  # a local of an enclosing scope / comprehension variable
            v = getattr(mod, nm)
            if isinstance(v, IMMUTABLE):
                continue
            muts = self._mutations_of(nm)
            if muts:
                bad.append("%s (%s) is mutated at %s" % (nm, type(v).__name__, muts))
        goal = not bad
        self.detail = "; ".join(bad)
        return [("reads_no_mutable_module_state", [], bool(goal))]


MUTATORS = ("append", "extend", "insert", "pop", "remove", "clear", "sort", "reverse", "update", "setdefault", "add", "discard", "popitem", "__setitem__", "__delitem__")


class SelfStores(Case):
    """static: the methods of a parameter class that a test reaches (transitively through self.<m>(...)
    calls, properties included) never store through `self` - no assignment to an attribute or item of
    self.<...>, no mutating container method on self.<...>, no setattr(self, ...).  "The call leaves the
    parameter objects unmodified" (C01) for the part of a parameter object that is plain Python state."""

    is_lemma = True
    default_props = {}

    def __init__(self, module, cls, entry, **kw):
        Case.__init__(self)
        self.module, self.cls, self.entry = module, cls, entry
        self.function = "%s.%s" % (cls, entry)
        self.props = {"lemma.stores_nothing_through_self": ("C01",)}

    @property
    def name(self):
        return "%s.%s.%s[self-frame]" % (self.module.split(".")[-1], self.cls, self.entry)

    @staticmethod
    def _rooted_at_self(node):
        while isinstance(node, (ast.Attribute, ast.Subscript)):
            node = node.value
        return isinstance(node, ast.Name) and node.id == "self"

    def lemmas(self):
        tree = ast.parse(open(front.repo_path(self.module)).read())
        cls = next(n for n in ast.walk(tree) if isinstance(n, ast.ClassDef) and n.name == self.cls)
        methods = {}
        for n in cls.body:
            if isinstance(n, ast.FunctionDef):
                methods.setdefault(n.name, []).append(n)
        todo, seen, bad = [self.entry], set(), []
        while todo:
            m = todo.pop()
            if m in seen or m not in methods:
                continue
            seen.add(m)
            for fn in methods[m]:
                for node in ast.walk(fn):
                    if isinstance(node, ast.Attribute) and isinstance(node.value, ast.Name) and node.value.id == "self" and node.attr in methods:
                        todo.append(node.attr)  # self.m(...) or a property read
                    tg = []
                    if isinstance(node, (ast.Assign, ast.Delete)):
                        tg = node.targets
                    elif isinstance(node, (ast.AugAssign, ast.AnnAssign)):
                        tg = [node.target]
                    for t in tg:
                        for el in ast.walk(t):
                            if isinstance(el, (ast.Attribute, ast.Subscript)) and isinstance(el.ctx, (ast.Store, ast.Del)) and self._rooted_at_self(el):
                                bad.append("%s:%d store through self" % (m, node.lineno))
                    if isinstance(node, ast.Call):
                        f = node.func
                        if isinstance(f, ast.Attribute) and f.attr in MUTATORS and self._rooted_at_self(f.value) and not (isinstance(f.value, ast.Name)):
                            bad.append("%s:%d self...%s()" % (m, node.lineno, f.attr))
                        if isinstance(f, ast.Name) and f.id in ("setattr", "delattr") and node.args and isinstance(node.args[0], ast.Name) and node.args[0].id == "self":
                            bad.append("%s:%d %s(self, ...)" % (m, node.lineno, f.id))
        self.detail = "; ".join(sorted(set(bad))) + " [methods reached: %s]" % ", ".join(sorted(seen))
        return [("stores_nothing_through_self", [], not bad)]


def cases():
    bases = []
    bases += [qartod_range.GrossRange(suspect=True, seq="tuple"), qartod_range.ValidRange(kind="float", lo=True, hi=True, si=True, ei=False)]
    bases += [qartod_location.Location(bbox="given", range_max=True, lens="same")]
    bases += [qartod_spike.Spike(method=m, sus=True, fail=True) for m in ("average", "differential")]
    bases += [rate.RateOfChange(lens="same"), rate.Speed(lens="same")]
    bases += [profile.DensityInversion(sus=True, fail=True, lens="same"), profile.PressureIncreasing()]
    bases += [qartod_flatline.FlatLine()]
    bases += [qartod_attenuated.Attenuated(check="std", window=True, minimum="obs"), qartod_attenuated.Attenuated(check="range", window=False, minimum="none")]
    cs = [Twice(b) for b in bases]
    for modname, fns in (("ioos_qc.qartod", ["gross_range_test", "location_test", "climatology_test", "ClimatologyConfig.check", "spike_test", "rate_of_change_test", "flat_line_test", "attenuated_signal_test", "density_inversion_test", "qartod_compare"]), ("ioos_qc.argo", ["pressure_increasing_test", "speed_test"]), ("ioos_qc.axds", ["valid_range_test"]), ("ioos_qc.utils", ["mapdates", "great_circle_distance", "isfixedlength", "isnan"])):
        for f in fns:
            cs.append(ModuleState(modname, f))
    cs.append(SelfStores("ioos_qc.qartod", "ClimatologyConfig", "check"))
    return cs
