"""Contract: qartod.attenuated_signal_test (C12; C01/C02 clauses).  Proof relative to the
contract of pandas' time-window rolling statistics (pyvc/pdmodel.py)."""
import math
from fractions import Fraction

from pyvc import alg
from pyvc.contract import Unlinked

from .common import F, G, H, MISS, S, U, Case, Env, basic_shape_clauses, case_of, pval, series_grid


def _same_series(arr, x, k):
    """the array the code handed to the statistic equals the normalised input at k"""
    p = arr.elem(k) if not hasattr(arr, "_data") else arr._data.elem(k)
    return alg.and_(alg.iff(p[0], x.nan(k)), alg.implies(alg.not_(x.nan(k)), alg.eq(p[1], x.val(k))))


class Attenuated(Case):
    """params: check in {'std','range','bogus'}, window in {False, True},
    minimum in {'none','obs','period'}"""

    module = "ioos_qc.qartod"
    function = "attenuated_signal_test"
    index_offsets = (0,)
    props = {
        "post.flag_by_spread": ("C12",),
        "post.statistic_arguments": ("C12",),
        "raises.unknown-check-type": ("C12",),
        "post.missing_is_missing": ("C02",),
        "post.missing_only_if_needed": ("C02",),
    }

    def declare(self, mk):
        e = Env()
        e.n = mk.length("n")
        e.x = mk.series("x", e.n)
        e.t = mk.times("t", e.n)
        e.sus = mk.real("sus")
        e.fail = mk.real("fail")
        if self.params["window"]:
            e.period = mk.integer("period")
            mk.assume(alg.ge(pval(e.period), 1))
            if self.params["minimum"] == "obs":
                e.min_obs = mk.integer("min_obs")
                mk.assume(alg.ge(pval(e.min_obs), 1))
            elif self.params["minimum"] == "period":
                e.min_period = mk.integer("min_period")
                mk.assume(alg.ge(pval(e.min_period), 0))
                mk.assume(alg.le(pval(e.min_period), 10**9))  # T3: int64 arithmetic read as mathematical
        e.mode = mk.mode
        e.param_as = mk.values.get("param_as") if mk.mode != "sym" else None
        return e

    @staticmethod
    def _param(e, v):
        """real runs of a grid entry with "param_as": the same number of seconds in the forms a configuration file
        or a calling program hands over (numpy scalars, 0-d arrays)"""
        if getattr(e, "mode", None) != "real" or not getattr(e, "param_as", None):
            return v
        import numpy as np

        return {"np0d": lambda: np.array(v), "np0d_float": lambda: np.asarray(float(v)), "npint": lambda: np.int64(v), "npfloat32": lambda: np.float32(v), "str": lambda: str(int(v)), "float": lambda: float(v)}[e.param_as]()

    def call(self, mod, e):
        kw = {"check_type": self.params["check"]}
        if self.params["window"]:
            kw["test_period"] = self._param(e, e.period)
            if self.params["minimum"] == "obs":
                kw["min_obs"] = e.min_obs
            elif self.params["minimum"] == "period":
                kw["min_period"] = e.min_period
        return mod.attenuated_signal_test(e.x, e.t, e.sus, e.fail, **kw)

    def raises(self, e):
        if self.params["check"] == "bogus":
            return [(ValueError, "unknown-check-type", True)]
        return []

    def regions(self, e, res=None, k=None):
        r = {
            "missing-in-window": self._miw(res, k),
            "empty-series-range": alg.eq(e.n, 0) if self.params["check"] == "range" and not self.params["window"] else False,
            "min-period-short-series": alg.le(e.n, 1) if self.params["minimum"] == "period" and self.params["window"] else False,
        }
        return r

    def concrete_regions(self, values):
        out = set()
        n = values.get("n", 0)
        if self.params["window"] and self.params["check"] == "range":
            x, t, p = values["x"], values["t"], values["period"]
            for k in range(n):
                if any(x[j] is None and t[k] - p < t[j] <= t[k] for j in range(n)):
                    out.add("missing-in-window")
        if self.params["check"] == "range" and not self.params["window"] and n == 0:
            out.add("empty-series-range")
        if self.params["minimum"] == "period" and self.params["window"] and n <= 1:
            out.add("min-period-short-series")
        return out

    def _miw(self, res, k):
        """a missing value lies inside the trailing window of k (windowed range mode only)"""
        if not self.params["window"] or self.params["check"] != "range" or res is None:
            return False
        path = getattr(res, "path", None)
        if path is None:
            return False
        g = path.ctx.ghost.get("rolling", []) if hasattr(path.ctx, "ghost") else []
        return g[0]["wnan"](alg.lift(k)) if g else False

    # ---------------------------------------------------------------- concrete spec helpers
    def _conc_window(self, e, k):
        n = e.n
        t = [alg.as_concrete(e.t.val(i)) if alg.is_sym(e.t.val(i)) else e.t.val(i) for i in range(n)]
        p = pval(e.period) * 10**9
        js = [j for j in range(n) if t[k] - p < t[j] <= t[k]]
        pres = [e.x.val(j) for j in js if not e.x.nan(j)]
        anymiss = any(e.x.nan(j) for j in js)
        return pres, anymiss

    def _conc_stat(self, vals, sample):
        if self.params["check"] == "range":
            return max(vals) - min(vals) if vals else None
        m = len(vals)
        if m - (1 if sample else 0) <= 0:
            return None
        mu = sum(Fraction(v) for v in vals) / m
        var = sum((Fraction(v) - mu) ** 2 for v in vals) / (m - (1 if sample else 0))
        return Fraction(math.sqrt(var))

    def post(self, e, res, k):
        n, x = e.n, e.x
        fl = res.flag(k)
        std = self.params["check"] == "std"
        args_ok = True
        path = getattr(res, "path", None)
        symbolic = path is not None
        if self.params["window"]:
            if self.params["minimum"] == "obs":
                minp = pval(e.min_obs)
            elif self.params["minimum"] == "period":
                if symbolic:
                    med = [s for s in path.stats if s.name == "median"]
                    step = alg.idiv(med[0].value.val, 10**9) if med else None
                    if step is None:
                        u = Unlinked("the run computed no median step: the clause is phrased over it")
                        return {"flag_by_spread": u}
                    # the sampling step of the statement: the median step must be a step of the axis
                    minp = alg.trunc(alg.rdiv(pval(e.min_period), alg.to_real(step)))
                else:
                    ts = [alg.as_concrete(e.t.val(i)) if alg.is_sym(e.t.val(i)) else e.t.val(i) for i in range(n)]
                    ds = sorted(b - a for a, b in zip(ts, ts[1:]))
                    if not ds:
                        return {}
                    med_ns = ds[len(ds) // 2] if len(ds) % 2 else (ds[len(ds) // 2 - 1] + ds[len(ds) // 2]) // 2
                    minp = int(Fraction(pval(e.min_period)) / (med_ns // 10**9))
            else:
                minp = 1
            if symbolic:
                g = path.ctx.ghost.get("rolling", []) if hasattr(path.ctx, "ghost") else []
                if len(g) != 1:
                    u = Unlinked("the run made %d rolling-window evaluations: the clause is phrased over exactly one" % len(g))
                    return {"flag_by_spread": u, "statistic_arguments": u}
                g = g[0]
                sigma = g["wval"](alg.lift(k))
                cnt = g["wcount"](alg.lift(k))
                anymiss = g["wnan"](alg.lift(k))
                mp_arg = 1 if g["min_periods"] is None else pval(g["min_periods"])
                args_ok = alg.and_(
                    g["stat"] == ("std" if std else "ptp"),
                    alg.eq(g["period"].val, pval(e.period)),
                    alg.not_(g["period"].nan),
                    alg.implies(alg.ge(n, 2) if self.params["minimum"] == "period" else True, alg.eq(alg.max_(mp_arg, 1), alg.max_(minp, 1))),
                    _same_series(g["values"], x, k),
                    alg.eq(g["index"].val(k), e.t.val(k)),
                )
            else:
                pres, anym = self._conc_window(e, k)
                cnt, anymiss = len(pres), anym
                sigma = self._conc_stat(pres, sample=True)
            need = alg.max_(minp, 2 if std else 1)
            undefined = alg.lt(cnt, need)
        else:
            if symbolic:
                st = [s for s in path.stats if s.name in ("std", "ptp")]
                if len(st) != 1:
                    u = Unlinked("the run computed %d spread statistics: the clause is phrased over exactly one" % len(st))
                    return {"flag_by_spread": u, "statistic_arguments": u}
                if st[0].name != ("std" if std else "ptp"):
                    return {"flag_by_spread": False, "statistic_arguments": False}
                v = st[0].value
                if isinstance(v, type(res.value)) or not hasattr(v, "val"):
                    # `masked`: no value present - every point is missing
                    sigma, undefined = 0, True
                else:
                    sigma, undefined = v.val, v.nan
                args_ok = _same_series(st[0].arg, x, k)
            else:
                pres = [x.val(j) for j in range(n) if not x.nan(j)]
                sigma = self._conc_stat(pres, sample=False)
                undefined = sigma is None
        if sigma is None:
            sigma, undefined = 0, True
        def spec_for(sg):
            return case_of(
                (x.nan(k), MISS),
                (undefined, U),
                (alg.lt(sg, pval(e.fail)), F),
                (alg.lt(sg, pval(e.sus)), S),
                default=G,
            )

        spec = spec_for(sigma)
        by_spread = alg.eq(fl, spec)
        if not symbolic and std and not alg.is_sym(sigma):
            # concrete reading against the real library: a standard deviation is computed in floating point
            # (pandas' rolling std by an online update), so a spread that is *exactly* a threshold over the
            # reals may come out one rounding step on either side of it.  Within that noise either flag is
            # the statement's flag (T3: the proof reads floats as reals; this is where the real run differs)
            d = Fraction(1, 10**9) * max(1, abs(Fraction(sigma)))
            by_spread = alg.or_(by_spread, alg.eq(fl, spec_for(Fraction(sigma) - d)), alg.eq(fl, spec_for(Fraction(sigma) + d)))
        defined_step = alg.ge(n, 2) if (self.params["window"] and self.params["minimum"] == "period") else True
        out = {
            "flag_by_spread": alg.implies(defined_step, by_spread),
            "statistic_arguments": args_ok,
            "missing_is_missing": alg.implies(x.nan(k), alg.eq(fl, MISS)),
            "missing_only_if_needed": alg.implies(alg.eq(fl, MISS), x.nan(k)),
        }
        out.update(basic_shape_clauses(res, k, n))
        return out

    def post_global(self, e, res):
        return {"one_flag_per_element": alg.eq(res.n, e.n) if res.is_array else False}

    def canary(self, e, res, k):
        return alg.eq(res.flag(k), U)

    def grid(self, tier, rng):
        steps = [[0, 60, 120, 180, 240], [0, 10, 100, 119, 120]]
        ths = [(H, H / 2), (1, 2), (3, 1), (0, 0)]
        for xs in series_grid(4 if tier == "quick" else 5, alphabet=(0, 1, 3, None)):
            for st in steps:
                for sus, fail in ths:
                    v = {"n": len(xs), "x": list(xs), "t": st[: len(xs)], "sus": sus, "fail": fail}
                    if not self.params["window"]:
                        yield v
                        continue
                    for period in (60, 120, 1000):
                        w = dict(v)
                        w["period"] = period
                        if self.params["minimum"] == "obs":
                            for mo in (1, 2, 3):
                                yield dict(w, min_obs=mo)
                        elif self.params["minimum"] == "period":
                            for mpd in (0, 60, 130):
                                yield dict(w, min_period=mpd)
                        else:
                            yield w
        if self.params["window"]:
            for pa in ("np0d", "np0d_float", "npint", "npfloat32", "float"):  # (a string of digits happens to work too, but is not a documented form)
                for sus, fail in ((H, H / 2), (3, 1)):
                    v = {"n": 5, "x": [0, 3, 1, 1, 1], "t": [0, 60, 120, 180, 240], "sus": sus, "fail": fail, "period": 120, "param_as": pa, "keep": 1}
                    if self.params["minimum"] == "obs":
                        v["min_obs"] = 2
                    elif self.params["minimum"] == "period":
                        v["min_period"] = 60
                    yield v


class AttenuatedSubsecond(Case):
    """bounded: the windowed mode on time axes that are NOT whole seconds (the deductive cases require
    whole-second stamps): the flags must follow the spread over the trailing window (t - test_period, t]
    computed on the true instants (400 ms sampling, irregular sub-second spacing, millisecond stamps)"""

    is_bounded = True
    module = "ioos_qc.qartod"
    function = "attenuated_signal_test"
    default_props = {}
    props = {"bounded.subsecond_windows": ("C12",)}

    def all_props(self):
        return {"C12"}

    AXES = {
        "400ms": [0, 400, 800, 1200, 1600, 2000, 2400],
        "irregular": [0, 350, 900, 1250, 1990, 2010, 2700],
        "burst": [0, 100, 200, 1000, 1100, 1200, 2000],
    }
    SERIES = [[1.0, 1.0, 1.0, 5.0, 5.0, 5.0, 9.0], [0.0, 3.0, 1.0, 3.0, 3.0, 0.0, 2.0], [2.0, 2.5, 2.0, 2.5, 2.0, 7.0, 7.0]]

    def one(self, values):
        import math
        import warnings

        import numpy as np

        from pyvc import replay

        q = replay.real_module(self.module)
        ms = self.AXES[values["axis"]]
        x = self.SERIES[values["series"]]
        t = np.array(ms, dtype="datetime64[ms]")
        P, sus, fail, chk = values["period"], values["sus"], values["fail"], values["check"]
        try:
            with warnings.catch_warnings():
                warnings.simplefilter("ignore")
                got = q.attenuated_signal_test(np.array(x), t, suspect_threshold=sus, fail_threshold=fail, test_period=P, check_type=chk)
        except Exception as e:  # noqa: BLE001
            return "raised %r" % (e,)
        got = np.ma.filled(np.ma.masked_array(got), 255).tolist()
        for k in range(len(x)):
            win = [x[j] for j in range(len(x)) if ms[k] - 1000 * P < ms[j] <= ms[k]]
            if chk == "std":
                if len(win) < 2:
                    ok = {2}
                else:
                    mu = sum(win) / len(win)
                    sp = math.sqrt(sum((v - mu) ** 2 for v in win) / (len(win) - 1))
                    ok = None
            else:
                sp, ok = max(win) - min(win), None
            if ok is None:
                ok = set()
                for s_ in (sp, sp - 1e-9 * max(1.0, sp), sp + 1e-9 * max(1.0, sp)):
                    ok.add(4 if s_ < fail else (3 if s_ < sus else 1))
            if got[k] not in ok:
                return "%s axis, %s, test_period=%ss: point %d has flag %d, the spread of its window %r gives %s" % (values["axis"], chk, P, k, got[k], win, sorted(ok))
        return None

    def bounded_checks(self, tier, rng):
        for axis in self.AXES:
            for si in range(len(self.SERIES)):
                for P in (0.5, 1, 1.3, 2):
                    for chk in ("std", "range"):
                        for sus, fail in ((3.0, 1.0), (1.0, 0.25)):
                            v = {"axis": axis, "series": si, "period": P, "check": chk, "sus": sus, "fail": fail}
                            yield ("subsecond", "subsecond", v, (lambda v=v: self.one(v)))

    def replay_bounded(self, label, values):
        return self.one(values)


def cases():
    cs = [AttenuatedSubsecond()]
    for chk in ("std", "range"):
        cs.append(Attenuated(check=chk, window=False, minimum="none"))
        for mn in ("none", "obs", "period"):
            cs.append(Attenuated(check=chk, window=True, minimum=mn))
    cs.append(Attenuated(check="bogus", window=False, minimum="none"))
    return cs
