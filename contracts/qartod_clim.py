"""Contracts: qartod.climatology_test with ClimatologyConfig.check (member loop cut by an
inductive invariant), ClimatologyConfig.add (C08; C01/C02 clauses).

Abstract configuration: a sequence of K members; member j has sorted spans
tspan(j), vspan(j), optional fspan(j), zspan(j), and a period kind.  The loop body is proved for
one arbitrary member j of each *shape* (period kind x zspan x fspan); the havocked state before
the iteration satisfies the invariant for j members, after it for j+1.

Specification (from the statement of C08), as a fold over the members in configuration order:
    F_0(i)     = UNKNOWN
    F_{j+1}(i) = classify_j(x[i])  if tmatch_j(i) and zmatch_j(i)   else F_j(i)
"""
import itertools

import z3

from pyvc import alg
from pyvc.loops import CutSeq, LoopCut
from pyvc.npmodel import MArr
from pyvc.pdmodel import Timestamp, period_value
from pyvc.values import SNum

from .common import F, G, H, MISS, S, U, Case, Env, basic_shape_clauses, case_of, is_flag, pval

PERIODS = (None, "week", "weekofyear", "month", "dayofyear", "quarter")

_FOLD = z3.Function("clim_fold", z3.IntSort(), z3.IntSort(), z3.IntSort())


def _mfun(name, sort=None):
    return z3.Function("mem_" + name, z3.IntSort(), z3.RealSort() if sort is None else sort)


TLO, THI = _mfun("tlo"), _mfun("thi")
TLOI, THII = _mfun("tlo_ns", z3.IntSort()), _mfun("thi_ns", z3.IntSort())
VLO, VHI, FLO, FHI, ZLO, ZHI = (_mfun(n) for n in ("vlo", "vhi", "flo", "fhi", "zlo", "zhi"))


class MemberView:
    """attribute values of one member, symbolic (functions of j) or concrete (dict)"""

    def __init__(self, shape, j=None, conc=None):
        self.period, self.hasz, self.hasf = shape
        if conc is None:
            jj = alg.lift(j)
            if self.period is None:
                self.tlo, self.thi = TLOI(jj), THII(jj)
            else:
                self.tlo, self.thi = TLO(jj), THI(jj)
            self.vlo, self.vhi, self.flo, self.fhi, self.zlo, self.zhi = VLO(jj), VHI(jj), FLO(jj), FHI(jj), ZLO(jj), ZHI(jj)
        else:
            c = conc
            self.tlo, self.thi = (c["tlo"] * 10**9, c["thi"] * 10**9) if self.period is None else (c["tlo"], c["thi"])
            self.vlo, self.vhi = c["vlo"], c["vhi"]
            self.flo, self.fhi = c.get("flo"), c.get("fhi")
            self.zlo, self.zhi = c.get("zlo"), c.get("zhi")

    def wellformed(self):
        fs = [alg.le(self.tlo, self.thi), alg.le(self.vlo, self.vhi)]
        if self.hasf:
            fs.append(alg.le(self.flo, self.fhi))
        if self.hasz:
            fs.append(alg.le(self.zlo, self.zhi))
        return alg.and_(*fs)

    def tmatch(self, e, i):
        t = e.t.val(i)
        T = t if self.period is None else period_value(self.period, t)
        return alg.and_(alg.ge(T, self.tlo), alg.le(T, self.thi))

    def zmatch(self, e, i):
        if not self.hasz:
            return True
        return alg.and_(alg.not_(e.z.nan(i)), alg.ge(e.z.val(i), self.zlo), alg.le(e.z.val(i), self.zhi))

    def match(self, e, i):
        return alg.and_(self.tmatch(e, i), self.zmatch(e, i))

    def classify(self, e, i):
        x = e.x.val(i)
        br = []
        if self.hasf:
            br.append((alg.or_(alg.lt(x, self.flo), alg.gt(x, self.fhi)), F))
        br.append((alg.or_(alg.lt(x, self.vlo), alg.gt(x, self.vhi)), S))
        return case_of(*br, default=G)

    def extract(self, ev):
        """concrete member dict from a solver model (ev evaluates terms)"""
        m = {"period": self.period, "vlo": ev(self.vlo), "vhi": ev(self.vhi)}
        if self.period is None:
            lo, hi = ev(self.tlo), ev(self.thi)
            m["tlo"], m["thi"] = -((-lo) // 10**9), hi // 10**9  # whole seconds inside the span
        else:
            m["tlo"], m["thi"] = ev(self.tlo), ev(self.thi)
        if self.hasf:
            m["flo"], m["fhi"] = ev(self.flo), ev(self.fhi)
        if self.hasz:
            m["zlo"], m["zhi"] = ev(self.zlo), ev(self.zhi)
        return m

    def build(self, mod):
        """the member object handed to the real code (ClimatologyConfig.mem of real span tuples)"""
        span, mem = mod.span, mod.ClimatologyConfig.mem
        num = lambda v: SNum(v, False, "pyf")  # noqa: E731
        if self.period is None:
            tspan = span(Timestamp(self.tlo), Timestamp(self.thi))
        else:
            tspan = span(num(self.tlo), num(self.thi))
        return mem(
            tspan,
            span(num(self.flo), num(self.fhi)) if self.hasf else None,
            span(num(self.vlo), num(self.vhi)),
            span(num(self.zlo), num(self.zhi)) if self.hasz else None,
            self.period,
        )


def _fingerprint(obj):
    fp = {}
    for k, v in vars(obj).items():
        if isinstance(v, dict):
            fp[k] = ("dict", id(v), tuple((repr(a), id(b)) for a, b in v.items()))
        elif isinstance(v, (list, set)):
            fp[k] = (type(v).__name__, id(v), tuple(id(b) for b in v))
        else:
            fp[k] = id(v)
    return fp


def shapes():
    return [(p, z, f) for p in PERIODS for z in (False, True) for f in (False, True)]


class ClimatologyCheck(Case):
    """climatology_test -> ClimatologyConfig.check for a configuration whose j-th member has the
    given shape.  params: period, hasz, hasf (shape of the arbitrary member), view in
    {'C08','C02','C01'} (which invariant parts are assumed when the state is havocked)"""

    module = "ioos_qc.qartod"
    function = "climatology_test"
    index_offsets = (0,)
    props = {
        "loop.members.establish.fold": ("C08",),
        "loop.members.preserve.fold": ("C08",),
        "post.flag_is_fold": ("C08",),
        "post.missing_is_missing": ("C02",),
        "loop.members.establish.present_not_missing": ("C02",),
        "loop.members.preserve.present_not_missing": ("C02",),
        "post.missing_only_if_needed": ("C02",),
        "loop.members.establish.alphabet": ("C01",),
        "loop.members.preserve.alphabet": ("C01",),
        "frame": ("C01",),
    }
    VIEW_PARTS = {
        "C08": ("fold", "alphabet"),
        "C02": ("present_not_missing", "alphabet"),
        "C01": ("alphabet",),
    }

    def props_of(self, short):
        ps = Case.props_of(self, short)
        return tuple(p for p in ps if p == self.params["view"])

    def all_props(self):
        return {self.params["view"]}

    @property
    def shape(self):
        return (self.params["period"], self.params["hasz"], self.params["hasf"])

    def declare(self, mk):
        e = Env()
        e.n = mk.length("n")
        e.x = mk.series("x", e.n)
        e.z = mk.series("z", e.n)
        e.t = mk.times("t", e.n, increasing=False)
        e.mode = mk.mode
        e.mk = mk
        if mk.mode == "sym":
            e.K = mk.length("K")
        else:
            e.members = mk.values["members"]
            e.K = len(e.members)
        return e

    # ---------------------------------------------------------------- invariant
    def inv(self, e, state, j, i):
        (flag,) = state.values()
        fl = flag._data.val(i) if isinstance(flag, MArr) else flag.val(i)
        miss = e.x.nan(i)
        return {
            "fold": alg.implies(alg.not_(miss), alg.eq(fl, _FOLD(alg.lift(j), alg.lift(i)))),
            "present_not_missing": alg.implies(alg.not_(miss), alg.ne(fl, MISS)),
            "alphabet": is_flag(fl),
        }

    def call(self, mod, e):
        cfg = mod.ClimatologyConfig()
        if e.mode == "sym":
            mview = lambda j: MemberView(self.shape, j)  # noqa: E731

            def select(loc):
                return {k: v for k, v in loc.items() if isinstance(v, MArr) and v.kind == "u"}

            cut = LoopCut(
                "members",
                select,
                lambda st, j, i: self.inv(e, st, j, i),
                assume_parts=self.VIEW_PARTS[self.params["view"]],
                length_of=lambda st: list(st.values())[0].n,
            )
            from pyvc.ctx import cur

            c = cur()

            def element(j):
                mv = mview(j)
                c.assume(mv.wellformed())
                # one unfolding of the specification fold at member j (definition of F_{j+1})
                c.add_fact(
                    "fold-step",
                    lambda i: alg.eq(_FOLD(alg.lift(alg.add(j, 1)), alg.lift(i)), alg.ite(mv.match(e, i), mv.classify(e, i), _FOLD(alg.lift(j), alg.lift(i)))),
                )
                e.current = mv
                if not any(d[0] == "custom" and d[1] == "members" for d in e.mk.decls):
                    e.mk.decls.append(("custom", "members", lambda ev: [mv.extract(ev)]))
                return mv.build(mod)

            c.add_fact("fold-base", lambda i: alg.eq(_FOLD(z3.IntVal(0), alg.lift(i)), U))
            cfg._members = CutSeq(e.K, element, cut)
        elif e.mode == "real" and e.mk.values.get("cfg_as") == "dicts":
            # the configuration in its documented list-of-dicts form (real run only; the model keeps the object
            # form): ClimatologyConfig.convert and the member loop are composed by the code itself
            return mod.climatology_test([self._real_dict(m) for m in e.members], e.x, e.t, e.z)
        else:
            cfg._members = [MemberView((m["period"], "zlo" in m, "flo" in m), conc=m).build(mod) if e.mode == "conc" else self._real_member(mod, m) for m in e.members]
        # frame of the parameter object: the configuration's attributes (and the containers they hold) are
        # the same objects with the same content after the call
        before = _fingerprint(cfg)
        out = mod.climatology_test(cfg, e.x, e.t, e.z)
        after = _fingerprint(cfg)
        if before != after:
            what = "ClimatologyConfig attribute(s) %s" % sorted(k for k in set(before) | set(after) if before.get(k) != after.get(k))
            if e.mode == "real":
                from pyvc.ctx import FrameViolation

                raise FrameViolation("the call modified the parameter object: " + what)
            from pyvc.ctx import cur

            cur().notes.append(("frame-write", what))
        return out

    @staticmethod
    def _real_dict(m):
        import pandas as pd

        d = {"vspan": (float(m["vlo"]), float(m["vhi"]))}
        if m["period"] is None:
            d["tspan"] = (pd.Timestamp(int(m["tlo"]) * 10**9), pd.Timestamp(int(m["thi"]) * 10**9))
        else:
            d["tspan"] = (float(m["tlo"]), float(m["thi"]))
            d["period"] = m["period"]
        if "flo" in m:
            d["fspan"] = (float(m["flo"]), float(m["fhi"]))
        if "zlo" in m:
            d["zspan"] = [float(m["zlo"]), float(m["zhi"])]
        return d

    def _real_member(self, mod, m):
        import numpy as np
        import pandas as pd

        span, mem = mod.span, mod.ClimatologyConfig.mem
        if m["period"] is None:
            tspan = span(pd.Timestamp(int(m["tlo"]) * 10**9), pd.Timestamp(int(m["thi"]) * 10**9))
        else:
            tspan = span(float(m["tlo"]), float(m["thi"]))
        return mem(
            tspan,
            span(float(m["flo"]), float(m["fhi"])) if "flo" in m else None,
            span(float(m["vlo"]), float(m["vhi"])),
            span(float(m["zlo"]), float(m["zhi"])) if "zlo" in m else None,
            m["period"],
        )

    def _conc_fold(self, e, i):
        fl = U
        for m in e.members:
            mv = MemberView((m["period"], "zlo" in m, "flo" in m), conc=m)
            if alg.as_concrete(mv.match(e, i)) if alg.is_sym(mv.match(e, i)) else mv.match(e, i):
                fl = mv.classify(e, i)
        return fl

    def post(self, e, res, k):
        fl = res.flag(k)
        miss = e.x.nan(k)
        fold = _FOLD(alg.lift(e.K), alg.lift(k)) if e.mode == "sym" else self._conc_fold(e, k)
        out = {
            "flag_is_fold": alg.implies(alg.not_(miss), alg.eq(fl, fold)),
            "missing_is_missing": alg.implies(miss, alg.eq(fl, MISS)),
            "missing_only_if_needed": alg.implies(alg.eq(fl, MISS), miss),
        }
        out.update(basic_shape_clauses(res, k, e.n))
        return out

    def post_global(self, e, res):
        return {"one_flag_per_element": alg.eq(res.n, e.n) if res.is_array else False}

    def canary(self, e, res, k):
        return alg.eq(res.flag(k), MISS)

    def grid(self, tier, rng):
        # dates around year ends and a leap day (seconds since epoch)
        days = [1577750400, 1577836800, 1582934400, 1592179200, 1609372800, 1609459200]  # 2019-12-31, 2020-01-01, 2020-02-29, 2020-06-15, 2020-12-31, 2021-01-01
        p, hz, hf = self.shape

        def member(lo, hi, hz=hz, hf=hf, period=p):
            m = {"period": period, "vlo": 0, "vhi": 1}
            if period is None:
                m["tlo"], m["thi"] = lo, hi
            elif period in ("week", "weekofyear"):
                m["tlo"], m["thi"] = (1, 9) if lo < hi else (25, 53)
            elif period == "month":
                m["tlo"], m["thi"] = (1, 2) if lo < hi else (6, 12)
            elif period == "quarter":
                m["tlo"], m["thi"] = (1, 1) if lo < hi else (2, 4)
            else:
                m["tlo"], m["thi"] = (1, 60) if lo < hi else (167, 366)
            if hz:
                m["zlo"], m["zhi"] = 0, 10
            if hf:
                m["flo"], m["fhi"] = -1, 2
            return m

        confs = [[], [member(days[1], days[3])], [member(days[1], days[3]), dict(member(days[4], days[3]), vlo=-5, vhi=-1)]]
        # members of different shapes next to each other (what one member leaves behind must not leak into the next)
        other = dict(member(days[1], days[3], hz=not hz), vlo=-5, vhi=-1)
        otherf = dict(member(days[1], days[3], hf=not hf), vlo=2, vhi=5)
        confs += [[member(days[1], days[3]), other], [other, member(days[1], days[3])], [member(days[1], days[3]), otherf], [otherf, member(days[1], days[3]), other]]
        n_max = 3 if tier == "quick" else 4
        for n in range(0, n_max + 1):
            for xs in itertools.product((-2, H, 3, None), repeat=n):
                for zs in itertools.product((5, 20, None), repeat=n):
                    ts = [days[(3 * a + b) % len(days)] for a, b in zip(range(n), range(1, n + 1))]
                    for ms in confs:
                        ms2 = []
                        for m in ms:
                            m = dict(m)
                            if m["period"] is None and m["tlo"] > m["thi"]:
                                m["tlo"], m["thi"] = m["thi"], m["tlo"]
                            ms2.append(m)
                        yield {"n": n, "x": list(xs), "z": list(zs), "t": ts, "members": ms2}
        # members of different period kinds interleaved (configuration order must be kept across kinds):
        # all three match 2020-02-29; the last one decides
        q = "month" if p is None else None
        inter = [dict(member(days[1], days[3], hz=False, hf=False), vlo=0, vhi=1), dict(member(days[1], days[3], hz=False, hf=False, period=q), vlo=-5, vhi=-1), dict(member(days[1], days[3], hz=False, hf=False), vlo=2, vhi=5)]
        for order in (inter, inter[::-1], [inter[1], inter[0], inter[1]]):
            yield {"n": 3, "x": [-2, H, 3], "z": [5, 5, 5], "t": [days[2]] * 3, "members": [dict(m_) for m_ in order], "keep": 1}
            yield {"n": 3, "x": [-2, H, 3], "z": [5, 5, 5], "t": [days[2]] * 3, "members": [dict(m_) for m_ in order], "cfg_as": "dicts", "keep": 1}
        # the list-of-dicts form with members of the case's own shape next to one of another shape
        for ms in confs[2:]:
            yield {"n": 3, "x": [-2, H, 3], "z": [5, 20, None], "t": [days[2], days[1], days[4]], "members": [dict(m_) if not (m_["period"] is None and m_["tlo"] > m_["thi"]) else dict(m_, tlo=m_["thi"], thi=m_["tlo"]) for m_ in ms], "cfg_as": "dicts", "keep": 1}
        # float32 values and depths sitting on span bounds that float32 cannot hold exactly
        import numpy as np

        f32 = lambda v: float(np.float32(v))  # noqa: E731
        mm = member(days[1], days[3])
        mm.update({"vlo": 0.1, "vhi": 20.1})
        if hf:
            mm.update({"flo": -1.7, "fhi": 30.1})
        if hz:
            mm.update({"zlo": 0.3, "zhi": 10.1})
        xs = [f32(20.1), f32(0.1), f32(30.1), f32(-1.7), 5.0]
        zs = [5.0, 5.0, f32(10.1), f32(0.3), f32(10.1)]
        tt = [days[2]] * 5 if p is None else [days[1] + 86400 * 20] * 5
        yield {"n": 5, "x": xs, "z": zs, "t": tt, "members": [mm], "dtype": "float32", "dtype_z": "float32", "keep": 1}


def cases():
    cs = []
    for view in ("C08", "C02", "C01"):
        for (p, z, f) in shapes():
            cs.append(ClimatologyCheck(period=p, hasz=z, hasf=f, view=view))
    return cs


class ClimAdd(Case):
    """ClimatologyConfig.add / convert: the stored member has sorted spans; unknown period names
    are rejected; earlier members stay in place and the new one goes last.  params: period, hasz, hasf, via in {'add','convert','append'}"""

    module = "ioos_qc.qartod"
    function = "ClimatologyConfig.add"
    props = {"post.member_has_sorted_spans": ("C08",), "raises.unknown-period": ("C08",), "no-raise": ("C08",)}

    def declare(self, mk):
        e = Env()
        e.mode = mk.mode
        p = self.params["period"]
        if p is None:
            e.t0, e.t1 = mk.dt("t0"), mk.dt("t1")
        else:
            e.t0, e.t1 = mk.real("t0"), mk.real("t1")
        e.v0, e.v1 = mk.real("v0"), mk.real("v1")
        if self.params["hasf"]:
            e.f0, e.f1 = mk.real("f0"), mk.real("f1")
        if self.params["hasz"]:
            e.z0, e.z1 = mk.real("z0"), mk.real("z1")
        return e

    def call(self, mod, e):
        kw = {"tspan": (e.t0, e.t1), "vspan": [e.v0, e.v1], "period": self.params["period"]}
        if self.params["hasf"]:
            kw["fspan"] = (e.f0, e.f1)
        if self.params["hasz"]:
            kw["zspan"] = [e.z0, e.z1]
        if self.params["via"] == "add":
            cfg = mod.ClimatologyConfig()
            cfg.add(**kw)
        elif self.params["via"] == "append":
            # add on a configuration that already holds members: they stay, the new one goes last
            self._old = [mod.ClimatologyConfig.mem(mod.span(1, 2), None, mod.span(3, 4), None, "month"), mod.ClimatologyConfig.mem(mod.span(5, 6), None, mod.span(7, 8), mod.span(0, 1), "week")]
            cfg = mod.ClimatologyConfig(list(self._old))
            cfg.add(**kw)
        else:
            cfg = mod.ClimatologyConfig.convert([kw])
        return cfg

    def raises(self, e):
        if self.params["period"] == "bogus":
            return [(ValueError, "unknown-period", True)]
        return []

    def canary(self, e, res, k):
        return None

    def post_global(self, e, res):
        cfg = res.value
        ms = cfg.members
        if self.params["via"] == "append":
            if len(ms) != 3 or tuple(ms[0]) != tuple(self._old[0]) or tuple(ms[1]) != tuple(self._old[1]):
                return {"member_has_sorted_spans": False}
            ms = ms[2:]
        if len(ms) != 1:
            return {"member_has_sorted_spans": False}
        m = ms[0]

        def tv(x):
            if hasattr(x, "ns"):
                return x.ns
            if hasattr(x, "value") and not hasattr(x, "val"):
                return int(x.value)  # real pandas Timestamp
            return pval(x)

        def same(sp, a, b, conv=pval):
            return alg.and_(alg.eq(conv(sp.minv), alg.min_(conv(a), conv(b))), alg.eq(conv(sp.maxv), alg.max_(conv(a), conv(b))))

        def tconv(x):
            if self.params["period"] is None:
                if isinstance(x, SNum):
                    return x.val
                if hasattr(x, "ns"):
                    return x.ns
                import numpy as np
                import pandas as pd

                return int(pd.Timestamp(x).value)
            return pval(x) if not isinstance(x, float) else alg.conc(x)

        fs = [same(m.tspan, e.t0, e.t1, tconv), same(m.vspan, e.v0, e.v1, _num)]
        fs.append(same(m.fspan, e.f0, e.f1, _num) if self.params["hasf"] else m.fspan is None)
        fs.append(same(m.zspan, e.z0, e.z1, _num) if self.params["hasz"] else m.zspan is None)
        fs.append(m.period == self.params["period"])
        return {"member_has_sorted_spans": alg.and_(*fs)}

    def grid(self, tier, rng):
        for t0, t1 in ((1, 5), (5, 1), (3, 3)):
            for v0, v1 in ((0, 1), (1, 0)):
                yield {"t0": t0, "t1": t1, "v0": v0, "v1": v1, "f0": 2, "f1": -2, "z0": 10, "z1": 0}


class ClimConvert(Case):
    """ClimatologyConfig.convert on a list of member dicts: one stored member per dict, in the order of the list,
    each with its own sorted spans and period; an object that already is a ClimatologyConfig comes back as it is.
    The list has a concrete length (0, 2 or 3 dicts: the loop of convert runs natively, exhaustive for that length,
    bounded in the length), the contents are symbolic.  params: shapes = tuple of (period, hasz, hasf) per dict"""

    module = "ioos_qc.qartod"
    function = "ClimatologyConfig.convert"
    props = {"post.members_follow_the_list_in_order": ("C08",), "post.config_object_passes_through": ("C08",), "no-raise": ("C08",)}

    def declare(self, mk):
        e = Env()
        e.mode = mk.mode
        for k, (p, hasz, hasf) in enumerate(self.params["shapes"]):
            if p is None:
                setattr(e, "t0_%d" % k, mk.dt("t0_%d" % k))
                setattr(e, "t1_%d" % k, mk.dt("t1_%d" % k))
            else:
                setattr(e, "t0_%d" % k, mk.real("t0_%d" % k))
                setattr(e, "t1_%d" % k, mk.real("t1_%d" % k))
            for nm, on in (("v", True), ("f", hasf), ("z", hasz)):
                if on:
                    setattr(e, "%s0_%d" % (nm, k), mk.real("%s0_%d" % (nm, k)))
                    setattr(e, "%s1_%d" % (nm, k), mk.real("%s1_%d" % (nm, k)))
        return e

    def _dicts(self, e):
        out = []
        for k, (p, hasz, hasf) in enumerate(self.params["shapes"]):
            g = lambda nm, k=k: getattr(e, "%s_%d" % (nm, k))  # noqa: E731
            kw = {"tspan": (g("t0"), g("t1")), "vspan": [g("v0"), g("v1")], "period": p}
            if hasf:
                kw["fspan"] = (g("f0"), g("f1"))
            if hasz:
                kw["zspan"] = [g("z0"), g("z1")]
            out.append(kw)
        return out

    def call(self, mod, e):
        cfg = mod.ClimatologyConfig.convert(self._dicts(e))
        again = mod.ClimatologyConfig.convert(cfg)
        return (cfg, again)

    def raises(self, e):
        return []

    def canary(self, e, res, k):
        return None

    def post_global(self, e, res):
        cfg, again = res.value
        ms = cfg.members
        shapes = self.params["shapes"]
        if len(ms) != len(shapes):
            return {"members_follow_the_list_in_order": False, "config_object_passes_through": again is cfg}

        def same(sp, a, b, conv):
            return alg.and_(alg.eq(conv(sp.minv), alg.min_(conv(a), conv(b))), alg.eq(conv(sp.maxv), alg.max_(conv(a), conv(b))))

        fs = []
        for k, (p, hasz, hasf) in enumerate(shapes):
            m = ms[k]
            g = lambda nm, k=k: getattr(e, "%s_%d" % (nm, k))  # noqa: E731
            if m.period != p:
                fs.append(False)
                continue
            tconv = _tconv if p is None else _num
            if (m.fspan is None) == hasf or (m.zspan is None) == hasz:
                fs.append(False)
                continue
            fs.append(same(m.tspan, g("t0"), g("t1"), tconv))
            fs.append(same(m.vspan, g("v0"), g("v1"), _num))
            if hasf:
                fs.append(same(m.fspan, g("f0"), g("f1"), _num))
            if hasz:
                fs.append(same(m.zspan, g("z0"), g("z1"), _num))
        return {"members_follow_the_list_in_order": alg.and_(*fs) if fs else True, "config_object_passes_through": again is cfg}

    def grid(self, tier, rng):
        n = len(self.params["shapes"])
        for rot in range(3):
            d = {}
            for k in range(n):
                a, b = ((1, 5), (5, 1), (3, 3))[(k + rot) % 3]
                d.update({"t0_%d" % k: a, "t1_%d" % k: b, "v0_%d" % k: k, "v1_%d" % k: -k - rot, "f0_%d" % k: 2 + k, "f1_%d" % k: -2, "z0_%d" % k: 10 * (k + 1), "z1_%d" % k: 0})
            yield d


def _tconv(x):
    """instant of an absolute span bound as integer nanoseconds (model datetime, SNum or a real pandas Timestamp)"""
    if isinstance(x, SNum):
        return x.val
    if hasattr(x, "ns"):
        return x.ns
    import pandas as pd

    return int(pd.Timestamp(x).value)


class ClimAddSpellings(Case):
    """bounded: absolute time spans given in the spellings pandas.Timestamp accepts (ISO strings with and
    without zero padding, month names, US style, date / datetime / datetime64 / Timestamp objects, mixed), in
    both orders: the stored member's span runs from the earlier to the later instant, and climatology_test
    with that member flags the observations inside the window"""

    is_bounded = True
    module = "ioos_qc.qartod"
    function = "ClimatologyConfig.add"
    default_props = {}
    props = {"bounded.absolute_span_spellings": ("C08",)}

    def all_props(self):
        return {"C08"}

    PAIRS = [((2021, 9, 1), (2021, 10, 1)), ((2021, 1, 5), (2021, 1, 20)), ((1999, 12, 31), (2000, 1, 2)), ((2021, 2, 10), (2021, 11, 9))]
    STYLES = ("iso", "iso-unpadded", "month-name", "us", "date", "datetime64", "timestamp", "mixed")

    @staticmethod
    def _spell(style, ymd, second=False):
        import datetime

        import numpy as np
        import pandas as pd

        y, m, d = ymd
        if style == "mixed":
            style = "timestamp" if second else "iso-unpadded"
        if style == "iso":
            return "%04d-%02d-%02d" % (y, m, d)
        if style == "iso-unpadded":
            return "%d-%d-%d" % (y, m, d)
        if style == "month-name":
            return "%s %d %d" % (["Jan", "Feb", "Mar", "Apr", "May", "Jun", "Jul", "Aug", "Sep", "Oct", "Nov", "Dec"][m - 1], d, y)
        if style == "us":
            return "%d/%d/%d" % (m, d, y)
        if style == "date":
            return datetime.datetime(y, m, d)
        if style == "datetime64":
            return np.datetime64("%04d-%02d-%02d" % (y, m, d))
        return pd.Timestamp(year=y, month=m, day=d)

    def one(self, values):
        import warnings

        import numpy as np
        import pandas as pd

        from pyvc import replay

        q = replay.real_module("ioos_qc.qartod")
        a, b = tuple(values["a"]), tuple(values["b"])
        lo, hi = (a, b) if a <= b else (b, a)
        tlo, thi = pd.Timestamp(year=lo[0], month=lo[1], day=lo[2]), pd.Timestamp(year=hi[0], month=hi[1], day=hi[2])
        sa, sb = self._spell(values["style"], a), self._spell(values["style"], b, second=True)
        try:
            with warnings.catch_warnings():
                warnings.simplefilter("ignore")
                cfg = q.ClimatologyConfig()
                cfg.add(tspan=(sa, sb) if values["seq"] == "tuple" else [sa, sb], vspan=(10, 20))
                m = cfg.members[0]
                if pd.Timestamp(m.tspan.minv) != tlo or pd.Timestamp(m.tspan.maxv) != thi:
                    return "tspan=(%r, %r): stored span is (%s, %s), the instants are (%s, %s)" % (sa, sb, m.tspan.minv, m.tspan.maxv, tlo, thi)
                mid = tlo + (thi - tlo) / 2
                times = np.array([tlo - pd.Timedelta(days=1), tlo, mid, thi, thi + pd.Timedelta(days=1)], dtype="datetime64[ns]")
                fl = q.climatology_test(cfg, np.array([15.0, 15.0, 30.0, 15.0, 15.0]), times, np.zeros(5))
                got = np.ma.filled(np.ma.masked_array(fl), 255).astype(int).tolist()
                if got != [2, 1, 3, 1, 2]:
                    return "tspan=(%r, %r): climatology_test flags %s, the window rule gives [2, 1, 3, 1, 2]" % (sa, sb, got)
        except Exception as ex:  # noqa: BLE001
            return "tspan=(%r, %r): raised %r" % (sa, sb, ex)
        return None

    # open-ended sentinels: bounds that lie outside what datetime64[ns] can hold (before 1677, after 2262)
    FAR = [
        ("2000-01-01", "9999-12-31", ["1999-12-31", "2000-01-01", "2100-01-01", "2262-01-01"], [15.0, 15.0, 30.0, 15.0], [2, 1, 3, 1]),
        ("1000-01-01", "3000-01-01", ["1700-01-01", "2000-01-01", "2262-01-01"], [15.0, 30.0, 15.0], [1, 3, 1]),
        ("1000-01-01", "2000-01-01", ["1700-01-01", "2000-01-01", "2000-01-02"], [15.0, 30.0, 15.0], [1, 3, 2]),
    ]

    def one_far(self, values):
        import datetime
        import warnings

        import numpy as np
        import pandas as pd

        from pyvc import replay

        q = replay.real_module("ioos_qc.qartod")
        lo, hi, times, xs, want = self.FAR[values["far"]]
        conv = {"iso": lambda s_: s_, "timestamp": pd.Timestamp, "date": lambda s_: datetime.datetime(*[int(p_) for p_ in s_.split("-")]), "datetime64": np.datetime64}[values["style"]]
        a, b = (conv(lo), conv(hi)) if values["order"] == "sorted" else (conv(hi), conv(lo))
        try:
            with warnings.catch_warnings():
                warnings.simplefilter("ignore")
                if values["layout"] == "object":
                    cfg = q.ClimatologyConfig()
                    cfg.add(tspan=(a, b), vspan=(10, 20))
                else:
                    cfg = [{"tspan": [a, b], "vspan": [10, 20]}]
                fl = q.climatology_test(cfg, np.array(xs), np.array(times, dtype="datetime64[ns]"), np.zeros(len(xs)))
                got = np.ma.filled(np.ma.masked_array(fl), 255).astype(int).tolist()
        except Exception as ex:  # noqa: BLE001
            return "tspan=(%r, %r): raised %r" % (a, b, ex)
        if got != want:
            return "tspan=(%r, %r), observations at %s: flags %s, the window rule gives %s" % (a, b, times, got, want)
        return None

    def bounded_checks(self, tier, rng):
        for a, b in self.PAIRS:
            for x, y in ((a, b), (b, a)):
                for style in self.STYLES:
                    for seq in ("tuple", "list"):
                        v = {"a": list(x), "b": list(y), "style": style, "seq": seq}
                        yield ("spelling", "spelling", v, (lambda v=v: self.one(v)))
        for k in range(len(self.FAR)):
            for style in ("iso", "timestamp", "date", "datetime64"):
                for order in ("sorted", "reversed"):
                    for layout in ("object", "list"):
                        v = {"far": k, "style": style, "order": order, "layout": layout}
                        yield ("spelling", "spelling", v, (lambda v=v: self.one_far(v)))

    def replay_bounded(self, label, values):
        return self.one_far(values) if "far" in values else self.one(values)


def _num(x):
    if isinstance(x, float):
        return alg.conc(x)
    return pval(x)


def add_cases():
    cs = []
    for p in (None, "week", "month", "dayofyear", "quarter"):
        for z in (False, True):
            for f in (False, True):
                cs.append(ClimAdd(period=p, hasz=z, hasf=f, via="add"))
    cs.append(ClimAdd(period="month", hasz=True, hasf=True, via="convert"))
    cs.append(ClimAdd(period=None, hasz=False, hasf=False, via="convert"))
    cs.append(ClimAdd(period="bogus", hasz=False, hasf=False, via="add"))
    cs.append(ClimAdd(period="dayofyear", hasz=True, hasf=False, via="append"))
    cs.append(ClimAdd(period=None, hasz=False, hasf=True, via="append"))
    cs.append(ClimConvert(shapes=()))
    cs.append(ClimConvert(shapes=(("month", True, True), (None, False, False))))
    cs.append(ClimConvert(shapes=((None, False, True), ("week", True, False))))
    cs.append(ClimConvert(shapes=(("month", False, False), ("month", True, False), ("dayofyear", False, True))))
    cs.append(ClimConvert(shapes=((None, False, False), (None, False, False), (None, True, False))))
    cs.append(ClimAddSpellings())
    return cs
