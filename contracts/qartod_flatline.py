"""Contract: qartod.flat_line_test with its closures rolling_window / run_test (C11; C01/C02)."""
from pyvc import alg
from pyvc.specs import WindowRange

from .common import F, G, H, MISS, S, U, Case, Env, basic_shape_clauses, case_of, pval, series_grid


class FlatLine(Case):
    module = "ioos_qc.qartod"
    function = "flat_line_test"
    index_offsets = (0, -1, 1)
    grid_limit = 150
    props = {
        "post.flag_by_window_range": ("C11",),
        "post.short_series_never_flagged": ("C11",),
        "post.missing_is_missing": ("C02",),
        "post.missing_only_if_needed": ("C02",),
    }

    def declare(self, mk):
        e = Env()
        e.n = mk.length("n")
        e.x = mk.series("x", e.n)
        e.t = mk.times("t", e.n, increasing=False)
        e.D = mk.integer("D")
        mk.assume(alg.ge(pval(e.D), 1))
        n, D = e.n, pval(e.D)
        if mk.mode == "sym":
            fs = e.t.fsec
            mk.fact("regular-sampling", lambda i: alg.implies(alg.and_(alg.le(0, i), alg.lt(alg.add(i, 1), n)), alg.eq(alg.sub(fs(alg.lift(alg.add(i, 1))), fs(alg.lift(i))), D)))
        elif mk.mode == "conc":
            secs = e.t.secs
            mk.assume(all(b - a == D for a, b in zip(secs, secs[1:])))
        e.st = mk.integer("st")
        e.ft = mk.integer("ft")
        e.tol = mk.real("tol")
        mk.assume(alg.ge(pval(e.st), 0))
        mk.assume(alg.ge(pval(e.ft), 0))
        return e

    def call(self, mod, e):
        return mod.flat_line_test(e.x, e.t, e.st, e.ft, e.tol)

    def regions(self, e, res=None, k=None):
        return {"fewer-than-three-points": alg.lt(e.n, 3)}

    def post(self, e, res, k):
        n, x, D = e.n, e.x, pval(e.D)
        fl = res.flag(k)
        hints = []

        def flagged(thr, tag):
            cnt = alg.trunc(alg.rdiv(pval(thr), alg.to_real(D)))  # floor(threshold / D), threshold >= 0
            w = WindowRange(x, alg.sub(k, cnt), k, tag)
            hints.extend(w.axioms)
            self._windows.append(w)
            return alg.and_(alg.ge(k, cnt), w.nonempty, alg.lt(w.range, pval(e.tol)))

        self._windows = []
        sus, fail = flagged(e.st, "s"), flagged(e.ft, "f")
        spec = case_of((x.nan(k), MISS), (fail, F), (sus, S), default=G)
        # cross instantiation: every reduction's bound at every witness position
        path = getattr(res, "path", None)
        if path is not None and alg.is_sym(fl):
            reds = list(path.reductions)
            pos = []
            for r in reds:
                pos.append(alg.add(r["row"], r["wit"]))
            for w in self._windows:
                pos.extend(w.witnesses)
            pos.append(k)
            for r in reds:
                for p_ in pos:
                    hints.append(r["bound"](alg.sub(p_, r["row"])))
            for w in self._windows:
                for p_ in pos:
                    hints.append(w.univ(p_))
        out = {
            "flag_by_window_range": (alg.implies(alg.ge(n, 3), alg.eq(fl, spec)), hints),
            "short_series_never_flagged": alg.implies(alg.lt(n, 3), alg.and_(alg.ne(fl, S), alg.ne(fl, F))),
            "missing_is_missing": alg.implies(x.nan(k), alg.eq(fl, MISS)),
            "missing_only_if_needed": alg.implies(alg.eq(fl, MISS), x.nan(k)),
        }
        out.update(basic_shape_clauses(res, k, n))
        return out

    def post_global(self, e, res):
        return {"one_flag_per_element": alg.eq(res.n, e.n) if res.is_array else False}

    def grid(self, tier, rng):
        durs = [(0, 0), (60, 120), (120, 60), (90, 200), (30, 1000), (240, 180)]
        for xs in series_grid(5 if tier == "quick" else 6, alphabet=(0, H / 2, 1, None)):
            for D in (60, 100):
                for st, ft in durs:
                    for tol in (0, H / 2, H, 2):
                        yield {"n": len(xs), "x": list(xs), "t": [1000 + D * i for i in range(len(xs))], "D": D, "st": st, "ft": ft, "tol": tol}
        # decimal readings whose window range is an exact float64 difference (values within a factor of two of each
        # other), next to a tolerance the range falls just short of, and a stuck reading with a tolerance far below
        # its resolution: "range strictly below the tolerance" is decided by max - min, not by min + tolerance
        for xs, tol in (
            ([2.0, 2.3, 2.0, 2.3, 2.0, 2.3, 2.0, 2.3], 0.3),
            ([2.0, 2.3, None, 2.3, 2.0, 2.3, 2.0, 2.3], 0.3),
            ([1013.25] * 8, 1e-14),
            ([1013.25, 1013.25, 1013.5, 1013.25, 1013.25, 1013.25, 1013.25, 1013.25], 1e-14),
            ([1e16, 1e16 + 2, 1e16, 1e16 + 2, 1e16, 1e16 + 2], 2.5),
            ([1e16, 1e16 + 2, 1e16, 1e16 + 2, 1e16, 1e16 + 2], 1.5),
        ):
            for st, ft in ((120, 240), (60, 120), (240, 120)):
                yield {"n": len(xs), "x": list(xs), "t": [1000 + 60 * i for i in range(len(xs))], "D": 60, "st": st, "ft": ft, "tol": tol, "keep": 1}
        # infinite readings are invalid numbers like NaN: flagged MISSING and ignored by the windows around them
        for xs in ([1, 1, 1, 1, 1, "inf", 1, 1, 1, 1, 1, 1], [1, 1, 1, "-inf", 1, 1, 1, 1], ["inf", 1, 1, 1, 1, "-inf"], [1, 1, None, 1, "inf", 1, 1, 1]):
            for st, ft in ((120, 240), (60, 120)):
                yield {"n": len(xs), "x": list(xs), "t": [1000 + 60 * i for i in range(len(xs))], "D": 60, "st": st, "ft": ft, "tol": H, "keep": 1}
        # thresholds of a day and more on coarsely sampled series (a threshold is a number of seconds, however large)
        for D, st, ft in ((21600, 86400, 172800), (3600, 90000, 180000), (43200, 86400, 86400 * 3)):
            for xs in ([1] * 12, [1, 1, 1, 1, 2, 1, 1, 1, 1, 1, 1, 1], [1, 2] * 6):
                yield {"n": len(xs), "x": list(xs), "t": [1000 + D * i for i in range(len(xs))], "D": D, "st": st, "ft": ft, "tol": H, "keep": 1}
        # thresholds that are exact multiples of a sampling step whose reciprocal is not a float64 (49 s, 103 s,
        # 850 s, 3060 s ...): k = threshold / step is an exact quotient, so a plateau of exactly k points is not yet
        # flat - a window length obtained by any route that rounds (threshold * (1 / step)) comes out one short
        for D in (49, 103, 850, 3060):
            for m in (1, 2, 3, 4, 7):
                for xs in ([1, 2] * 2 + [1] * m + [2] * m + [1] * (m + 1) + [2] * (2 * m) + [1] * (2 * m + 1), [3] * (m + 1) + [4] * m + [3] * (2 * m + 2)):
                    yield {"n": len(xs), "x": list(xs), "t": [1000 + D * i for i in range(len(xs))], "D": D, "st": m * D, "ft": 2 * m * D, "tol": H, "keep": 1}


def cases():
    return [FlatLine()]
