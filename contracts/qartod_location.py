"""Contract: qartod.location_test (C14; C01/C02 clauses over the same code)."""
import itertools

from pyvc import alg
from pyvc.npmodel import Arr, MArr

from . import utils_c
from .common import F, G, MISS, S, Case, Env, basic_shape_clauses, case_of, pval


def _normalised(a, n):
    return MArr(a, Arr(n, "b", lambda i: (False, a.nan(i))))


class Location(Case):
    """params: bbox in {'default','given','short','nonseq'}, range_max in {False, True},
    lens in {'same','differ'}"""

    module = "ioos_qc.qartod"
    function = "location_test"
    index_offsets = (0, -1)
    props = {
        "post.flag_by_box_and_hop": ("C14",),
        "raises.shape-mismatch": ("C14",),
        "raises.bad-bbox": ("C14",),
        "post.missing_is_missing": ("C02",),
        "post.missing_only_if_needed": ("C02",),
    }

    def declare(self, mk):
        e = Env()
        e.n = mk.length("n")
        e.m = mk.length("m") if self.params["lens"] == "differ" else e.n
        e.lon = mk.series("lon", e.n)
        e.lat = mk.series("lat", e.m)
        if self.params["bbox"] == "given":
            e.box = tuple(mk.real(k) for k in ("minx", "miny", "maxx", "maxy"))
        if self.params["range_max"]:
            e.rmax = mk.real("rmax")
            mk.assume(alg.ge(pval(e.rmax), 0))  # a maximum distance is non-negative
        return e

    def stubs(self, T):
        return [("ioos_qc.qartod", "great_circle_distance", utils_c.gcd_stub)]

    def callee_cases(self):
        return [utils_c.Gcd()]

    def call(self, mod, e):
        kw = {}
        b = self.params["bbox"]
        if b == "given":
            kw["bbox"] = e.box
        elif b == "short":
            kw["bbox"] = (-180, -90, 180)
        elif b == "nonseq":
            kw["bbox"] = 5
        if self.params["range_max"]:
            kw["range_max"] = e.rmax
        return mod.location_test(e.lon, e.lat, **kw)

    def raises(self, e):
        b = self.params["bbox"]
        if b == "short":
            return [(ValueError, "bad-bbox", True)]
        if b == "nonseq":
            return [(TypeError, "bad-bbox", True)]
        if self.params["lens"] == "same":
            return []
        return [(ValueError, "shape-mismatch", alg.ne(e.n, e.m))]

    def _box(self, e):
        if self.params["bbox"] == "given":
            return tuple(pval(v) for v in e.box)
        return (-180, -90, 180, 90)

    def spec(self, e, k):
        minx, miny, maxx, maxy = self._box(e)
        lonm, latm = e.lon.nan(k), e.lat.nan(k)
        lon, lat = e.lon.val(k), e.lat.val(k)
        outside = alg.or_(
            alg.and_(alg.not_(lonm), alg.or_(alg.lt(lon, minx), alg.gt(lon, maxx))),
            alg.and_(alg.not_(latm), alg.or_(alg.lt(lat, miny), alg.gt(lat, maxy))),
        )
        br = [(alg.or_(alg.xor(lonm, latm), outside), F), (alg.and_(lonm, latm), MISS)]
        if self.params["range_max"]:
            la, lo = _normalised(e.lat, e.n), _normalised(e.lon, e.n)
            m, nan, d = utils_c.gcd_elem(la, lo, k)
            hop = alg.and_(alg.gt(e.n, 1), alg.ge(k, 1), alg.not_(m), alg.not_(nan), alg.gt(d, pval(e.rmax)))
            br.append((hop, S))
        return case_of(*br, default=G)

    def post(self, e, res, k):
        lonm, latm = e.lon.nan(k), e.lat.nan(k)
        both = alg.and_(lonm, latm)
        d = {
            "flag_by_box_and_hop": alg.eq(res.flag(k), self.spec(e, k)),
            # C02: position tests - "missing" is both coordinates missing
            "missing_is_missing": alg.implies(both, alg.eq(res.flag(k), MISS)),
            "missing_only_if_needed": alg.implies(alg.eq(res.flag(k), MISS), both),
        }
        d.update(basic_shape_clauses(res, k, e.n))
        return d

    def post_global(self, e, res):
        return {"one_flag_per_element": alg.eq(res.n, e.n) if res.is_array else False}

    def grid(self, tier, rng):
        pts = [(0, 0), (10, 20), (-180, 90), (181, 0), (0, -91), (None, 5), (5, None), (None, None), (10, 20.5)]
        boxes = [(-180, -90, 180, 90), (0, 0, 10, 20), (5, 5, -5, -5)]
        rmaxs = [0, 1000, 3000000] if self.params["range_max"] else [None]
        for n in range(0, 4 if tier == "quick" else 5):
            for ps in itertools.product(pts, repeat=n):
                for b in boxes if self.params["bbox"] == "given" else [None]:
                    for r in rmaxs:
                        v = {"n": n, "lon": [p[0] for p in ps], "lat": [p[1] for p in ps]}
                        if self.params["lens"] == "differ":
                            v["m"] = n + 1
                            v["lat"] = v["lat"] + [0]
                        if b:
                            v.update(dict(zip(("minx", "miny", "maxx", "maxy"), b)))
                        if r is not None:
                            v["rmax"] = r
                        yield v
        if self.params["bbox"] == "given" and self.params["lens"] == "same":
            # float32 coordinates one rounding step outside box limits that float32 cannot hold exactly
            import numpy as np

            f32 = lambda v_: float(np.float32(v_))  # noqa: E731
            for lons, lats in (([f32(-60.3), -65.0, f32(-70.1)], [42.0, f32(40.1), 44.0]), ([-65.0, f32(-60.3)], [f32(45.3), 42.0])):
                v = {"n": len(lons), "lon": lons, "lat": lats, "minx": -70.1, "miny": 40.1, "maxx": -60.3, "maxy": 45.3, "dtype_lon": "float32", "dtype_lat": "float32", "keep": 1}
                if self.params["range_max"]:
                    v["rmax"] = 3000000
                yield v
        if self.params["range_max"] and self.params["lens"] == "same":
            # range_max exactly at, and one float below, the real geodesic length of a hop (the distance is
            # uninterpreted in the proof; these inputs make the boundary of the hop clause replayable)
            import math

            from pyvc import libmodels

            tracks = [[(0, 0), (10, 20)], [(0, 80), (0, 81)], [(10, 20), (10, 20.5), (0, 0)], [(0, 0), (1, 0), (1, 1)], [(-179, 10), (179, 10)], [(0, 88), (90, 88), (0, 80)]]
            for tr in tracks:
                for h in range(1, len(tr)):
                    d = libmodels.concrete_geod(tr[h - 1][1], tr[h - 1][0], tr[h][1], tr[h][0])
                    for r in (d, math.nextafter(d, 0.0), math.nextafter(d, math.inf)):
                        v = {"n": len(tr), "lon": [p[0] for p in tr], "lat": [p[1] for p in tr], "rmax": r, "keep": 1}
                        if self.params["bbox"] == "given":
                            v.update(dict(zip(("minx", "miny", "maxx", "maxy"), (-180, -90, 180, 90))))
                        yield v


class LocationShapes(Case):
    """bounded: "longitude and latitude arrays of different shapes are rejected" for multi-dimensional
    input (the deductive cases speak about 1-D series): shape pairs with equal and different element
    counts on the real function; equal shapes are accepted and give the flags of the flattened call
    in the input's shape"""

    is_bounded = True
    module = "ioos_qc.qartod"
    function = "location_test"
    default_props = {}
    props = {"bounded.shape_mismatch_rejected": ("C14",)}

    def all_props(self):
        return {"C14"}

    PAIRS = [((2, 3), (3, 2)), ((1, 3), (3,)), ((3, 1), (1, 3)), ((2, 2), (4,)), ((6,), (2, 3)), ((2, 3), (2, 2)), ((3,), (4,)), ((2, 3), (2, 3)), ((1, 4), (1, 4)), ((4,), (4,)), ((2, 1, 2), (2, 1, 2)), ((2, 1, 2), (2, 2, 1))]

    def one(self, values):
        import numpy as np

        from pyvc import replay

        mod = replay.real_module(self.module)
        sl, sa = tuple(values["lon_shape"]), tuple(values["lat_shape"])
        nl, na = int(np.prod(sl)), int(np.prod(sa))
        lon = np.array([(-170.0 + 37.0 * i) if i != 2 else np.nan for i in range(nl)]).reshape(sl)
        lat = np.array([(-80.0 + 41.0 * i) % 170 - 85 for i in range(na)]).reshape(sa)
        kw = {"range_max": values["rmax"]} if values.get("rmax") is not None else {}
        if values.get("bbox"):
            kw["bbox"] = tuple(values["bbox"])
        # memory layout of the N-D inputs (same logical cells): Fortran order, a transposed view, or lon and
        # lat laid out differently - every cell is judged by its own coordinates, hops follow row-major order
        lay = values.get("layout", "C")
        if lay in ("F", "mixed"):
            lon = np.asfortranarray(lon)
        if lay == "F":
            lat = np.asfortranarray(lat)
        if lay == "T":
            lon, lat = np.ascontiguousarray(lon.T).T, np.ascontiguousarray(lat.T).T
        try:
            out = mod.location_test(lon, lat, **kw)
        except ValueError:
            return None if sl != sa else "equal shapes %s rejected with ValueError" % (sl,)
        except Exception as e:  # noqa: BLE001
            return "shapes %s / %s: %r" % (sl, sa, e)
        if sl != sa:
            return "lon %s and lat %s have different shapes but were accepted (flags of shape %s)" % (sl, sa, getattr(out, "shape", None))
        flat = mod.location_test(np.array(lon.tolist()).ravel(), np.array(lat.tolist()).ravel(), **kw)
        if out.shape != sl or np.ma.filled(np.ma.masked_array(out), 255).ravel().tolist() != np.ma.filled(np.ma.masked_array(flat), 255).tolist():
            return "shape %s: flags %s differ from the flattened call %s" % (sl, np.asarray(out).tolist(), np.asarray(flat).tolist())
        return None

    def bounded_checks(self, tier, rng):
        for sl, sa in self.PAIRS:
            for rmax in (None, 3000000):
                v = {"lon_shape": list(sl), "lat_shape": list(sa), "rmax": rmax}
                yield ("shapes", "shapes", v, (lambda v=v: self.one(v)))
        for sh in ((2, 3), (4, 3), (3, 2), (2, 2, 3)):
            for lay in ("F", "T", "mixed"):
                for rmax in (None, 3000000):
                    for bbox in (None, (-100, -60, 100, 60)):
                        v = {"lon_shape": list(sh), "lat_shape": list(sh), "rmax": rmax, "layout": lay, "bbox": list(bbox) if bbox else None}
                        yield ("shapes", "shapes", v, (lambda v=v: self.one(v)))

    def replay_bounded(self, label, values):
        return self.one(values)


def cases():
    cs = [LocationShapes()]
    for b in ("default", "given"):
        for r in (False, True):
            cs.append(Location(bbox=b, range_max=r, lens="same"))
    cs.append(Location(bbox="given", range_max=True, lens="differ"))
    cs.append(Location(bbox="short", range_max=False, lens="same"))
    cs.append(Location(bbox="nonseq", range_max=False, lens="same"))
    return cs
