"""Contracts: qartod.gross_range_test, axds.valid_range_test (property C03 and the C01/C02
clauses over the same code)."""
from pyvc import alg

from .common import F, G, H, MISS, S, Case, Env, basic_shape_clauses, case_of, minmax, pval, series_grid


def _as_dtype(e, x):
    """real runs of a grid entry with "dtype": the same numbers as an array of that (narrow) type - the
    model's numbers are exact reals, so a comparison carried out in the narrow type shows up as a
    conformance mismatch that the real run's contract evaluation turns into a violation"""
    if getattr(e, "mode", None) == "real" and getattr(e, "dtype", None):
        import numpy as np

        return np.asarray(x).astype(e.dtype)
    return x


def _f32(v):
    import numpy as np

    return float(np.float32(v))


class GrossRange(Case):
    module = "ioos_qc.qartod"
    function = "gross_range_test"
    index_offsets = (0,)
    props = {"post.flag_by_interval": ("C03",), "raises.suspect-outside-fail": ("C03",)}

    def declare(self, mk):
        e = Env()
        e.n = mk.length("n")
        e.x = mk.series("x", e.n)
        e.f0, e.f1 = mk.real("f0"), mk.real("f1")
        if self.params["suspect"]:
            e.s0, e.s1 = mk.real("s0"), mk.real("s1")
        e.mode = mk.mode
        e.dtype = mk.values.get("dtype") if mk.mode != "sym" else None
        return e

    def call(self, mod, e):
        seq = list if self.params.get("seq") == "list" else tuple
        sus = seq((e.s0, e.s1)) if self.params["suspect"] else None
        return mod.gross_range_test(_as_dtype(e, e.x), seq((e.f0, e.f1)), sus)

    def _spans(self, e):
        flo, fhi = minmax(pval(e.f0), pval(e.f1))
        if self.params["suspect"]:
            slo, shi = minmax(pval(e.s0), pval(e.s1))
        else:
            slo = shi = None
        return flo, fhi, slo, shi

    def raises(self, e):
        if not self.params["suspect"]:
            return []
        flo, fhi, slo, shi = self._spans(e)
        return [(ValueError, "suspect-outside-fail", alg.or_(alg.lt(slo, flo), alg.gt(shi, fhi)))]

    def spec(self, e, k):
        flo, fhi, slo, shi = self._spans(e)
        x, miss = e.x.val(k), e.x.nan(k)
        br = [(miss, MISS), (alg.or_(alg.lt(x, flo), alg.gt(x, fhi)), F)]
        if self.params["suspect"]:
            br.append((alg.or_(alg.lt(x, slo), alg.gt(x, shi)), S))
        return case_of(*br, default=G)

    def post(self, e, res, k):
        d = {"flag_by_interval": alg.eq(res.flag(k), self.spec(e, k))}
        d.update(basic_shape_clauses(res, k, e.n))
        return d

    def post_global(self, e, res):
        return {"one_flag_per_element": alg.eq(res.n, e.n) if res.is_array else False}

    def grid(self, tier, rng):
        fs = [(0, 1), (1, 0), (0, 0), (-2, 3)]
        ss = [(0, 1), (H, H), (1, H), (-3, 0), (0, 2)] if self.params["suspect"] else [None]
        for xs in series_grid(3 if tier == "quick" else 4):
            for f in fs:
                for s_ in ss:
                    v = {"n": len(xs), "x": list(xs), "f0": f[0], "f1": f[1]}
                    if s_:
                        v["s0"], v["s1"] = s_
                    yield v
        # float32 data next to bounds that float32 cannot hold exactly (0.1, 0.7, ...)
        for xs in ([_f32(0.1), _f32(0.7), _f32(0.4)], [_f32(0.2), _f32(0.6)], [_f32(0.1)], [_f32(0.05), _f32(0.75), None]):
            v = {"n": len(xs), "x": list(xs), "f0": 0.1, "f1": 0.7, "dtype": "float32", "keep": 1}
            if self.params["suspect"]:
                v["s0"], v["s1"] = 0.2, 0.6
            yield v
        # decimal (non-dyadic) float64 bounds with data exactly on a bound and one ulp either side, and spans so
        # wide that max - min or min + max leave the float range: the test is a pure comparison, so the exact
        # reading of the statement is also what float64 must give - any arithmetic on the bounds shows here
        import math

        for (f0, f1), (s0, s1) in (((0.1, 0.3), (0.15, 0.25)), ((0.0, 45.3), (5.3, 30.1)), ((-2.0, 35.1), (0.1, 30.7)), ((10, 50), (20, 40)), ((-1e308, 1e308), (-1.0, 1.0)), ((1e-320, 1e308), (1.0, 2.0))):
            pts = []
            for b in (f0, f1, s0, s1):
                b = float(b)
                pts += [b, math.nextafter(b, math.inf), math.nextafter(b, -math.inf)]
            pts += [1.5e308, -1.5e308, 0.0]
            for i in range(0, len(pts), 5):
                xs = pts[i : i + 5]
                for a, b in ((f0, f1), (f1, f0)):
                    v = {"n": len(xs), "x": list(xs), "f0": a, "f1": b, "keep": 1}
                    if self.params["suspect"]:
                        v["s0"], v["s1"] = s0, s1
                    yield v


def cases():
    return [GrossRange(suspect=s, seq=q) for s in (False, True) for q in ("tuple", "list")]


class ValidRange(Case):
    """axds.valid_range_test.  params: kind in {'float','datetime','int'}, lo, hi in {False, True}
    (bound given / None), si, ei: start_inclusive / end_inclusive"""

    module = "ioos_qc.axds"
    function = "valid_range_test"
    index_offsets = (0,)
    props = {
        "post.flag_by_membership": ("C03",),
        "no-raise": ("C01", "C03"),
        "post.missing_is_missing": ("C02",),
        "post.missing_only_if_needed": ("C02",),
    }

    def declare(self, mk):
        e = Env()
        e.n = mk.length("n")
        e.mode = mk.mode
        e.dtype = mk.values.get("dtype") if mk.mode != "sym" else None
        k = self.params["kind"]
        if k == "float":
            e.x = mk.series("x", e.n)
            e.lo = mk.real("lo") if self.params["lo"] else None
            e.hi = mk.real("hi") if self.params["hi"] else None
        elif k == "int":
            e.x = mk.intseries("x", e.n)
            # integer data, but the bounds of the span are any real numbers (the statement quantifies over all spans)
            e.lo = mk.real("lo") if self.params["lo"] else None
            e.hi = mk.real("hi") if self.params["hi"] else None
        else:
            e.x = mk.dtseries("x", e.n)
            e.lo = mk.dt("lo") if self.params["lo"] else None
            e.hi = mk.dt("hi") if self.params["hi"] else None
        return e

    def call(self, mod, e):
        return mod.valid_range_test(_as_dtype(e, e.x), (e.lo, e.hi), start_inclusive=self.params["si"], end_inclusive=self.params["ei"])

    def post(self, e, res, k):
        x, miss = e.x.val(k), e.x.nan(k)
        bad = []
        if self.params["lo"]:
            lo = pval(e.lo)
            bad.append(alg.lt(x, lo) if self.params["si"] else alg.le(x, lo))
        if self.params["hi"]:
            hi = pval(e.hi)
            bad.append(alg.gt(x, hi) if self.params["ei"] else alg.ge(x, hi))
        spec = case_of((miss, MISS), (alg.or_(*bad) if bad else False, F), default=G)
        fl = res.flag(k)
        d = {
            "flag_by_membership": alg.eq(fl, spec),
            "missing_is_missing": alg.implies(miss, alg.eq(fl, MISS)),
            "missing_only_if_needed": alg.implies(alg.eq(fl, MISS), miss),
        }
        d.update(basic_shape_clauses(res, k, e.n))
        return d

    def post_global(self, e, res):
        return {"one_flag_per_element": alg.eq(res.n, e.n) if res.is_array else False}

    def canary(self, e, res, k):
        # integer data without bounds: every flag IS GOOD, so the default false clause would be true
        if self.params["kind"] == "int" and not (self.params["lo"] or self.params["hi"]):
            return alg.eq(res.flag(k), F)
        return alg.eq(res.flag(k), G)

    def grid(self, tier, rng):
        k = self.params["kind"]
        alpha = (-2, -H, 0, 1, 3, None) if k == "float" else ((-2, 0, 1, 3) if k == "int" else (-2, 0, 1, 3, None))
        bounds = [(0, 1), (1, 0), (0, 0), (-2, 3), (1, 3)]
        if k == "int":
            bounds += [(H, 3), (0, 1 + H), (-H, H)]
        for xs in series_grid(3 if tier == "quick" else 4, alphabet=alpha):
            for lo, hi in bounds:
                v = {"n": len(xs), "x": list(xs)}
                if self.params["lo"]:
                    v["lo"] = lo
                if self.params["hi"]:
                    v["hi"] = hi
                yield v
        if k == "float":
            # unsigned / narrow integer data with bounds that the type cannot hold (fractions, negatives)
            for dt in ("uint8", "uint16", "int8"):
                for lo, hi in ((2.5, 9.5), (-1, 10), (0, 2.5), (-3.5, 300.5)):
                    v = {"n": 5, "x": [1, 2, 3, 9, 10], "dtype": dt, "keep": 1}
                    if self.params["lo"]:
                        v["lo"] = lo
                    if self.params["hi"]:
                        v["hi"] = hi
                    yield v
            for xs in ([_f32(0.1), _f32(0.7), _f32(0.4)], [_f32(0.1)], [_f32(0.7), None]):
                v = {"n": len(xs), "x": list(xs), "dtype": "float32", "keep": 1}
                if self.params["lo"]:
                    v["lo"] = 0.1
                if self.params["hi"]:
                    v["hi"] = 0.7
                yield v


def cases():  # noqa: F811
    cs = [GrossRange(suspect=s, seq=q) for s in (False, True) for q in ("tuple", "list")]
    for kind in ("float", "datetime", "int"):
        for lo in (True, False):
            for hi in (True, False):
                for si in (True, False):
                    for ei in (True, False):
                        if (not lo and not si) or (not hi and ei):
                            continue  # inclusivity of an absent bound is immaterial: one setting suffices
                        cs.append(ValidRange(kind=kind, lo=lo, hi=hi, si=si, ei=ei))
    return cs
