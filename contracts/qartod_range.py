"""Contracts: qartod.gross_range_test, axds.valid_range_test (property C03 and the C01/C02
clauses over the same code)."""
from pyvc import alg

from .common import F, G, H, MISS, S, Case, Env, basic_shape_clauses, case_of, minmax, pval, series_grid


class GrossRange(Case):
    module = "ioos_qc.qartod"
    function = "gross_range_test"
    index_offsets = (0,)
    props = {"post.flag_by_interval": ("C03",), "raises.suspect-outside-fail": ("C03",)}

    def declare(self, mk):
        e = Env()
        e.n = mk.length("n")
        e.x = mk.series("x", e.n)
        e.f0, e.f1 = mk.real("f0"), mk.real("f1")
        if self.params["suspect"]:
            e.s0, e.s1 = mk.real("s0"), mk.real("s1")
        return e

    def call(self, mod, e):
        seq = list if self.params.get("seq") == "list" else tuple
        sus = seq((e.s0, e.s1)) if self.params["suspect"] else None
        return mod.gross_range_test(e.x, seq((e.f0, e.f1)), sus)

    def _spans(self, e):
        flo, fhi = minmax(pval(e.f0), pval(e.f1))
        if self.params["suspect"]:
            slo, shi = minmax(pval(e.s0), pval(e.s1))
        else:
            slo = shi = None
        return flo, fhi, slo, shi

    def raises(self, e):
        if not self.params["suspect"]:
            return []
        flo, fhi, slo, shi = self._spans(e)
        return [(ValueError, "suspect-outside-fail", alg.or_(alg.lt(slo, flo), alg.gt(shi, fhi)))]

    def spec(self, e, k):
        flo, fhi, slo, shi = self._spans(e)
        x, miss = e.x.val(k), e.x.nan(k)
        br = [(miss, MISS), (alg.or_(alg.lt(x, flo), alg.gt(x, fhi)), F)]
        if self.params["suspect"]:
            br.append((alg.or_(alg.lt(x, slo), alg.gt(x, shi)), S))
        return case_of(*br, default=G)

    def post(self, e, res, k):
        d = {"flag_by_interval": alg.eq(res.flag(k), self.spec(e, k))}
        d.update(basic_shape_clauses(res, k, e.n))
        return d

    def post_global(self, e, res):
        return {"one_flag_per_element": alg.eq(res.n, e.n) if res.is_array else False}

    def grid(self, tier, rng):
        fs = [(0, 1), (1, 0), (0, 0), (-2, 3)]
        ss = [(0, 1), (H, H), (1, H), (-3, 0), (0, 2)] if self.params["suspect"] else [None]
        for xs in series_grid(3 if tier == "quick" else 4):
            for f in fs:
                for s_ in ss:
                    v = {"n": len(xs), "x": list(xs), "f0": f[0], "f1": f[1]}
                    if s_:
                        v["s0"], v["s1"] = s_
                    yield v


def cases():
    return [GrossRange(suspect=s, seq=q) for s in (False, True) for q in ("tuple", "list")]
