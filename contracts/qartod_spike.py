"""Contract: qartod.spike_test (C09; C01/C02 clauses)."""
from pyvc import alg

from .common import F, G, H, MISS, S, U, Case, Env, basic_shape_clauses, case_of, pval, series_grid


class Spike(Case):
    """params: method in {'average','differential','bogus'}, sus, fail in {False, True}"""

    module = "ioos_qc.qartod"
    function = "spike_test"
    index_offsets = (0, -1, 1)
    props = {
        "post.interior_by_neighbours": ("C09",),
        "post.present_endpoint_unknown": ("C09",),
        "raises.unknown-method": ("C09",),
        "post.missing_is_missing": ("C02",),
        "post.missing_only_if_needed": ("C02",),
    }

    def declare(self, mk):
        e = Env()
        e.n = mk.length("n")
        e.x = mk.series("x", e.n)
        if self.params["sus"]:
            e.sus = mk.real("sus")
        if self.params["fail"]:
            e.fail = mk.real("fail")
        return e

    def call(self, mod, e):
        return mod.spike_test(
            e.x,
            suspect_threshold=e.sus if self.params["sus"] else None,
            fail_threshold=e.fail if self.params["fail"] else None,
            method=self.params["method"],
        )

    def raises(self, e):
        if self.params["method"] == "bogus":
            return [(ValueError, "unknown-method", True)]
        return []

    def regions(self, e, res=None, k=None):
        r = {"empty-series": alg.eq(e.n, 0)}
        z = []
        if self.params["sus"]:
            z.append(alg.eq(pval(e.sus), 0))
        if self.params["fail"]:
            z.append(alg.eq(pval(e.fail), 0))
        r["zero-threshold"] = alg.or_(*z) if z else False
        return r

    def magnitude(self, e, k):
        a, b, c = e.x.val(alg.sub(k, 1)), e.x.val(k), e.x.val(alg.add(k, 1))
        if self.params["method"] == "average":
            return alg.abs_(alg.sub(b, alg.rdiv(alg.add(a, c), 2)))
        s1, s2 = alg.sub(b, a), alg.sub(c, b)
        opposite = alg.or_(alg.and_(alg.lt(s1, 0), alg.gt(s2, 0)), alg.and_(alg.gt(s1, 0), alg.lt(s2, 0)))
        return alg.ite(opposite, alg.min_(alg.abs_(s1), alg.abs_(s2)), 0)

    def post(self, e, res, k):
        n = e.n
        x = e.x
        endpoint = alg.or_(alg.eq(k, 0), alg.eq(k, alg.sub(n, 1)))
        km, kp = alg.sub(k, 1), alg.add(k, 1)
        tri = alg.and_(alg.not_(endpoint), alg.not_(x.nan(km)), alg.not_(x.nan(k)), alg.not_(x.nan(kp)))
        d = self.magnitude(e, k)
        br = []
        if self.params["fail"]:
            br.append((alg.gt(d, pval(e.fail)), F))
        if self.params["sus"]:
            br.append((alg.gt(d, pval(e.sus)), S))
        spec = case_of(*br, default=G)
        fl = res.flag(k)
        neighbour_missing = alg.and_(alg.not_(endpoint), alg.or_(x.nan(km), x.nan(kp)))
        out = {
            "interior_by_neighbours": alg.implies(tri, alg.eq(fl, spec)),
            "present_endpoint_unknown": alg.implies(alg.and_(endpoint, alg.not_(x.nan(k))), alg.eq(fl, U)),
            # C02
            "missing_is_missing": alg.implies(x.nan(k), alg.or_(alg.eq(fl, MISS), alg.and_(endpoint, alg.eq(fl, U)))),
            "missing_only_if_needed": alg.implies(alg.and_(alg.not_(x.nan(k)), alg.eq(fl, MISS)), neighbour_missing),
        }
        out.update(basic_shape_clauses(res, k, n))
        return out

    def post_global(self, e, res):
        return {"one_flag_per_element": alg.eq(res.n, e.n) if res.is_array else False}

    def canary(self, e, res, k):
        return alg.eq(res.flag(k), U)

    def grid(self, tier, rng):
        ths = [(H, 1), (1, H), (2, 2), (0, 1), (1, 0), (3, 5)]
        for xs in series_grid(4 if tier == "quick" else 5):
            for s_, f_ in ths:
                v = {"n": len(xs), "x": list(xs)}
                if self.params["sus"]:
                    v["sus"] = s_
                if self.params["fail"]:
                    v["fail"] = f_
                yield v
        # float32 data of mixed magnitude: the spike magnitudes are not representable in float32
        big = float(2**24 + 2)
        for xs in ([1.0, big, 1.0, 3.0], [big, 1.0, big, big], [3.0, 1.0, big, 1.0, 3.0]):
            for s_, f_ in ((16777216, 16777216.5), (16777215.5, 16777217), (8388608, 16777216.25)):
                v = {"n": len(xs), "x": list(xs), "dtype": "float32", "keep": 1}
                if self.params["sus"]:
                    v["sus"] = s_
                if self.params["fail"]:
                    v["fail"] = f_
                yield v
        # neighbours of very large magnitude and opposite sign: their mean is small and representable, but a
        # rearranged reference (difference of the neighbours first) leaves the float range
        for xs in ([1e308, 0.0, -1e308], [-1e308, 5.0, 1e308, 0.0], [0.0, 1e308, 0.0, -1e308, 0.0]):
            for s_, f_ in ((1, 2), (2, 1), (4, 1e300)):
                v = {"n": len(xs), "x": list(xs), "keep": 1}
                if self.params["sus"]:
                    v["sus"] = s_
                if self.params["fail"]:
                    v["fail"] = f_
                yield v


def cases():
    cs = [Spike(method=m, sus=s, fail=f) for m in ("average", "differential") for s in (False, True) for f in (False, True)]
    cs.append(Spike(method="bogus", sus=True, fail=True))
    return cs
