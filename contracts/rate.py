"""Contracts: qartod.rate_of_change_test, argo.speed_test (C10; C01/C02 clauses)."""
import itertools

from pyvc import alg
from pyvc.npmodel import Arr, MArr

from . import utils_c
from .common import F, G, H, MISS, S, U, Case, Env, basic_shape_clauses, case_of, pval, series_grid


def elapsed(t, k):
    """whole seconds between t[k-1] and t[k] (datetime64[ns] axis)"""
    return alg.sub(alg.idiv(alg.sub(t.val(k), t.val(alg.sub(k, 1))), 10**9), 0)


def _as_time(e, t):
    """real runs of a grid entry with "tcarrier": the same instants as epoch seconds in that carrier (C10
    quantifies over time axes "given as datetimes or epoch seconds")"""
    tc = getattr(e, "tcarrier", None)
    if getattr(e, "mode", None) != "real" or not tc:
        return t
    import numpy as np

    secs = np.asarray(t).astype("datetime64[s]").astype(np.int64)
    if tc == "list":
        return [int(v) for v in secs]
    if tc == "float":
        return secs.astype(np.float64)
    return secs.astype(tc)


class RateOfChange(Case):
    """params: lens in {'same','differ'}"""

    module = "ioos_qc.qartod"
    function = "rate_of_change_test"
    index_offsets = (0, -1)
    props = {
        "post.flag_by_rate": ("C10",),
        "raises.length-mismatch": ("C10",),
        "post.missing_is_missing": ("C02",),
        "post.missing_only_if_needed": ("C02",),
    }

    def declare(self, mk):
        e = Env()
        e.n = mk.length("n")
        e.m = mk.length("m") if self.params["lens"] == "differ" else e.n
        e.x = mk.series("x", e.n)
        # order='any': stamps in any order, repeated stamps included (only the C02 clauses are claimed there:
        # C10 quantifies over strictly increasing axes, C02 over every series)
        e.t = mk.times("t", e.m, increasing=self.params.get("order") != "any")
        e.thr = mk.real("thr")
        mk.assume(alg.ge(pval(e.thr), 0))  # a threshold on an absolute rate is non-negative
        e.mode = mk.mode
        e.tcarrier = mk.values.get("tcarrier") if mk.mode != "sym" else None
        return e

    def call(self, mod, e):
        return mod.rate_of_change_test(e.x, _as_time(e, e.t), e.thr)

    def raises(self, e):
        if self.params["lens"] == "same":
            return []
        return [(ValueError, "length-mismatch", alg.ne(e.n, e.m))]

    def regions(self, e, res=None, k=None):
        return {"short-time-axis": alg.and_(alg.ne(e.n, e.m), alg.or_(alg.eq(e.m, 2), alg.and_(alg.le(e.n, 1), alg.le(e.m, 1))))}

    def canary(self, e, res, k):
        return None if self.params["lens"] == "differ" else alg.eq(res.flag(k), G)

    def post(self, e, res, k):
        if self.params["lens"] == "differ":
            return {}
        x = e.x
        km = alg.sub(k, 1)
        fl = res.flag(k)
        rate = alg.rdiv(alg.abs_(alg.sub(x.val(k), x.val(km))), alg.to_real(elapsed(e.t, k)))
        sus = alg.and_(alg.ge(k, 1), alg.not_(x.nan(km)), alg.gt(rate, pval(e.thr)))
        spec = case_of((x.nan(k), MISS), (sus, S), default=G)
        out = {
            "flag_by_rate": alg.eq(fl, spec),
            "missing_is_missing": alg.implies(x.nan(k), alg.eq(fl, MISS)),
            "missing_only_if_needed": alg.implies(alg.eq(fl, MISS), x.nan(k)),
        }
        if self.params.get("order") == "any":
            del out["flag_by_rate"]
        out.update(basic_shape_clauses(res, k, e.n))
        return out

    def post_global(self, e, res):
        if self.params["lens"] == "differ":
            return {}
        return {"one_flag_per_element": alg.eq(res.n, e.n) if res.is_array else False}

    def grid(self, tier, rng):
        # the last two: stamps out of order in a rotated arrangement (the sorting permutation is not its own
        # inverse) - the statement is about records in the order given, whatever the stamps say
        steps = [[0, 1, 2, 3, 4, 5], [10, 12, 16, 17, 3600, 90000], [5, 4, 3, 2, 1, 0], [20, 0, 10, 50, 30, 40], [10, 20, 30, 0, 50, 40]]
        for xs in series_grid(4 if tier == "quick" else 5):
            for st in steps:
                for thr in (0, H, 1, 5):
                    v = {"n": len(xs), "x": list(xs), "t": st[: len(xs)], "thr": thr}
                    if self.params["lens"] == "differ":
                        for m in (0, 1, 2, len(xs) + 1):
                            if m != len(xs):
                                w = dict(v)
                                w["m"] = m
                                w["t"] = [10, 12, 16, 17, 3600, 90000][:m]
                                yield w
                    else:
                        yield v
        if self.params.get("order") == "any":
            for xs, ts in (([None, 2, 3], [20, 0, 10]), ([5, None, 6, 7], [10, 20, 30, 0]), ([1, 2, None, 4, None], [30, 40, 0, 10, 20]), ([None, 1, 9, 1], [40, 10, 20, 30])):
                for thr in (0, H, 5):
                    yield {"n": len(xs), "x": list(xs), "t": list(ts), "thr": thr, "keep": 1}
        if self.params["lens"] == "same" and self.params.get("order") != "any":
            # the same instants handed over as epoch seconds in the carriers files and users have them in
            for tc in ("int32", "uint32", "int64", "float", "list"):
                for xs, ts in (([1, 2, 9, 3], [1700000000, 1700000010, 1700000020, 1700003620]), ([0, 5, None, 5, 0], [10, 12, 16, 17, 3600])):
                    for thr in (0, H, 1):
                        yield {"n": len(xs), "x": list(xs), "t": list(ts), "thr": thr, "tcarrier": tc, "keep": 1}
        if self.params["lens"] == "same":
            # float32 data whose differences float32 cannot hold (2**24 + 2 next to 1): the exact step is
            # 16777217, in float32 arithmetic it would be 16777216; thresholds between and on the two
            big = float(2**24 + 2)
            for xs in ([big, 1.0, big], [1.0, big, 3.0, big]):
                for thr in (16777216, 16777216.5, 16777215, 16777217):
                    yield {"n": len(xs), "x": list(xs), "t": list(range(len(xs))), "thr": thr, "dtype": "float32", "keep": 1}


def _normalised(a, n):
    return MArr(a, Arr(n, "b", lambda i: (False, a.nan(i))))


class Speed(Case):
    """params: lens in {'same','lat','t'} (which input has a different length)"""

    module = "ioos_qc.argo"
    function = "speed_test"
    index_offsets = (0, -1)
    props = {
        "post.flag_by_speed": ("C10",),
        "raises.length-mismatch": ("C10",),
        "post.missing_is_missing": ("C02",),
        "post.missing_only_if_needed": ("C02",),
    }

    def declare(self, mk):
        e = Env()
        e.n = mk.length("n")
        e.nl = mk.length("nl") if self.params["lens"] == "lat" else e.n
        e.nt = mk.length("nt") if self.params["lens"] == "t" else e.n
        e.lon = mk.series("lon", e.n)
        e.lat = mk.series("lat", e.nl)
        e.t = mk.times("t", e.nt)
        e.sus = mk.real("sus")
        e.fail = mk.real("fail")
        e.mode = mk.mode
        e.tcarrier = mk.values.get("tcarrier") if mk.mode != "sym" else None
        return e

    def stubs(self, T):
        return [("ioos_qc.argo", "great_circle_distance", utils_c.gcd_stub)]

    def callee_cases(self):
        return [utils_c.Gcd()]

    def call(self, mod, e):
        return mod.speed_test(e.lon, e.lat, _as_time(e, e.t), e.sus, e.fail)

    def raises(self, e):
        if self.params["lens"] == "same":
            return []
        return [(ValueError, "length-mismatch", alg.or_(alg.ne(e.n, e.nl), alg.ne(e.n, e.nt)))]

    def post(self, e, res, k):
        if self.params["lens"] != "same":
            return {}
        n = e.n
        la, lo = _normalised(e.lat, n), _normalised(e.lon, n)
        m, nan, d = utils_c.gcd_elem(la, lo, k)
        both = alg.and_(e.lon.nan(k), e.lat.nan(k))
        speed = alg.rdiv(d, alg.to_real(elapsed(e.t, k)))
        defined = alg.and_(alg.ge(k, 1), alg.not_(m), alg.not_(nan))
        fl = res.flag(k)
        # the statement, for k >= 1 with full positions at k-1 and k
        by_speed = case_of((alg.gt(speed, pval(e.fail)), F), (alg.gt(speed, pval(e.sus)), S), default=G)
        km = alg.sub(k, 1)
        partial = alg.xor(e.lon.nan(k), e.lat.nan(k))
        pred_not_full = alg.and_(alg.ge(k, 1), alg.or_(e.lon.nan(km), e.lat.nan(km)))
        out = {
            "flag_by_speed": alg.and_(
                alg.implies(alg.eq(k, 0), alg.eq(fl, U)),
                alg.implies(defined, alg.eq(fl, by_speed)),
            ),
            "missing_is_missing": alg.implies(both, alg.or_(alg.eq(fl, MISS), alg.and_(alg.eq(k, 0), alg.eq(fl, U)))),
            "missing_only_if_needed": alg.implies(alg.and_(alg.not_(both), alg.eq(fl, MISS)), alg.or_(partial, pred_not_full)),
        }
        out.update(basic_shape_clauses(res, k, n))
        return out

    def post_global(self, e, res):
        if self.params["lens"] != "same":
            return {}
        return {"one_flag_per_element": alg.eq(res.n, e.n) if res.is_array else False}

    def canary(self, e, res, k):
        return None if self.params["lens"] != "same" else alg.eq(res.flag(k), U)

    def grid(self, tier, rng):
        pts = [(0, 0), (10, 20), (10, 20.5), (0, -95), (None, 5), (5, None), (None, None)]
        steps = [[0, 1, 2, 3, 4], [10, 12, 3600, 90000, 90001]]
        for n in range(0, 4 if tier == "quick" else 5):
            for ps in itertools.product(pts, repeat=n):
                for st in steps:
                    for sus, fail in ((1, 100), (50000, 10), (0, 0)):
                        v = {"n": n, "lon": [p[0] for p in ps], "lat": [p[1] for p in ps], "t": st[:n], "sus": sus, "fail": fail}
                        if self.params["lens"] == "lat":
                            v["nl"] = n + 1
                            v["lat"] = v["lat"] + [0]
                        if self.params["lens"] == "t":
                            v["nt"] = n + 1
                            v["t"] = st[: n + 1]
                        yield v
        if self.params["lens"] == "same":
            for tc in ("int32", "uint32", "int64", "float", "list"):
                for sus, fail in ((1, 100), (50000, 10)):
                    yield {"n": 4, "lon": [0, 10, 10, 0], "lat": [0, 20, 20.5, 0], "t": [1700000000, 1700000010, 1700003610, 1700090010], "sus": sus, "fail": fail, "tcarrier": tc, "keep": 1}
            # thresholds exactly at, and one float next to, the real speed of a hop (unit time steps, so the
            # speed is the geodesic length itself): the boundary of each comparison becomes replayable
            import math

            from pyvc import libmodels

            tracks = [[(0, 0), (10, 20)], [(10, 20), (10, 20.5), (0, 0)], [(0, 80), (0, 81), (1, 81)]]
            for tr in tracks:
                for h in range(1, len(tr)):
                    d = libmodels.concrete_geod(tr[h - 1][1], tr[h - 1][0], tr[h][1], tr[h][0])
                    lo_, hi_ = math.nextafter(d, 0.0), math.nextafter(d, math.inf)
                    for sus, fail in ((d, 2 * d), (d / 2, d), (lo_, 2 * d), (d / 4, lo_), (d / 2, hi_), (hi_, 2 * d), (d, d), (d, d / 2)):
                        yield {"n": len(tr), "lon": [p[0] for p in tr], "lat": [p[1] for p in tr], "t": list(range(len(tr))), "sus": sus, "fail": fail, "keep": 1}


def cases():
    return [RateOfChange(lens="same"), RateOfChange(lens="same", order="any"), RateOfChange(lens="differ"), Speed(lens="same"), Speed(lens="lat"), Speed(lens="t")]
