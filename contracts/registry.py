"""Which cases and clauses make up each property (DESIGN.md section 7)."""
from . import qartod_range

T_COMMON = [
    "T1 pyvc itself (proxy values, path exploration, VC generation) - mitigated by the conformance run, canaries and covers",
    "T2 contract models of numpy / numpy.ma primitives used by the function (pyvc/npmodel.py, pyvc/npfuncs.py), re-measured against the installed numpy on the conformance grid on every run",
    "T3 float64 read as (isnan, real): no rounding, overflow, inf or signed zero; uint8/int64 as mathematical integers",
    "T4 soundness of z3 5.1.0 (cvc5 / z3 4.8.12 only when z3 answers unknown)",
]

A_COMMON = [
    "inputs are one-dimensional arrays of finite float64 values or NaN on the ndarray carrier (other carriers: C15)",
    "machine arithmetic treated as mathematical (T3)",
    "CPython executes the real function objects; only the free names np/pd/len/int/float/any/all and cross-module imports are rebound (pyvc/front.py)",
]


def _all_cases():
    cs = []
    cs += qartod_range.cases()
    return cs


_ALL = None


def all_cases():
    global _ALL
    if _ALL is None:
        _ALL = _all_cases()
    return _ALL


def cases_for(prop):
    return [c for c in all_cases() if prop in c.all_props()]


PROPS = {
    "C03": {
        "level": "proof",
        "explanation": "every obligation generated from the real gross_range_test / valid_range_test is discharged by z3 for symbolic length and contents",
        "trusted_base": T_COMMON,
        "assumptions": A_COMMON,
    },
}
