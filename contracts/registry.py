"""Which cases and clauses make up each property (DESIGN.md section 7)."""
from . import aggregate, carriers, clim_lemmas, collect, configs, fx, invariance, purity, store, streams, profile, relational, qartod_attenuated, qartod_clim, qartod_flatline, qartod_location, qartod_range, qartod_spike, rate, utils_c

T_COMMON = [
    "T1 pyvc itself (proxy values, path exploration, VC generation) - mitigated by the conformance run, canaries and covers",
    "T2 contract models of numpy / numpy.ma primitives used by the function (pyvc/npmodel.py, pyvc/npfuncs.py), re-measured against the installed numpy on the conformance grid on every run",
    "T3 float64 read as (isnan, real): no rounding, overflow, inf or signed zero; uint8/int64 as mathematical integers",
    "T4 soundness of z3 5.1.0 (cvc5 / z3 4.8.12 only when z3 answers unknown)",
]
T_GEOD = "geographiclib Geodesic.WGS84.Inverse: uninterpreted geod(lat1,lon1,lat2,lon2) >= 0, NaN iff a coordinate is NaN or |lat| > 90 (conformance-checked)"
T_ROLL = "pandas Series.rolling(f'{p}s', min_periods).std()/.apply(np.ptp, raw=True): window (t-p, t], NaN rule by count of non-NaN values; values uninterpreted (pyvc/pdmodel.py; concrete reading is pandas itself)"
T_STAT = "numpy mean / median / std / ptp: uninterpreted values with the stated facts only (median lies between two elements; std, ptp >= 0; NaN/empty rules)"

A_COMMON = [
    "inputs are one-dimensional arrays of finite float64 values or NaN on the ndarray carrier (other carriers: C15)",
    "machine arithmetic treated as mathematical (T3)",
    "CPython executes the real function objects; only the free names np/pd/len/int/float/any/all, Geodesic and cross-module imports are rebound (pyvc/front.py)",
    "time axes are datetime64[ns] on whole seconds, strictly increasing",
]


def _all_cases():
    cs = []
    cs += qartod_range.cases()
    cs += qartod_location.cases()
    cs += qartod_spike.cases()
    cs += rate.cases()
    cs += profile.cases()
    cs += qartod_flatline.cases()
    cs += qartod_attenuated.cases()
    cs += qartod_clim.cases()
    cs += aggregate.cases()
    cs += relational.cases()
    cs += invariance.cases()
    cs += carriers.cases()
    cs += carriers.bounded_cases()
    cs += fx.cases()
    cs += store.cases()
    cs += collect.cases()
    cs += streams.cases()
    cs += configs.cases()
    cs += purity.cases()
    cs += clim_lemmas.cases()
    cs += qartod_clim.add_cases()
    cs += [utils_c.Gcd()]
    return cs


_ALL = None


def all_cases():
    global _ALL
    if _ALL is None:
        _ALL = _all_cases()
    return _ALL


def cases_for(prop):
    out = [c for c in all_cases() if prop in c.all_props()]
    return out


def _p(level, explanation, trusted=(), assumptions=(), bounded=()):
    return {"level": level, "explanation": explanation, "trusted_base": T_COMMON + list(trusted), "assumptions": A_COMMON + list(assumptions), "bounded": list(bounded)}


PROPS = {
    "C01": _p("proof", "for every QC test: no feasible raising path, one flag per element, flag alphabet, no mask, no write to an argument buffer - obligations over the real functions for symbolic length and contents", [T_GEOD, T_ROLL, T_STAT]),
    "C02": _p("proof", "missing => MISSING (or UNKNOWN where undefined) and MISSING only when a needed value is missing, as postconditions at a Skolem index of the real functions (rate_of_change_test also for stamps in any order)", [T_GEOD, T_ROLL, T_STAT]),
    "C03": _p("proof", "every obligation generated from the real gross_range_test / valid_range_test is discharged for symbolic length, contents, spans and all inclusivity settings"),
    "C04": _p("proof", "qartod_compare: five priorities unrolled, inner loop over a symbolic number of vectors cut by the invariant result[i] = ite(exists q<j. hit(q,i,p), p, roll-up of lower priorities); lemmas: never better than the worst input, permutation, duplication, grouping; aggregate() through the callee contract", assumptions=["PandasStore.compute_aggregate: verified under C19"]),
    "C05": _p("other", "deductive: NumpyStream.run (array and dict input), PandasStream.run (RangeIndex and arbitrary unique labels) and the real Call.run / Config parsing under them, for the configuration shapes of contracts/streams.py with symbolic table length, contents, time axis (also with missing stamps, NaT: a missing stamp lies in no bounded window) and window bounds: every argument handed to a (probe) test is the base column filtered by exactly the window predicate start <= t < end, the yielded ContextResult carries that predicate, the column and the probe's return value. bounded: Call.run exhaustively over a key universe; all five front ends incl. NetcdfStream, XarrayStream and QcConfig.run against the direct call on concrete tables", ["pandas DataFrame / Series as (columns, row-selection predicate) (pyvc/tablemodel.py)", "test functions as probes: flags are an uninterpreted function of (test, row); equality with the direct call then follows from equality of the arguments (determinism of the real tests: C01)"], assumptions=["configuration structure enumerated over the shapes in contracts/streams.py SHAPES (bounded), data dimension symbolic", "XarrayStream and NetcdfStream only in the bounded differential (xarray internals, private map_index_queries)"], bounded=["CallRun: 16 x 16 keyword sets x 3 callee behaviours (exhaustive over the universe)", "FrontEnds: 5 front ends x 4 tables x 6 windows; histories: configuration edited after a run; naive datetime bounds in a process whose local time zone is not UTC"]),
    "C18": _p("other", "deductive: the 'faults' configuration shape (a raising test, an unknown test name, an unknown module, an absent stream id, a test whose required inputs the stream does not supply) on NumpyStream / PandasStream with symbolic tables: the healthy calls yield exactly what they yield alone (per-yield postcondition of C05, which mentions no other call), failing entries yield no CallResult, nothing raises, argument buffers are not written; collect_results tolerates ContextResults without results (C06 cases with has=False). bounded: Call.run returns [] on any Exception and hands the callee deep copies (exhaustive over the key universe)", ["as C05, C06"], bounded=["CallRun, FrontEnds as in C05"]),
    "C07": _p("other", "bounded: generated configurations (1-2 contexts, 1-2 streams, qartod/argo/axds tests with scalar/list parameters, windows, sprinkled unknown module and test names) in every layout that can express them (contexts list, single context, bare stream mapping, bare module mapping) x 8 carriers (dict, OrderedDict, YAML text, JSON text, StringIO, str path to YAML, Path to JSON, xarray Dataset attribute) on the real Config: the calls (stream, module, test, parameters, window) equal the statement's. deductive: utils.dict_depth (recursive contract over a ghost mapping); the ContextConfig skipping of unknown names runs for real inside the C05/C18 stream proofs. The content of this property is the round trip through the YAML / JSON / xarray libraries, which no contract within reach expresses - hence mostly bounded", ["ruamel.yaml, json, xarray attribute round trips (exercised, not modelled)"], bounded=["14 generated configurations (quick) / 82 (thorough) x up to 4 layouts x 8 carriers"]),
    "C06": _p("proof", "collect_results_list / collect_results_dict on a symbolic number of ContextResults over n rows: the loop is cut with the invariant 'mask(i) <=> no processed result context covers i; covered rows hold that context's flag and the source columns', the prior state being an arbitrary one (absent key, accumulators, or the arrays of an earlier all-covering context). Context arrays are selections (base column, window predicate), so no rank arithmetic is needed. Order independence for disjoint windows: the postcondition does not mention the order", ["ContextResults as produced by the streams: arrays are the selections of full columns by subset_indexes, at most one CallResult per ContextResult, not writable"], assumptions=["cut cases: all contexts of the run under consideration share one (stream, module, test) key (CollectMulti: two tests per context, two concrete contexts, symbolic rows / windows / flags); entries of other keys are untouched because a dict entry is reached only through its key (Python dict semantics) and keys of different triples differ", "windows of contexts with a result are pairwise disjoint (the statement's premise)"], bounded=["CollectEndToEnd: the real NumpyStream / PandasStream (default, permuted and offset row labels) + the real collect_results on 2 tables x 6 window layouts (two-sided, touching, open-ended in both listing orders, ending-only); flags compared with the direct call on each window"]),
    "C19": _p("other", "deductive: cf_safe_name over z3 strings (position-wise: only safe characters, never a leading digit, safe characters kept) with re.match/re.sub as point-wise contracts; column_from_collected_result against the label specification; PandasStore.save with the result loop cut: one arbitrary iteration from an arbitrary frame adds exactly the columns the statement names (axes iff write_axes and absent and non-empty, data iff kept and write_data, the result column iff kept and its name is free; include/exclude as uninterpreted membership) for all 16 filter/flag settings; compute_aggregate appends aggregate(all results). bounded: uniqueness of the column per result on concrete stream ids", ["pandas DataFrame as an ordered map name -> column (membership, item assignment)", "re.match / re.sub on single-character classes (ASCII)"], assumptions=["the induction from 'one arbitrary iteration adds the stated columns' to the whole frame is the loop-cut meta-argument (the body reads only the frame and its own result)", "row alignment of the columns is inherited from collect_results (C06)"], bounded=["StoreUnique: 21 pairs of stream ids x 2 test sets on the real PandasStore.save", "StoreFilter: 8 x 8 include / exclude lists on hand-built results, 7 x 7 with stream ids / test names made of glob metacharacters", "StoreEndToEnd: the frame saved for a run of the real front ends (4 front end / row label variants x window x write_data x write_axes x roll-up, and 6 include / exclude lists x 3 write settings with the roll-up) against the direct calls"]),
    "C20": _p("other", "deductive: evaluate_stack against the value of a ghost expression tree, per constructor with the recursive calls bound to the contract (induction on depth), for an arbitrary stack prefix - hence independent of the never-cleared module stack; eval_fx relative to the grammar contract; _validate_fx token loop (stateless cut) against the statement's token classes over z3 strings. bounded: the pyparsing grammar itself (combinators built at run time) against ordinary arithmetic on generated expressions with failing parses in between", ["pyparsing grammar BNF(): contract 'parseString appends the postfix form' (bounded check)", "builtins.float(str): parsability and value uninterpreted; character classes ASCII"], assumptions=["QcConfigCreator.create_config (xarray + scipy CubicSpline over climatology files): no contract within reach expresses the interpolation; this part of C20 is decided by a bounded check only"], bounded=["grammar: expressions of depth <= 1 (quick) / 2 (thorough) over 3 literals, 4 statistics, + - * /, unary minus, parentheses; histories of 1-2 earlier evaluations incl. failing parses; 10 spellings of numbers that float() reads (bare trailing point, exponent forms, leading zeros) alone and in 5 expression patterns; 4 expressions x 4 earlier evaluations on other statistics (same numbers under other names, other order, one value changed)", "create_config: 4 synthetic climatologies constant in time (4x5 grid, written as netCDF3 and read back by the real code) x 8 bounding boxes (edges on and between grid lines, single cell, whole grid) x 2 (quick) / 3 (thorough) date ranges; spans compared with the expressions on numpy min/max/mean/std of the cells inside the box"]),
    "C15": _p("other", "deductive: every QC test executed with opaque input carriers - obligation carrier-opaque (the test touches its data inputs only through np.array(.) and its time input only through mapdates(.)), so its flags are a function of the normalised series; bounded: the carrier conversions themselves (numpy / pandas / dask behaviour) are checked by running the real functions on every carrier of concrete series and comparing with the canonical call", [T_GEOD, T_ROLL, T_STAT], bounded=["carrier conversion facts: 8 data carriers x 13 time carriers (datetime64 in ns / ms / s / m / h / D, datetimes, Timestamps, DatetimeIndex and Series naive and UTC, epoch numbers) on sampled concrete series (12 per test quick, 120 thorough) plus sub-second axes and irregular whole-minute / hour / day axes, flags compared with the canonical ndarray/datetime64[ns] call"]),
    "C16": _p("proof", "self-composition on the real code: each threshold-driven test is executed twice on one symbolic series with a loose and a strict parameter set; the two results are related at a Skolem index (never less severe; UNKNOWN/MISSING set unchanged). No functional specification is used", [T_GEOD, T_ROLL, T_STAT], assumptions=["climatology_test is not covered by the self-composition (its member loops would have to run in lock-step); for it monotonicity follows from the C08 fold postcondition only"]),
    "C17": _p("proof", "self-composition on the real code: the function is executed on a series and on its transformed copy (x+c, -x, t+c, data and spans shifted together, reversed, changed at one symbolic position) and the two flag arrays are related at a Skolem index", [T_GEOD, T_ROLL, T_STAT], assumptions=["assumed invariance facts of the abstract statistics (not proved, they are properties of the library functions): std/ptp of the whole series are equal for x, x+c and -x; a rolling-window statistic, the window's count of present values and its NaN indicator are equal for the two runs at every row whose window does not contain the changed position (all rows for x+c, -x, t+c)", "climatology_test is not covered by the self-composition (sequential member loops); for it shift invariance and locality follow from the C08 fold postcondition and the bounded case below"], bounded=["ClimatologyShiftHistory: climatology_test with two members, stamps and absolute spans (and data and value spans) shifted together, the configuration list / tuple edited in place between the two calls or rebuilt: 2 x 2 x 4 shifts on the real function"]),
    "C08": _p("proof", "climatology_test / ClimatologyConfig.check: the member loop is cut by the invariant flag[i] = F_j(i) (fold of the statement over the first j members); body proved for one arbitrary member of each of the 20 shapes (5 period kinds x zspan x fspan); calendar attributes uninterpreted; ClimatologyConfig.add (sorted spans, unknown period rejected) and ClimatologyConfig.convert (one member per dict in list order for lists of 0-3 dicts with symbolic contents - exhaustive per length, bounded in the length; a ClimatologyConfig object passes through)", ["pandas DatetimeIndex calendar attributes (month, week, dayofyear ...): uninterpreted functions of the timestamp; Series[bool] & MaskedArray rule (pyvc/pdmodel.py), conformance-checked"], bounded=["ClimAddSpellings: absolute time spans in 8 spellings pandas.Timestamp accepts (ISO padded / unpadded, month names, US style, datetime, datetime64, Timestamp, mixed) x 4 date pairs x both orders x tuple / list, and 3 spans with bounds outside datetime64[ns] (years 1000, 3000, 9999) x 4 spellings x both orders x object / list layout, on the real ClimatologyConfig.add and climatology_test (the deductive ClimAdd cases hand over datetime values; what pandas makes of a string is library behaviour)"]),
    "C09": _p("proof", "spike_test: interior points by the statement's magnitude formula (both methods, thresholds present/absent), end points, ValueError on unknown method"),
    "C10": _p("proof", "rate_of_change_test and speed_test against rate = |dx| / whole elapsed seconds and geodesic speed; great_circle_distance verified against its contract and used through it", [T_GEOD]),
    "C11": _p("proof", "flat_line_test with its closures: window of floor(threshold/D)+1 points ending at k, range of present values < tolerance; min/max reductions as ground objects with cross-instantiated bounds", [T_STAT]),
    "C12": _p("proof", "attenuated_signal_test: dispatch, min_periods arithmetic, flag table and the arguments handed to the statistic; the statistics themselves are uninterpreted (proof relative to the rolling contract)", [T_ROLL, T_STAT], bounded=["pandas rolling NaN rule: compared with pandas on the conformance grid (bounded)", "AttenuatedSubsecond: 3 time axes that are not whole seconds (400 ms, irregular, bursts) x 3 series x 4 window lengths x std / range x 2 threshold pairs on the real function against the trailing-window definition (the deductive cases require whole-second stamps)"]),
    "C13": _p("proof", "density_inversion_test pair flagging in both cast directions incl. any()-guards, pressure_increasing_test relative to the sign of the (uninterpreted) mean step", [T_STAT]),
    "C14": _p("proof", "location_test: bounding box, one-sided missing, hop distance through the great_circle_distance contract, shape and bbox validation", [T_GEOD], bounded=["LocationShapes: 12 pairs of 1-D / 2-D / 3-D shapes (equal and different element counts) x range_max given or not, and 4 N-D shapes x 3 memory layouts (Fortran order, transposed view, lon and lat laid out differently) x range_max x bounding box on the real function (the deductive cases are about 1-D series)"]),
}
