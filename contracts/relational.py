"""C16 - stricter parameters never give a better flag: self-composition on the real code.
Each case executes the real function twice on one symbolic series, with a loose and a strict
parameter set, and relates the two results at a Skolem index.  Nothing here refers to the
functional specifications of C03/C09-C14: a mutant that changes *what* is flagged but keeps
monotonicity must stay silent."""
import itertools

from pyvc import alg
from pyvc.contract import Pair

from . import utils_c
from .common import F, G, H, MISS, S, U, Case, Env, pval, series_grid


def sev(f):
    return alg.ite(alg.eq(f, F), 2, alg.ite(alg.eq(f, S), 1, 0))


def um(f):
    return alg.or_(alg.eq(f, U), alg.eq(f, MISS))


OPT = ((False, False), (False, True), (True, True))  # (present in loose, present in strict)


class Mono(Case):
    index_offsets = (0, -1, 1)
    grid_limit = 200
    props = {"post.never_less_severe": ("C16",), "post.unknown_missing_set_unchanged": ("C16",)}
    default_props = {}

    def post(self, e, res, k):
        a, b = res.a.flag(k), res.b.flag(k)
        return {
            "never_less_severe": alg.implies(alg.and_(alg.not_(um(a)), alg.not_(um(b))), alg.ge(sev(b), sev(a))),
            "unknown_missing_set_unchanged": alg.iff(um(a), um(b)),
        }

    def canary(self, e, res, k):
        return alg.eq(res.a.flag(k), G)

    def le(self, mk, a, b):
        mk.assume(alg.le(pval(a), pval(b)))

    def pair(self, mk, name, stricter_is_smaller=True):
        lo, st = mk.real(name + "_loose"), mk.real(name + "_strict")
        if stricter_is_smaller:
            self.le(mk, st, lo)
        else:
            self.le(mk, lo, st)
        return lo, st


def _nested(mk, inner, outer):
    """span `inner` (two numbers, any order) lies inside span `outer`"""
    i0, i1 = pval(inner[0]), pval(inner[1])
    o0, o1 = pval(outer[0]), pval(outer[1])
    mk.assume(alg.ge(alg.min_(i0, i1), alg.min_(o0, o1)))
    mk.assume(alg.le(alg.max_(i0, i1), alg.max_(o0, o1)))


class MonoGrossRange(Mono):
    module, function = "ioos_qc.qartod", "gross_range_test"
    index_offsets = (0,)

    def declare(self, mk):
        e = Env()
        e.n = mk.length("n")
        e.x = mk.series("x", e.n)
        e.fa = (mk.real("fa0"), mk.real("fa1"))
        e.fb = (mk.real("fb0"), mk.real("fb1"))
        _nested(mk, e.fb, e.fa)
        sa, sb = self.params["sus"]
        e.sa = (mk.real("sa0"), mk.real("sa1")) if sa else None
        e.sb = (mk.real("sb0"), mk.real("sb1")) if sb else None
        if sa and sb:
            _nested(mk, e.sb, e.sa)
        return e

    def call(self, mod, e):
        return Pair(mod.gross_range_test(e.x, e.fa, e.sa), mod.gross_range_test(e.x, e.fb, e.sb))

    def grid(self, tier, rng):
        sa, sb = self.params["sus"]
        for xs in series_grid(3):
            for fa, fb in (((0, 3), (1, 2)), ((3, 0), (1, 1)), ((-2, 3), (-2, 3))):
                v = {"n": len(xs), "x": list(xs), "fa0": fa[0], "fa1": fa[1], "fb0": fb[0], "fb1": fb[1]}
                if sa:
                    v.update(sa0=fb[0], sa1=fb[1])
                if sb:
                    v.update(sb0=1, sb1=fb[1] if fb[1] >= 1 else 1)
                yield v


class MonoValidRange(Mono):
    module, function = "ioos_qc.axds", "valid_range_test"
    index_offsets = (0,)

    def declare(self, mk):
        e = Env()
        e.n = mk.length("n")
        e.x = mk.series("x", e.n)
        (la, lb), (ha, hb) = self.params["lo"], self.params["hi"]
        e.la = mk.real("la") if la else None
        e.lb = mk.real("lb") if lb else None
        e.ha = mk.real("ha") if ha else None
        e.hb = mk.real("hb") if hb else None
        if la and lb:
            mk.assume(alg.ge(pval(e.lb), pval(e.la)))
        if ha and hb:
            mk.assume(alg.le(pval(e.hb), pval(e.ha)))
        return e

    def call(self, mod, e):
        kw = {"start_inclusive": self.params["si"], "end_inclusive": self.params["ei"]}
        return Pair(mod.valid_range_test(e.x, (e.la, e.ha), **kw), mod.valid_range_test(e.x, (e.lb, e.hb), **kw))

    def grid(self, tier, rng):
        for xs in series_grid(3):
            v = {"n": len(xs), "x": list(xs), "la": -1, "lb": 0, "ha": 3, "hb": 1}
            yield v


class MonoLocation(Mono):
    module, function = "ioos_qc.qartod", "location_test"
    index_offsets = (0, -1)

    def declare(self, mk):
        e = Env()
        e.n = mk.length("n")
        e.lon = mk.series("lon", e.n)
        e.lat = mk.series("lat", e.n)
        e.ba = tuple(mk.real("ba" + k) for k in ("minx", "miny", "maxx", "maxy"))
        e.bb = tuple(mk.real("bb" + k) for k in ("minx", "miny", "maxx", "maxy"))
        # nested boxes: [minx', maxx'] inside [minx, maxx], likewise y
        mk.assume(alg.ge(pval(e.bb[0]), pval(e.ba[0])))
        mk.assume(alg.ge(pval(e.bb[1]), pval(e.ba[1])))
        mk.assume(alg.le(pval(e.bb[2]), pval(e.ba[2])))
        mk.assume(alg.le(pval(e.bb[3]), pval(e.ba[3])))
        ra, rb = self.params["rmax"]
        e.ra = mk.real("ra") if ra else None
        e.rb = mk.real("rb") if rb else None
        if ra:
            mk.assume(alg.ge(pval(e.ra), 0))
        if rb:
            mk.assume(alg.ge(pval(e.rb), 0))
        if ra and rb:
            mk.assume(alg.le(pval(e.rb), pval(e.ra)))
        return e

    def stubs(self, T):
        return [("ioos_qc.qartod", "great_circle_distance", utils_c.gcd_stub)]

    def call(self, mod, e):
        return Pair(mod.location_test(e.lon, e.lat, e.ba, e.ra), mod.location_test(e.lon, e.lat, e.bb, e.rb))

    def grid(self, tier, rng):
        pts = [(0, 0), (10, 20), (181, 0), (None, 5), (None, None), (10, 20.5)]
        ra, rb = self.params["rmax"]
        for n in range(0, 4):
            for ps in itertools.product(pts, repeat=n):
                v = {"n": n, "lon": [p[0] for p in ps], "lat": [p[1] for p in ps]}
                v.update(baminx=-180, baminy=-90, bamaxx=180, bamaxy=90, bbminx=0, bbminy=0, bbmaxx=10, bbmaxy=20)
                if ra:
                    v["ra"] = 3000000
                if rb:
                    v["rb"] = 1000
                yield v
        if ra and rb:
            # tracks that leave the strict box and come back, with hop limits smaller than the excursion: the fix
            # after the excursion is judged against its real predecessor under either box
            pts2 = [(0, 0), (10, 20.5), (5, 5), (9, 19), (-1, 5)]
            for n in (3, 4):
                for ps in itertools.product(pts2, repeat=n):
                    if not any(p[1] > 20 or p[0] < 0 for p in ps):
                        continue
                    for va, vb in ((1000000, 1000000), (2000000, 500000)):
                        v = {"n": n, "lon": [p[0] for p in ps], "lat": [p[1] for p in ps], "ra": va, "rb": vb, "keep": 1 if n == 3 else 0}
                        v.update(baminx=-180, baminy=-90, bamaxx=180, bamaxy=90, bbminx=0, bbminy=0, bbmaxx=10, bbmaxy=20)
                        if not v["keep"]:
                            del v["keep"]
                        yield v


class MonoSpike(Mono):
    module, function = "ioos_qc.qartod", "spike_test"

    def declare(self, mk):
        e = Env()
        e.n = mk.length("n")
        e.x = mk.series("x", e.n)
        for nm in ("sus", "fail"):
            a, b = self.params[nm]
            e[nm + "a"] = mk.real(nm + "a") if a else None
            e[nm + "b"] = mk.real(nm + "b") if b else None
            if a and b:
                mk.assume(alg.le(pval(e[nm + "b"]), pval(e[nm + "a"])))
        return e

    def call(self, mod, e):
        m = self.params["method"]
        return Pair(mod.spike_test(e.x, e.susa, e.faila, method=m), mod.spike_test(e.x, e.susb, e.failb, method=m))

    def grid(self, tier, rng):
        for xs in series_grid(4):
            v = {"n": len(xs), "x": list(xs)}
            for nm, (va, vb) in (("sus", (1, H)), ("fail", (2, 0))):
                a, b = self.params[nm]
                if a:
                    v[nm + "a"] = va
                if b:
                    v[nm + "b"] = vb
            yield v


class MonoRate(Mono):
    module, function = "ioos_qc.qartod", "rate_of_change_test"
    index_offsets = (0, -1)

    def declare(self, mk):
        e = Env()
        e.n = mk.length("n")
        e.x = mk.series("x", e.n)
        e.t = mk.times("t", e.n)
        e.a, e.b = self.pair(mk, "thr")
        mk.assume(alg.ge(pval(e.b), 0))
        return e

    def call(self, mod, e):
        return Pair(mod.rate_of_change_test(e.x, e.t, e.a), mod.rate_of_change_test(e.x, e.t, e.b))

    def grid(self, tier, rng):
        for xs in series_grid(4):
            yield {"n": len(xs), "x": list(xs), "t": [0, 1, 3, 3600][: len(xs)], "thr_loose": 1, "thr_strict": H}


class MonoSpeed(Mono):
    module, function = "ioos_qc.argo", "speed_test"
    index_offsets = (0, -1)

    def declare(self, mk):
        e = Env()
        e.n = mk.length("n")
        e.lon = mk.series("lon", e.n)
        e.lat = mk.series("lat", e.n)
        e.t = mk.times("t", e.n)
        e.sa, e.sb = self.pair(mk, "sus")
        e.fa, e.fb = self.pair(mk, "fail")
        return e

    def stubs(self, T):
        return [("ioos_qc.argo", "great_circle_distance", utils_c.gcd_stub)]

    def call(self, mod, e):
        return Pair(mod.speed_test(e.lon, e.lat, e.t, e.sa, e.fa), mod.speed_test(e.lon, e.lat, e.t, e.sb, e.fb))

    def grid(self, tier, rng):
        pts = [(0, 0), (10, 20), (10, 20.5), (None, 5), (None, None)]
        for n in range(0, 4):
            for ps in itertools.product(pts, repeat=n):
                yield {"n": n, "lon": [p[0] for p in ps], "lat": [p[1] for p in ps], "t": [0, 10, 3600][:n], "sus_loose": 100, "sus_strict": 1, "fail_loose": 50000, "fail_strict": 10}
        # thresholds placed exactly at the real speed of a hop (unit time steps): tightening onto the boundary
        import math

        from pyvc import libmodels

        for tr in ([(0, 0), (10, 20)], [(10, 20), (10, 20.5), (0, 0)]):
            for h in range(1, len(tr)):
                d = libmodels.concrete_geod(tr[h - 1][1], tr[h - 1][0], tr[h][1], tr[h][0])
                lo_ = math.nextafter(d, 0.0)
                for sl, ss, fl_, fs in ((d / 2, d / 2, 2 * d, d), (d, lo_, 2 * d, 2 * d), (d / 2, d / 4, d, lo_), (d, d, 2 * d, d), (2 * d, d, 4 * d, d)):
                    yield {"n": len(tr), "lon": [p[0] for p in tr], "lat": [p[1] for p in tr], "t": list(range(len(tr))), "sus_loose": sl, "sus_strict": ss, "fail_loose": fl_, "fail_strict": fs, "keep": 1}


class MonoFlatLine(Mono):
    module, function = "ioos_qc.qartod", "flat_line_test"
    grid_limit = 60

    def declare(self, mk):
        from .qartod_flatline import FlatLine

        e = Env()
        e.n = mk.length("n")
        e.x = mk.series("x", e.n)
        e.t = mk.times("t", e.n, increasing=False)
        e.D = mk.integer("D")
        mk.assume(alg.ge(pval(e.D), 1))
        n, D = e.n, pval(e.D)
        if mk.mode == "sym":
            fs = e.t.fsec
            mk.fact("regular-sampling", lambda i: alg.implies(alg.and_(alg.le(0, i), alg.lt(alg.add(i, 1), n)), alg.eq(alg.sub(fs(alg.lift(alg.add(i, 1))), fs(alg.lift(i))), D)))
        elif mk.mode == "conc":
            secs = e.t.secs
            mk.assume(all(b - a == D for a, b in zip(secs, secs[1:])))
        e.sta, e.stb = mk.integer("sta"), mk.integer("stb")
        e.fta, e.ftb = mk.integer("fta"), mk.integer("ftb")
        e.tola, e.tolb = mk.real("tola"), mk.real("tolb")
        for v in (e.stb, e.ftb):
            mk.assume(alg.ge(pval(v), 0))
        mk.assume(alg.le(pval(e.stb), pval(e.sta)))  # durations not longer
        mk.assume(alg.le(pval(e.ftb), pval(e.fta)))
        mk.assume(alg.ge(pval(e.tolb), pval(e.tola)))  # tolerance not smaller
        return e

    def call(self, mod, e):
        return Pair(mod.flat_line_test(e.x, e.t, e.sta, e.fta, e.tola), mod.flat_line_test(e.x, e.t, e.stb, e.ftb, e.tolb))

    def post(self, e, res, k):
        out = Mono.post(self, e, res, k)
        # reductions of both runs: instantiate every bound at every witness position
        path = getattr(res, "path", None)
        hints = []
        if path is not None:
            reds = list(path.reductions)
            pos = [alg.add(r["row"], r["wit"]) for r in reds] + [k]
            for r in reds:
                for p_ in pos:
                    hints.append(r["bound"](alg.sub(p_, r["row"])))
        return {nm: (f, hints) for nm, f in out.items()}

    def grid(self, tier, rng):
        for xs in series_grid(5, alphabet=(0, H / 2, 1, None)):
            yield {"n": len(xs), "x": list(xs), "t": [1000 + 60 * i for i in range(len(xs))], "D": 60, "sta": 180, "stb": 60, "fta": 240, "ftb": 120, "tola": H / 2, "tolb": H}
        # durations of a day and more on hourly data with a stuck episode of a few hours: the looser (longer) duration
        # must not flag what the stricter (shorter) one leaves alone
        xs = [float(i % 7) for i in range(30)] + [5.0] * 5 + [float(i % 5) for i in range(5)]
        for fta, ftb in ((90000, 79200), (86400, 43200), (180000, 90000)):
            yield {"n": len(xs), "x": list(xs), "t": [1000 + 3600 * i for i in range(len(xs))], "D": 3600, "sta": fta, "stb": ftb, "fta": fta, "ftb": ftb, "tola": H, "tolb": H, "keep": 1}


class MonoAttenuated(Mono):
    module, function = "ioos_qc.qartod", "attenuated_signal_test"
    index_offsets = (0,)

    def declare(self, mk):
        e = Env()
        e.n = mk.length("n")
        e.x = mk.series("x", e.n)
        e.t = mk.times("t", e.n)
        e.sa, e.sb = self.pair(mk, "sus", stricter_is_smaller=False)
        e.fa, e.fb = self.pair(mk, "fail", stricter_is_smaller=False)
        if self.params["window"]:
            e.period = mk.integer("period")
            mk.assume(alg.ge(pval(e.period), 1))
            if self.params["min_obs"]:
                e.min_obs = mk.integer("min_obs")
                mk.assume(alg.ge(pval(e.min_obs), 1))
        return e

    def call(self, mod, e):
        kw = {"check_type": self.params["check"]}
        if self.params["window"]:
            kw["test_period"] = e.period
            if self.params["min_obs"]:
                kw["min_obs"] = e.min_obs
        return Pair(mod.attenuated_signal_test(e.x, e.t, e.sa, e.fa, **kw), mod.attenuated_signal_test(e.x, e.t, e.sb, e.fb, **kw))

    def grid(self, tier, rng):
        for xs in series_grid(4, alphabet=(0, 1, 3, None)):
            v = {"n": len(xs), "x": list(xs), "t": [0, 60, 120, 180][: len(xs)], "sus_loose": H, "sus_strict": 2, "fail_loose": H / 2, "fail_strict": 1, "period": 120, "min_obs": 2}
            yield v


class MonoDensity(Mono):
    module, function = "ioos_qc.qartod", "density_inversion_test"

    def declare(self, mk):
        e = Env()
        e.n = mk.length("n")
        e.x = mk.series("x", e.n)
        e.z = mk.series("z", e.n)
        for nm in ("sus", "fail"):
            a, b = self.params[nm]
            e[nm + "a"] = mk.real(nm + "a") if a else None
            e[nm + "b"] = mk.real(nm + "b") if b else None
            if a and b:
                mk.assume(alg.ge(pval(e[nm + "b"]), pval(e[nm + "a"])))  # thresholds not smaller
        return e

    def call(self, mod, e):
        return Pair(mod.density_inversion_test(e.x, e.z, e.susa, e.faila), mod.density_inversion_test(e.x, e.z, e.susb, e.failb))

    def grid(self, tier, rng):
        for n in range(0, 4):
            for xs in itertools.product((-1, 0, 1, None), repeat=n):
                for zs in itertools.product((0, 1, None), repeat=n):
                    v = {"n": n, "x": list(xs), "z": list(zs)}
                    for nm, (va, vb) in (("sus", (-H, H)), ("fail", (-1, 0))):
                        a, b = self.params[nm]
                        if a:
                            v[nm + "a"] = va
                        if b:
                            v[nm + "b"] = vb
                    yield v


def cases():
    cs = []
    for s in OPT:
        cs.append(MonoGrossRange(sus=s))
    for lo in OPT:
        for hi in OPT:
            cs.append(MonoValidRange(lo=lo, hi=hi, si=True, ei=False))
    cs.append(MonoValidRange(lo=(True, True), hi=(True, True), si=False, ei=True))
    for r in OPT:
        cs.append(MonoLocation(rmax=r))
    for m in ("average", "differential"):
        for s in OPT:
            for f in OPT:
                cs.append(MonoSpike(method=m, sus=s, fail=f))
    cs.append(MonoRate())
    cs.append(MonoSpeed())
    cs.append(MonoFlatLine())
    for chk in ("std", "range"):
        cs.append(MonoAttenuated(check=chk, window=False, min_obs=False))
        cs.append(MonoAttenuated(check=chk, window=True, min_obs=False))
        cs.append(MonoAttenuated(check=chk, window=True, min_obs=True))
    for s in OPT:
        for f in OPT:
            cs.append(MonoDensity(sus=s, fail=f))
    return cs
