"""Contracts: utils.cf_safe_name, stores.column_from_collected_result, PandasStore (C19)."""
import z3

from pyvc import alg
from pyvc.ctx import cur
from pyvc.strmodel import SStr, _class_re, char_at, sval

from .common import Case, Env

SAFE = "_a-zA-Z0-9"


class CfSafeName(Case):
    """cf_safe_name(name): every character of the result is a letter, digit or underscore and the
    result does not start with a digit; same length as the (possibly 'v_'-prefixed) input.
    The clauses are position-wise (Skolem position k), using the point-wise contract of re.sub."""

    module = "ioos_qc.utils"
    function = "cf_safe_name"
    default_props = {}
    props = {"post.only_safe_characters": ("C19",), "post.never_starts_with_digit": ("C19",), "post.keeps_safe_characters": ("C19",), "no-raise": ("C19",), "raises.not-a-string": ("C19",)}

    def declare(self, mk):
        e = Env()
        e.mode = mk.mode
        if self.params["arg"] == "str":
            e.name = SStr(z3.String("name")) if mk.mode == "sym" else mk.values["name"]
        else:
            e.name = 5
        return e

    def call(self, mod, e):
        return mod.cf_safe_name(e.name)

    def raises(self, e):
        if self.params["arg"] != "str":
            return [(ValueError, "not-a-string", True)]
        return []

    def canary(self, e, res, k):
        return None

    def post_global(self, e, res):
        r = res.value
        if e.mode != "sym":
            import re

            ok = re.fullmatch("[_a-zA-Z0-9]*", r) is not None
            nd = not (r[:1].isdigit())
            src = e.name if not re.match("^[0-9_]", e.name) else "v_" + e.name
            keep = len(r) == len(src) and all(a == b for a, b in zip(src, r) if re.match("[_a-zA-Z0-9]", a))
            return {"only_safe_characters": ok, "never_starts_with_digit": nd, "keeps_safe_characters": keep}
        rt = sval(r)
        k = z3.Int("k!char")
        cur().index_seeds.extend([k, z3.IntVal(0)])
        inr = z3.And(k >= 0, k < z3.Length(rt))
        safe = _class_re(SAFE)
        digit = z3.Range("0", "9")
        nt = e.name.term
        starts = z3.And(z3.Length(nt) >= 1, z3.InRe(char_at(nt, 0), _class_re("0-9_")))
        src = z3.If(starts, z3.Concat(z3.StringVal("v_"), nt), nt)
        return {
            "only_safe_characters": z3.Implies(inr, z3.InRe(char_at(rt, k), safe)),
            "never_starts_with_digit": z3.Implies(z3.Length(rt) >= 1, z3.Not(z3.InRe(char_at(rt, 0), digit))),
            "keeps_safe_characters": z3.And(z3.Length(rt) == z3.Length(src), z3.Implies(z3.And(inr, z3.InRe(char_at(src, k), safe)), char_at(rt, k) == char_at(src, k))),
        }

    def grid(self, tier, rng):
        for nm in ("temp", "1temp", "_x", "a.b", "sea water-temp (degC)", "", "é", "9", "a_b"):
            yield {"name": nm}


def cases():
    return [CfSafeName(arg="str"), CfSafeName(arg="int")]


# ------------------------------------------------------------------ column_from_collected_result
_CF = z3.Function("cf_safe_name_spec", z3.StringSort(), z3.StringSort())


def make_cf_stub(orig):
    def cf_stub(name):
        """callee contract of utils.cf_safe_name as seen by callers: result = CF(name) for a string
        (CF characterised by CfSafeName's postconditions); real strings run the function itself"""
        if getattr(cur(), "concrete_mode", False):
            return orig(name)
        cur().use("contract utils.cf_safe_name")
        if not isinstance(name, str):
            raise ValueError("Could not convert to a safe name")
        return SStr(_CF(sval(name)))

    return cf_stub


class _CR:
    """a collected result with symbolic identification strings"""

    def __init__(self, **kw):
        self.__dict__.update(kw)

    def __getattr__(self, attr):
        # an attribute of the real CollectedResult that this stand-in does not carry: undecided, never AttributeError
        from pyvc.ctx import unknown_attr

        return unknown_attr("ioos_qc.results.CollectedResult", attr)


def label_spec(stream, package, test):
    """'<stream>.<package>.<test>' with empty parts (and their dot) left out"""
    dot = z3.StringVal(".")
    e = z3.StringVal("")
    s = z3.If(z3.Length(stream) > 0, z3.Concat(stream, dot), e)
    p = z3.If(z3.Length(package) > 0, z3.Concat(package, dot), e)
    return z3.Concat(s, p, test)


class ColumnName(Case):
    module = "ioos_qc.stores"
    function = "column_from_collected_result"
    default_props = {}
    props = {"post.column_name_is_safe_label": ("C19",), "no-raise": ("C19",)}

    def declare(self, mk):
        e = Env()
        e.mode = mk.mode
        if mk.mode == "sym":
            e.cr = _CR(stream_id=SStr(z3.String("stream")), package=SStr(z3.String("package")), test=SStr(z3.String("test")))
        else:
            v = mk.values
            if mk.mode == "real":
                # the real run hands over what the library hands over: a CollectedResult of the tree under test
                from pyvc import replay

                fn = replay.real_module("ioos_qc.qartod").gross_range_test
                e.cr = replay.real_module("ioos_qc.results").CollectedResult(stream_id=v["stream"], package=v["package"], test=v["test"], function=fn)
            else:
                e.cr = _CR(stream_id=v["stream"], package=v["package"], test=v["test"])
        return e

    def stubs(self, T):
        return [("ioos_qc.stores", "cf_safe_name", make_cf_stub(T.module("ioos_qc.stores").cf_safe_name))]

    def call(self, mod, e):
        return mod.column_from_collected_result(e.cr)

    def callee_cases(self):
        return [CfSafeName(arg="str")]

    def canary(self, e, res, k):
        return None

    def post_global(self, e, res):
        r = res.value
        if e.mode != "sym":
            from pyvc import replay

            cf = replay.real_module("ioos_qc.utils").cf_safe_name
            parts = [p for p in (e.cr.stream_id, e.cr.package) if p] + [e.cr.test or ""]
            return {"column_name_is_safe_label": r == cf(".".join(parts))}
        return {"column_name_is_safe_label": sval(r) == _CF(label_spec(e.cr.stream_id.term, e.cr.package.term, e.cr.test.term))}

    def grid(self, tier, rng):
        for st in ("temp", "", "a.b", "1x"):
            for pk in ("qartod", ""):
                for t in ("gross_range_test", "rollup"):
                    yield {"stream": st, "package": pk, "test": t}


# ------------------------------------------------------------------ PandasStore.save: one arbitrary iteration
class DFModel:
    """pd.DataFrame as an ordered map name -> column: an arbitrary prior content (uninterpreted
    membership) plus the list of columns assigned since"""

    def __init__(self):
        c = cur()
        self.base_has = c.fresh_fun("df_has", z3.StringSort(), z3.BoolSort())
        self.updates = []

    def has(self, name):
        t = sval(name)
        return alg.or_(self.base_has(t), *[u[0] == t for u in self.updates])

    def __pyvc_contains__(self, name):
        from pyvc.values import SBool

        return SBool(self.has(name))

    def __setitem__(self, name, value):
        self.updates.append((sval(name), value))


class SymSet:
    """include / exclude list: membership is an uninterpreted predicate of the item"""

    def __init__(self, tag):
        self.f_str = z3.Function(tag + "_has_str", z3.StringSort(), z3.BoolSort())
        self.f_fun = z3.Function(tag + "_has_function", z3.IntSort(), z3.BoolSort())

    def mem(self, item):
        if isinstance(item, str):
            return self.f_str(sval(item))
        return self.f_fun(z3.IntVal(getattr(item, "fid", 0)))

    def __pyvc_contains__(self, item):
        from pyvc.values import SBool

        return SBool(self.mem(item))


class _Fn:
    fid = 7

    def __init__(self):
        self.__name__ = "probe_test"


class SaveStep(Case):
    """PandasStore.save: the loop over the collected results is cut; the body is executed for one
    arbitrary result from an arbitrary frame, and the columns it adds are compared with the statement.
    params: include, exclude in {False, True} (None / given), write_data, write_axes, axes in {'arrays','none'}"""

    module = "ioos_qc.stores"
    function = "PandasStore.save"
    max_paths = 6000
    default_props = {}
    props = {"loop.results.step.columns_added": ("C19",), "no-raise": ("C19",)}

    def props_of(self, short):
        if short.startswith("loop.results.step."):
            return ("C19",)
        return Case.props_of(self, short)

    def declare(self, mk):
        e = Env()
        e.mode = mk.mode
        return e

    def stubs(self, T):
        return [("ioos_qc.stores", "cf_safe_name", make_cf_stub(T.module("ioos_qc.stores").cf_safe_name))]

    def callee_cases(self):
        return [CfSafeName(arg="str"), ColumnName()]

    def grid(self, tier, rng):
        return []

    def canary(self, e, res, k):
        return None

    def call(self, mod, e):
        from pyvc.loops import CutSeq, LoopCut
        from pyvc.npmodel import Arr
        from pyvc.values import SBool

        c = cur()
        P = self.params

        def arr(name):
            if P["axes"] == "none":
                return None
            n = z3.Int("n_rows") if P["axes"] == "arrays" else 0
            return Arr(n, "f", lambda i: (False, 0), None, name)

        state = {}

        def element(j):
            cr = _CR(
                stream_id=SStr(z3.String("stream")),
                package=SStr(z3.String("package")),
                test=SStr(z3.String("test")),
                function=_Fn(),
                results=Arr(z3.Int("n_rows"), "u", lambda i: (False, 1), None, "results"),
                data=Arr(z3.Int("n_rows"), "f", lambda i: (False, 0), None, "data"),
                tinp=arr("tinp"),
                zinp=arr("zinp"),
                lat=arr("lat"),
                lon=arr("lon"),
            )
            state["cr"] = cr
            return cr

        inc = SymSet("include") if P["include"] else None
        exc = SymSet("exclude") if P["exclude"] else None

        def on_enter(loc, j):
            df = [v for v in loc.values() if isinstance(v, DFModel)]
            state["df"] = df[0]
            state["df"].updates = []  # arbitrary prior frame: only base_has

        def step(loc, j):
            df, cr = state["df"], state["cr"]
            base = df.base_has
            st, pk, ts = cr.stream_id.term, cr.package.term, cr.test.term
            axes = [("time", cr.tinp), ("z", cr.zinp), ("lon", cr.lon), ("lat", cr.lat)]
            exp = []
            have = lambda nm, sofar: alg.or_(base(nm), *[alg.and_(cnd, n2 == nm) for (cnd, n2, _v) in sofar])  # noqa: E731
            for nm, a in axes:
                nmv = z3.StringVal(nm)
                cond = alg.and_(P["write_axes"], a is not None, alg.not_(have(nmv, exp)), (alg.ne(a.n, 0) if a is not None else False))
                exp.append((cond, nmv, a))
            keep = True
            if inc is not None:
                keep = alg.or_(inc.mem(cr.function), inc.mem(cr.stream_id), inc.mem(cr.test))
            if exc is not None:
                keep = alg.and_(keep, alg.not_(alg.or_(exc.mem(cr.function), exc.mem(cr.stream_id), exc.mem(cr.test))))
            cond_d = alg.and_(keep, P["write_data"], alg.not_(have(st, exp)), z3.Length(st) > 0)
            exp.append((cond_d, st, cr.data))
            col = _CF(label_spec(st, pk, ts))
            cond_r = alg.and_(keep, alg.not_(have(col, exp)))
            exp.append((cond_r, col, cr.results))
            act = list(df.updates)
            fs = []
            for cnd, nm, v in exp:
                fs.append(alg.implies(cnd, alg.or_(*[alg.and_(n2 == nm) for (n2, v2) in act if v2 is v])))
            for n2, v2 in act:
                fs.append(alg.or_(*[alg.and_(cnd, n2 == nm) for (cnd, nm, v) in exp if v is v2]))
            return {"columns_added": alg.and_(*fs)}

        cut = LoopCut("results", lambda loc: {}, lambda s_, j, i: {}, length_of=lambda s_: 0)
        cut.stateless = True
        cut.on_enter = on_enter
        cut.step = step
        K = z3.Int("K_results")
        c.assume(K >= 0)
        c.assume(z3.Int("n_rows") >= 1)
        store = mod.PandasStore.__new__(mod.PandasStore)
        store.collected_results = CutSeq(K, element, cut)
        store.axes = {"t": "time", "z": "z", "y": "lat", "x": "lon"}
        g = mod.__dict__
        real_pd = g["pd"]

        class _PD:
            DataFrame = DFModel

        g["pd"] = _PD
        try:
            return mod.PandasStore.save(store, write_data=P["write_data"], write_axes=P["write_axes"], include=inc, exclude=exc)
        finally:
            g["pd"] = real_pd


def cases():  # noqa: F811
    cs = [CfSafeName(arg="str"), CfSafeName(arg="int"), ColumnName()]
    for inc in (False, True):
        for exc in (False, True):
            for wd in (False, True):
                for wa in (False, True):
                    cs.append(SaveStep(include=inc, exclude=exc, write_data=wd, write_axes=wa, axes="arrays"))
    cs.append(SaveStep(include=True, exclude=True, write_data=True, write_axes=True, axes="none"))
    cs.append(SaveStep(include=False, exclude=False, write_data=True, write_axes=True, axes="empty"))
    return cs


# ------------------------------------------------------------------ compute_aggregate (object level)
class ComputeAggregate(Case):
    """PandasStore.compute_aggregate(name): appends one CollectedResult(stream_id="", package="qartod",
    test=name, function=aggregate) whose flags are aggregate(collected results) - aggregate is bound to
    a stub that returns a token for its argument, so the clause checks what is passed and appended"""

    module = "ioos_qc.stores"
    function = "PandasStore.compute_aggregate"
    default_props = {}
    props = {"post.appends_rollup_of_all_results": ("C19", "C04"), "no-raise": ("C19", "C04")}

    def declare(self, mk):
        return Env(mode=mk.mode)

    def grid(self, tier, rng):
        return [{}]

    def canary(self, e, res, k):
        return None

    def call(self, mod, e):
        store = mod.PandasStore.__new__(mod.PandasStore)
        # results of every module a configuration can name, and one that is not a CollectedResult at all
        # (the roll-up takes the collected results as they are, whatever produced them)
        before = [mod.CollectedResult(stream_id="s", package=pkg, test=t, function=len, results=object()) for pkg, t in (("qartod", "gross_range_test"), ("axds", "valid_range_test"), ("argo", "speed_test"), ("qartod", "spike_test"))]
        store.collected_results = list(before)
        seen = {}

        def agg_stub(results):
            seen["arg"] = list(results)
            seen["out"] = object()
            return seen["out"]

        g = mod.__dict__
        real = g["aggregate"]
        g["aggregate"] = agg_stub
        try:
            mod.PandasStore.compute_aggregate(store, name="rollup_x")
        finally:
            g["aggregate"] = real
        return (store, before, seen, agg_stub)

    def post_global(self, e, res):
        store, before, seen, stub = res.value
        cr = store.collected_results
        ok = (
            len(cr) == len(before) + 1
            and all(a is b for a, b in zip(cr, before))
            and seen.get("arg") is not None
            and len(seen["arg"]) == len(before)
            and all(a is b for a, b in zip(seen["arg"], before))
            and cr[-1].stream_id == ""
            and cr[-1].package == "qartod"
            and cr[-1].test == "rollup_x"
            and cr[-1].function is stub
            and cr[-1].results is seen["out"]
        )
        return {"appends_rollup_of_all_results": bool(ok)}


class StoreUnique(Case):
    """bounded: one aligned, uniquely named column per collected result, on the real PandasStore.save
    with stream ids containing characters illegal in CF names"""

    is_bounded = True
    module = "ioos_qc.stores"
    function = "PandasStore.save"
    default_props = {}
    props = {"bounded.one_column_per_result": ("C19",)}

    def all_props(self):
        return {"C19"}

    IDS = ("temp", "a.b", "a_b", "a b", "1a", "v_1a", "é")

    def one(self, ids, tests):
        import numpy as np

        from pyvc import replay

        st = replay.real_module("ioos_qc.stores")
        rs = replay.real_module("ioos_qc.results")
        crs = []
        k = 0
        for sid in ids:
            for t in tests:
                k += 1
                crs.append(rs.CollectedResult(stream_id=sid, package="qartod", test=t, function=len, results=np.ma.array([k, k + 1, k + 2], dtype="uint8"), data=np.array([1.0, 2.0, 3.0]), tinp=np.array([0, 1, 2], dtype="datetime64[s]"), zinp=np.array([]), lat=np.array([]), lon=np.array([])))
        store = st.PandasStore.__new__(st.PandasStore)
        store.collected_results = crs
        store.axes = {"t": "time", "z": "z", "y": "lat", "x": "lon"}
        df = store.save(write_data=False, write_axes=False)
        cols = list(df.columns)
        if len(cols) != len(crs):
            return "%d results but %d columns %r" % (len(crs), len(cols), cols)
        for cr in crs:
            name = st.column_from_collected_result(cr)
            if list(df[name]) != list(cr.results):
                return "column %r does not hold the flags of %s/%s" % (name, cr.stream_id, cr.test)
        return None

    def bounded_checks(self, tier, rng):
        import itertools

        for a, b in itertools.combinations(self.IDS, 2):
            for tests in (("gross_range_test",), ("spike_test", "flat_line_test")):
                region = "colliding-safe-names" if self._collide(a, b) else "distinct-safe-names"
                yield ("%s|%s" % (a, b), region, {"ids": [a, b], "tests": list(tests)}, (lambda a=a, b=b, tests=tests: self.one((a, b), tests)))

    def _collide(self, a, b):
        from pyvc import replay

        cf = replay.real_module("ioos_qc.utils").cf_safe_name
        return cf(a + ".qartod.x") == cf(b + ".qartod.x")

    def replay_bounded(self, label, values):
        return self.one(tuple(values["ids"]), tuple(values["tests"]))


def cases():  # noqa: F811
    cs = [CfSafeName(arg="str"), CfSafeName(arg="int"), ColumnName()]
    for inc in (False, True):
        for exc in (False, True):
            for wd in (False, True):
                for wa in (False, True):
                    cs.append(SaveStep(include=inc, exclude=exc, write_data=wd, write_axes=wa, axes="arrays"))
    cs.append(SaveStep(include=True, exclude=True, write_data=True, write_axes=True, axes="none"))
    cs.append(SaveStep(include=False, exclude=False, write_data=True, write_axes=True, axes="empty"))
    cs.append(ComputeAggregate())
    cs.append(StoreUnique())
    return cs


class StoreFilter(Case):
    """bounded, replayable: include / exclude by stream id, test name or function on the real
    PandasStore.save, every combination of small lists"""

    is_bounded = True
    module = "ioos_qc.stores"
    function = "PandasStore.save"
    default_props = {}
    props = {"bounded.include_exclude": ("C19",)}

    @property
    def name(self):
        return "stores.PandasStore.save[filter]"

    def all_props(self):
        return {"C19"}

    def one(self, inc, exc, ids="plain"):
        import numpy as np

        from pyvc import replay

        st = replay.real_module("ioos_qc.stores")
        rs = replay.real_module("ioos_qc.results")
        fns = {"f1": len, "f2": abs}
        crs = []
        # ids="meta": stream ids and test names made of characters that mean something to glob / regex matching -
        # include and exclude compare names for equality
        triples = (("a", "t1", "f1"), ("a", "t2", "f2"), ("b", "t1", "f2")) if ids == "plain" else (("a[1]", "t1", "f1"), ("a[1]", "t*2", "f2"), ("b?", "t1", "f2"))
        for k, (sid, t, fn) in enumerate(triples):
            crs.append(rs.CollectedResult(stream_id=sid, package="qartod", test=t, function=fns[fn], results=np.ma.array([k + 1, k + 2], dtype="uint8"), data=np.array([1.0, 2.0]), tinp=np.array([0, 1], dtype="datetime64[s]"), zinp=np.array([]), lat=np.array([]), lon=np.array([])))
        conv = lambda lst: None if lst is None else [fns.get(x, x) for x in lst]  # noqa: E731
        store = st.PandasStore.__new__(st.PandasStore)
        store.collected_results = crs
        store.axes = {"t": "time", "z": "z", "y": "lat", "x": "lon"}
        try:
            df = store.save(write_data=False, write_axes=False, include=conv(inc), exclude=conv(exc))
        except Exception as e:  # noqa: BLE001
            return "save(include=%r, exclude=%r) raised %r" % (inc, exc, e)
        keep = []
        for cr, fn in zip(crs, ("f1", "f2", "f2")):
            keys = {cr.stream_id, cr.test, fn}
            k_ = (inc is None or keys & set(inc)) and not (exc is not None and keys & set(exc))
            if k_:
                keep.append(st.column_from_collected_result(cr))
        if sorted(df.columns) != sorted(keep):
            return "include=%r exclude=%r: columns %s, statement %s" % (inc, exc, sorted(df.columns), sorted(keep))
        return None

    def bounded_checks(self, tier, rng):
        lists = [None, [], ["a"], ["t2"], ["f1"], ["zzz"], ["a", "t2"], ["b", "f2"]]
        for inc in lists:
            for exc in lists:
                yield ("include=%s|exclude=%s" % (inc, exc), "filter", {"include": inc, "exclude": exc}, (lambda i=inc, x=exc: self.one(i, x)))
        lists = [None, ["a[1]"], ["t*2"], ["b?"], ["a*"], ["t1", "b?"], ["a[1]", "f2"]]
        for inc in lists:
            for exc in lists:
                yield ("include=%s|exclude=%s|meta" % (inc, exc), "filter", {"include": inc, "exclude": exc, "ids": "meta"}, (lambda i=inc, x=exc: self.one(i, x, "meta")))

    def replay_bounded(self, label, values):
        return self.one(values["include"], values["exclude"], values.get("ids", "plain"))


class StoreEndToEnd(Case):
    """bounded: the frame PandasStore.save returns for a run of the real stream front ends - one row per
    input row in input order; the flag column of every test equals the direct call on the rows, the data
    column equals the input, the axes columns equal the source, the roll-up column equals the aggregate of
    the test columns - on tables with default, permuted and offset row labels, with and without a window"""

    is_bounded = True
    module = "ioos_qc.stores"
    function = "PandasStore.save"
    default_props = {}
    props = {"bounded.saved_frame": ("C19",)}

    def all_props(self):
        return {"C19"}

    def one(self, values):
        import logging
        import warnings

        import numpy as np
        import pandas as pd

        from pyvc import replay

        cfgm, stm, stom, qm = (replay.real_module(m) for m in ("ioos_qc.config", "ioos_qc.streams", "ioos_qc.stores", "ioos_qc.qartod"))
        vals = [1.0, 20.0, 3.0, 40.0, 5.0, 60.0]
        secs = [0, 10, 20, 30, 40, 50]
        n = len(vals)
        v = np.array(vals)
        t = np.array([s_ * 10**9 for s_ in secs], dtype="datetime64[ns]")
        z = np.array([1.5 + i for i in range(n)])
        span = {"fail_span": [0, 50], "suspect_span": [2, 30]}
        ctx = {"streams": {"v": {"qartod": {"gross_range_test": span, "spike_test": {"suspect_threshold": 10, "fail_threshold": 30}}}}}
        win = values["window"]
        if win:
            ctx["window"] = {"starting": str(np.datetime64(win[0], "s")), "ending": str(np.datetime64(win[1], "s"))}
        config = cfgm.Config(ctx)
        logging.disable(logging.CRITICAL)
        try:
            with warnings.catch_warnings():
                warnings.simplefilter("ignore")
                if values["front"] == "numpy":
                    st = stm.NumpyStream(inp=v.copy(), time=t.copy(), z=z.copy(), lat=z + 1, lon=z + 2)
                else:
                    df = pd.DataFrame({"time": t, "v": v, "z": z, "lat": z + 1, "lon": z + 2})
                    if values["index"] == "permuted":
                        df = df.set_axis(list(range(n - 1, -1, -1)))
                    elif values["index"] == "offset":
                        df = df.set_axis([100 - 7 * i for i in range(n)])
                    st = stm.PandasStream(df)
                store = stom.PandasStore(st.run(config))
                if values["rollup"]:
                    store.compute_aggregate(name="rollup")
                inc, exc = values.get("include"), values.get("exclude")
                out = store.save(write_data=values["write_data"], write_axes=values["write_axes"], include=inc, exclude=exc)
        except Exception as e:  # noqa: BLE001
            return "%s raised %r" % (values, e)
        finally:
            logging.disable(logging.NOTSET)
        def passes(stream, test):
            keys = {stream, test}
            return (inc is None or bool(keys & set(inc))) and not (exc is not None and bool(keys & set(exc)))

        kept_any = values["write_axes"] or any(passes("v", t_) for t_ in ("gross_range_test", "spike_test")) or (values["rollup"] and passes("", "rollup"))
        if len(out) != n and kept_any:
            return "%d rows in the saved frame for %d input rows" % (len(out), n)
        rows = [i for i in range(n) if (not win) or (win[0] <= secs[i] < win[1])]
        exp = {}
        with warnings.catch_warnings():
            warnings.simplefilter("ignore")
            exp["v_qartod_gross_range_test"] = qm.gross_range_test(v[rows], **span)
            exp["v_qartod_spike_test"] = qm.spike_test(v[rows], suspect_threshold=10, fail_threshold=30)
        cols = {}
        for name, fl in exp.items():
            want = {i: int(f) for i, f in zip(rows, np.ma.filled(np.ma.masked_array(fl), 255).tolist())}
            cols[name] = [want.get(i) for i in range(n)]
            if not passes("v", name[len("v_qartod_"):]):
                if name in out.columns:
                    return "column %s present although the include/exclude lists drop it (include=%r exclude=%r)" % (name, inc, exc)
                continue
            if name not in out.columns:
                return "no column %s in %s" % (name, list(out.columns))
            col = out[name].to_numpy()
            want = {i: int(f) for i, f in zip(rows, np.ma.filled(np.ma.masked_array(fl), 255).tolist())}
            for i in range(n):
                got = col[i]
                present = not (got is None or (isinstance(got, float) and got != got) or got is np.ma.masked or (hasattr(pd, "isna") and pd.isna(got)))
                if i in want and (not present or int(got) != want[i]):
                    return "column %s row %d holds %r, the direct call gives %d" % (name, i, got, want[i])
                if i not in want and present:
                    return "column %s row %d (not evaluated) holds %r" % (name, i, got)
        if values["write_data"] and (passes("v", "gross_range_test") or passes("v", "spike_test")):
            if "v" not in out.columns:
                return "no data column"
            d = out["v"].to_numpy()
            for i in rows:
                if not (float(d[i]) == float(v[i])):
                    return "data column row %d holds %r, input %r (frame not in input order?)" % (i, d[i], v[i])
        if values["write_axes"]:
            for name, src in (("time", t), ("z", z), ("lat", z + 1), ("lon", z + 2)):
                if name not in out.columns:
                    return "write_axes: no axis column %s (columns %s, include=%r exclude=%r)" % (name, list(out.columns), inc, exc)
                a = out[name].to_numpy()
                for i in rows:
                    if not (a[i] == src[i]):
                        return "axis column %s row %d holds %r, source %r" % (name, i, a[i], src[i])
        if values["rollup"] and not passes("", "rollup"):
            if any(c_.endswith("rollup") for c_ in out.columns):
                return "roll-up column present although the lists drop it"
        elif values["rollup"]:
            names = [c_ for c_ in out.columns if c_.endswith("rollup")]
            if len(names) != 1:
                return "roll-up columns: %r" % names
            r = out[names[0]].to_numpy()
            order = {9: 0, 2: 1, 1: 2, 3: 3, 4: 4}
            for i in range(n):
                present = [cols[c_][i] for c_ in cols if cols[c_][i] is not None]
                want = max(present, key=lambda f_: order[f_]) if present else 9
                if int(r[i]) != want:
                    return "roll-up row %d holds %r, the worst of the test columns is %d" % (i, r[i], want)
        return None

    def bounded_checks(self, tier, rng):
        for front, index in (("numpy", "default"), ("pandas", "default"), ("pandas", "permuted"), ("pandas", "offset")):
            for window in (None, [10, 40]):
                for wd in (False, True):
                    for wa in (False, True):
                        for ru in ((False, True) if (wd and wa) else (False,)):
                            v = {"front": front, "index": index, "window": window, "write_data": wd, "write_axes": wa, "rollup": ru}
                            yield ("saved-frame", "saved-frame", v, (lambda v=v: self.one(v)))
        # include / exclude lists together with write_axes / write_data / the roll-up: the axes come with the frame
        # whatever the lists keep
        for front, index in (("numpy", "default"), ("pandas", "offset")):
            for inc, exc in ((["rollup"], None), (["spike_test"], None), (["zzz"], None), (None, ["gross_range_test"]), (None, ["v"]), (["v"], ["spike_test"])):
                for wd, wa in ((False, True), (True, True), (True, False)):
                    v = {"front": front, "index": index, "window": None, "write_data": wd, "write_axes": wa, "rollup": True, "include": inc, "exclude": exc}
                    yield ("saved-frame", "saved-frame", v, (lambda v=v: self.one(v)))

    def replay_bounded(self, label, values):
        return self.one(values)


_cases_without_filter = cases


def cases():  # noqa: F811
    cs = [c for c in _cases_without_filter() if not isinstance(c, StoreFilter)]
    cs.append(StoreFilter())
    cs.append(StoreEndToEnd())
    return cs
