"""Contracts: streams.NumpyStream.run, PandasStream.run, config.Call.run, QcConfig.run (C05, C18).

The configuration *structure* (contexts, streams, tests, which window bounds are present) is
enumerated over a small set of shapes (bounded, listed in `SHAPES`); for each shape the table length,
the table contents, the time axis and the window bounds are symbolic, so the obligations hold for
every table and every window position.

Test functions are probes (module ioos_qc.pyvc_probe, registered only inside the checks): a probe
records the keyword arguments it receives and returns a flag array that is an uninterpreted function
of (probe, row).  Row subsets are kept in the canonical form (base column, selection predicate), so
"the flags reported equal the direct call on the window rows" reduces to: every argument handed to the
probe is the base column filtered by exactly the window predicate
        in_window(i)  <=>  (start absent or t[i] >= start) and (end absent or t[i] < end)
and the yielded ContextResult carries that predicate and the probe's return value."""
import sys
import types

import z3

from pyvc import alg
from pyvc.ctx import cur
from pyvc.npmodel import Arr, Selection
from pyvc.pdmodel import Timestamp
from pyvc.values import SNum

from .common import Case, Env

PROBE_MOD = "ioos_qc.pyvc_probe"
FL = {name: z3.Function("probe_flags_" + name, z3.IntSort(), z3.IntSort()) for name in ("alpha", "beta", "boom")}

LOG = []


def _flags_like(name, inp):
    if hasattr(inp, "to_numpy") and not isinstance(inp, Selection):
        inp = inp.to_numpy()
    if isinstance(inp, Selection):
        base = Arr(inp.base_n, "u", lambda i: (False, FL[name](alg.lift(i))))
        sel = Arr(inp.base_n, "b", lambda i: inp.sel(i))
        return Selection(base, sel)
    if isinstance(inp, Arr):
        return Arr(inp.n, "u", lambda i: (False, FL[name](alg.lift(i))))
    import numpy as np

    return np.full(len(inp), 1 if name == "alpha" else 3, dtype="uint8")  # concrete reading


def probe_alpha(inp, tinp, zinp, lat, lon, p=1, q=None):
    LOG.append(("alpha", dict(inp=inp, tinp=tinp, zinp=zinp, lat=lat, lon=lon, p=p, q=q)))
    return _flags_like("alpha", inp)


def probe_beta(inp, tinp, r=0):
    LOG.append(("beta", dict(inp=inp, tinp=tinp, r=r)))
    if r == "boom":
        raise ValueError("probe that rejects this parameter")
    return _flags_like("beta", inp)


def probe_boom(inp, tinp):
    LOG.append(("boom", dict(inp=inp, tinp=tinp)))
    raise ValueError("probe that cannot run")


def install_probes():
    m = types.ModuleType(PROBE_MOD)
    for f in (probe_alpha, probe_beta, probe_boom):
        f.__module__ = PROBE_MOD
        setattr(m, f.__name__, f)
    sys.modules[PROBE_MOD] = m
    import ioos_qc

    ioos_qc.pyvc_probe = m
    return m


# shape: list of contexts; context = (window kind, {stream: [(probe, params)]})
SHAPES = {
    "one-window": [("both", {"v": [("probe_alpha", {"p": 7})]})],
    "start-only": [("start", {"v": [("probe_alpha", {})]})],
    "end-only": [("end", {"v": [("probe_beta", {"r": 2})]})],
    "no-window": [("none", {"v": [("probe_alpha", {"q": 5}), ("probe_beta", {})]})],
    "two-contexts": [("both", {"v": [("probe_alpha", {"p": 1})]}), ("none", {"v": [("probe_beta", {"r": 9})]})],
    # C18: a raising probe, an unknown test, an unknown module and an absent stream among healthy entries
    "faults": [("both", {"v": [("probe_boom", {}), ("probe_alpha", {"p": 3}), ("no_such_test", {})], "ghost_stream": [("probe_beta", {})]})],
    # the same fault kinds at the *first* position of a context (the absent stream listed first, a healthy
    # entry after it) and a second context whose first entry raises
    "faults-first": [("none", {"ghost_stream": [("probe_beta", {})], "v": [("probe_alpha", {"p": 3})]}), ("both", {"v": [("probe_boom", {}), ("probe_beta", {"r": 4})]})],
    # an unknown test name listed before healthy tests of the same module and stream, and in the middle
    "faults-name-first": [("none", {"v": [("no_such_test", {}), ("probe_alpha", {"p": 3}), ("no_such_test_2", {}), ("probe_beta", {})]})],
    # the SAME test configured twice for one stream in two contexts with the same (absent) window - once healthy,
    # once with a parameter it rejects at run time - in both orders
    "dup-then-fault": [("none", {"v": [("probe_beta", {"r": 1}), ("probe_alpha", {"p": 2})]}), ("none", {"v": [("probe_beta", {"r": "boom"})]})],
    "dup-fault-first": [("both", {"v": [("probe_beta", {"r": "boom"})]}), ("both", {"v": [("probe_alpha", {"p": 2}), ("probe_beta", {"r": 1})]})],
}


class StreamRun(Case):
    """params: stream in {'numpy','pandas','qcconfig'}, shape in SHAPES, aux in {'all','none'}"""

    module = "ioos_qc.streams"
    function = "NumpyStream.run"
    index_offsets = (0,)
    default_props = {}
    props = {
        "post.window_rows_and_arguments": ("C05",),
        "post.one_result_per_healthy_call": ("C05", "C18"),
        "post.failing_entries_yield_nothing": ("C18",),
        "no-raise": ("C05", "C18"),
        "frame": ("C18",),
    }

    def __init__(self, **params):
        Case.__init__(self, **params)
        self.function = {"numpy": "NumpyStream.run", "numpy-dict": "NumpyStream.run", "pandas": "PandasStream.run", "qcconfig": "NumpyStream.run"}[params["stream"]]

    def declare(self, mk):
        e = Env()
        e.mode = mk.mode
        e.n = mk.length("n")
        e.v = mk.series("v", e.n)
        # nat=True: stamps may be missing (NaT); a missing stamp satisfies no window bound
        e.t = mk.times_ns("t", e.n, min_step_ns=None, nat=bool(self.params.get("nat")))
        if self.params["aux"] == "all":
            e.z, e.lat, e.lon = mk.series("z", e.n), mk.series("lat", e.n), mk.series("lon", e.n)
        kinds = {w for (w, _s) in SHAPES[self.params["shape"]]}
        if kinds & {"both", "start"}:
            e.start = mk.dt("start")
        if kinds & {"both", "end"}:
            e.end = mk.dt("end")
        return e

    def regions(self, e, res=None, k=None):
        # NumpyStream: `runinput[subset_indexes].reshape(original_shape)` needs every row selected
        out = {}
        if self.params["stream"] in ("numpy", "numpy-dict", "qcconfig"):
            i = z3.Int("i!rg")
            fs = []
            for (w, _s) in SHAPES[self.params["shape"]]:
                fs.append(z3.Exists([i], z3.And(i >= 0, i < e.n, z3.Not(alg.lift(self.in_window(e, w, i))))))
            out["window-excludes-a-row"] = z3.Or(*fs) if fs else False
        return out

    def grid(self, tier, rng):
        tabs = [([1.0, 2.0, 9.0, 3.0], [0, 10, 20, 30]), ([1.0, None, 2.0], [5, 6, 100]), ([4.0], [50]), ([], [])]
        wins = [(10, 30), (0, 1000), (6, 6), (25, 7)]
        if self.params.get("nat"):
            tabs = [([1.0, 2.0, 9.0, 3.0, 5.0], [0, None, 20, 30, None]), ([1.0, None, 2.0], [None, 6, 100]), ([4.0], [None])] + tabs[:2]
        for vals, times in tabs:
            for (a, b) in wins:
                n = len(vals)
                v = {"n": n, "v": vals, "t": [None if t_ is None else t_ * 10**9 for t_ in times], "z": [1.5] * n, "lat": [2.5] * n, "lon": [3.5] * n, "start": a, "end": b}
                yield v

    def conformance(self, T, values):
        """model-bound stream code on concrete tables vs the real code on numpy / pandas tables: the
        yielded ContextResults must agree (stream ids, number of CallResults, window mask, every array)"""
        import numpy as np

        from pyvc import ctx as C
        from pyvc import replay
        from pyvc.contract import ConcMk, RealMk

        def conc_arr(a):
            if isinstance(a, Selection):
                nb = alg.as_concrete(a.base_n)
                return [self._cv(a.base_elem(i)) for i in range(nb) if self._cb(a.sel(i)[1])]
            if isinstance(a, Arr):
                return [self._cv(a.elem(i)) for i in range(alg.as_concrete(a.n))]
            return "?"

        c = C.Ctx()
        c.concrete_mode = True
        with C.activate(c):
            e = self.declare(ConcMk(values))
            try:
                out, _log, _cfg = self.call(T.module(self.module), e)
                mres = [(cr.stream_id, len(cr.results), [self._cb(cr.subset_indexes.val(i)) for i in range(e.n)], conc_arr(cr.data), conc_arr(cr.tinp), conc_arr(cr.zinp), conc_arr(cr.lat), conc_arr(cr.lon)) for cr in out]
            except C.Unsupported:
                raise
            except Exception as ex:  # noqa: BLE001
                mres = ("raise", type(ex).__name__)
        er = self.declare(RealMk(values))
        try:
            rout = self._real_call(er)

            def lst(a):
                a = np.asarray(a)
                if a.dtype.kind == "M":
                    return [None if nat else int(x) for x, nat in zip(a.astype("datetime64[ns]").astype("int64"), np.isnat(a))]
                return [None if (isinstance(x, float) and x != x) else x for x in a.tolist()]

            rres = [(cr.stream_id, len(cr.results), [bool(b) for b in np.asarray(cr.subset_indexes).tolist()], lst(cr.data), lst(cr.tinp), lst(cr.zinp), lst(cr.lat), lst(cr.lon)) for cr in rout]
        except Exception as ex:  # noqa: BLE001
            rres = ("raise", type(ex).__name__)
        if mres != rres:
            return "model %s vs real %s" % (str(mres)[:300], str(rres)[:300])
        return None

    @staticmethod
    def _cb(x):
        x = alg.as_concrete(x) if alg.is_sym(x) else x
        return bool(x)

    @staticmethod
    def _cv(p):
        nan, v = p
        nan = alg.as_concrete(nan) if alg.is_sym(nan) else nan
        v = alg.as_concrete(v) if alg.is_sym(v) else v
        if nan:
            return None
        return float(v) if not isinstance(v, int) else v

    def _real_call(self, e):
        import pandas as pd

        from pyvc import replay

        install_probes()
        del LOG[:]
        cfgm = replay.real_module("ioos_qc.config")
        stm = replay.real_module("ioos_qc.streams")

        class RealTS:
            pass

        ctxs = []
        for (w, streams) in SHAPES[self.params["shape"]]:
            c_ = {"streams": {}}
            win = {}
            if w in ("both", "start"):
                win["starting"] = pd.Timestamp(e.start)
            if w in ("both", "end"):
                win["ending"] = pd.Timestamp(e.end)
            if win:
                c_["window"] = win
            for sid, tests in streams.items():
                c_["streams"][sid] = {"pyvc_probe": {name: dict(params) for name, params in tests}, "no_such_module": {"x": {}}} if self.params["shape"].startswith("faults") else {"pyvc_probe": {name: dict(params) for name, params in tests}}
            ctxs.append(c_)
        config = cfgm.Config({"contexts": ctxs})
        kind = self.params["stream"]
        aux = {} if self.params["aux"] == "none" else {"z": e.z, "lat": e.lat, "lon": e.lon}
        if kind in ("numpy", "numpy-dict"):
            st = stm.NumpyStream(inp=e.v if kind == "numpy" else {"v": e.v}, time=e.t, **aux)
            return list(st.run(config))
        cols = {"time": e.t, "v": e.v}
        cols.update(aux)
        if self.params.get("oddcols"):
            cols[0] = e.v
            cols[("p", 1)] = e.v
        df = pd.DataFrame(cols)
        if self.params.get("index") == "labels":
            df = df.set_axis([100 - 7 * i for i in range(len(df))])
        return list(stm.PandasStream(df).run(config))

    def canary(self, e, res, k):
        return None

    def in_window(self, e, wkind, i):
        t = e.t.val(i)
        c = []
        if self.params.get("nat") and wkind != "none":
            c.append(alg.not_(e.t.nan(i)))
        if wkind in ("both", "start"):
            c.append(alg.ge(t, e.start.val))
        if wkind in ("both", "end"):
            c.append(alg.lt(t, e.end.val))
        return alg.and_(*c) if c else True

    def _config(self, mod_cfg, e):
        ctxs = []
        for (w, streams) in SHAPES[self.params["shape"]]:
            c_ = {"streams": {}}
            win = {}
            if w in ("both", "start"):
                win["starting"] = Timestamp(e.start.val)
            if w in ("both", "end"):
                win["ending"] = Timestamp(e.end.val)
            if win:
                c_["window"] = win
            for sid, tests in streams.items():
                c_["streams"][sid] = {"pyvc_probe": {name: dict(params) for name, params in tests}, "no_such_module": {"x": {}}} if self.params["shape"].startswith("faults") else {"pyvc_probe": {name: dict(params) for name, params in tests}}
            ctxs.append(c_)
        return mod_cfg.Config({"contexts": ctxs})

    def call(self, mod, e):
        from pyvc import driver, tablemodel

        if getattr(e, "mode", None) == "real":
            # replay / bounded stand-in: the real stream classes on numpy / pandas tables
            out = self._real_call(e)
            return ("real", out, list(LOG), None)
        T = driver.targets()
        install_probes()
        del LOG[:]
        cfgmod = T.module("ioos_qc.config")
        # the stream module's Config / ContextResult come from the private copies
        config = self._config(cfgmod, e)
        kind = self.params["stream"]
        aux = {} if self.params["aux"] == "none" else {"z": e.z, "lat": e.lat, "lon": e.lon}
        if kind in ("numpy", "numpy-dict"):
            st = mod.NumpyStream(inp=e.v if kind == "numpy" else {"v": e.v}, time=e.t, **aux)
            out = list(st.run(config))
        elif kind == "pandas":
            cols = {"time": e.t, "v": e.v}
            cols.update(aux)
            if self.params.get("oddcols"):
                # columns the configuration does not mention, labelled by things that are not strings
                cols[0] = e.v
                cols[("p", 1)] = e.v
            g = mod.__dict__
            real_pd = g["pd"]

            class _PD:
                Series = staticmethod(tablemodel.series_ctor)

            g["pd"] = _PD
            try:
                labels = None
                if self.params.get("index") == "labels" and e.mode != "sym":
                    labels = lambda i: 100 - 7 * i  # noqa: E731
                elif self.params.get("index") == "labels":
                    lab = z3.Function("row_label", z3.IntSort(), z3.IntSort())
                    labels = lambda i: lab(alg.lift(i))  # noqa: E731
                    a, b = z3.Int("a!lab"), z3.Int("b!lab")
                    cur().assume(z3.ForAll([a, b], z3.Implies(z3.And(a >= 0, a < e.n, b >= 0, b < e.n, a != b), lab(a) != lab(b))))
                st = mod.PandasStream(tablemodel.Frame(e.n, cols, labels))
                out = list(st.run(config))
            finally:
                g["pd"] = real_pd
        else:
            raise NotImplementedError(kind)
        return (out, list(LOG), config)

    # ------------------------------------------------------------------ specification
    def expected_calls(self):
        """healthy (context index, window kind, stream, probe, params) in yield order"""
        out = []
        for ci, (w, streams) in enumerate(SHAPES[self.params["shape"]]):
            for sid, tests in streams.items():
                if sid != "v" and self.params["stream"] != "numpy":
                    continue  # stream id absent from the data: skipped (a bare ndarray input has no ids:
                    # NumpyStream then runs every configured stream on the one array)
                for name, params in tests:
                    if name in ("probe_alpha", "probe_beta", "probe_boom"):
                        out.append((ci, w, sid, name, params))
        return out

    def _post_real(self, e, out, log):
        """the same clauses evaluated on a run of the real stream classes (concrete table)"""
        import numpy as np

        cv = lambda x: (alg.as_concrete(x) if alg.is_sym(x) else x)  # noqa: E731
        n = cv(e.n)
        t = [None if cv(e.t.nan(i)) is True else int(cv(e.t.val(i))) for i in range(n)]

        def column(col):
            return [None if cv(col.nan(i)) else float(cv(col.val(i))) for i in range(n)]

        cols = {"inp": column(e.v), "tinp": t}
        have_aux = self.params["aux"] == "all"
        if have_aux:
            cols.update({"zinp": column(e.z), "lat": column(e.lat), "lon": column(e.lon)})

        def inw(w, i):
            ok = True
            if w != "none" and t[i] is None:
                return False
            if w in ("both", "start"):
                ok = ok and t[i] >= int(cv(e.start.val))
            if w in ("both", "end"):
                ok = ok and t[i] < int(cv(e.end.val))
            return ok

        def as_list(a):
            a = np.asarray(a.to_numpy() if hasattr(a, "to_numpy") else a)
            if a.dtype.kind == "M":
                return [None if nat else int(x) for x, nat in zip(a.astype("datetime64[ns]").astype("int64"), np.isnat(a))]
            return [None if (isinstance(x, float) and x != x) else (float(x) if isinstance(x, (int, float, np.number)) else x) for x in a.tolist()]

        exp = self.expected_calls()
        if len(out) != len(exp):
            return {"one_result_per_healthy_call": False}
        okc = oka = okf = True
        li = 0
        for (cr, (ci, w, sid, name, params)) in zip(out, exp):
            short = name.replace("probe_", "")
            mask = [inw(w, i) for i in range(n)]
            rows = [i for i in range(n) if mask[i]]
            okc = okc and cr.stream_id == sid
            oka = oka and [bool(b) for b in np.asarray(cr.subset_indexes).tolist()] == mask
            if short == "alpha" and not have_aux:
                okf = okf and len(cr.results) == 0
                continue
            if li >= len(log) or log[li][0] != short:
                return {"one_result_per_healthy_call": False}
            kw = log[li][1]
            li += 1
            want = ["inp", "tinp"] + (["zinp", "lat", "lon"] if short == "alpha" else [])
            for an in want:
                oka = oka and as_list(kw.get(an)) == [cols[an][i] for i in rows]
            for pn, pv in params.items():
                oka = oka and kw.get(pn) == pv
            if short == "boom" or params.get("r") == "boom":
                okf = okf and len(cr.results) == 0
                continue
            okc = okc and len(cr.results) == 1
            if len(cr.results) == 1:
                r = cr.results[0]
                okc = okc and r.package == "pyvc_probe" and r.test == name
                oka = oka and [int(x) for x in np.asarray(r.results).tolist()] == [1 if short == "alpha" else 3] * len(rows)
            oka = oka and as_list(cr.data) == [cols["inp"][i] for i in rows]
        okc = okc and li == len(log)
        return {"window_rows_and_arguments": bool(oka), "one_result_per_healthy_call": bool(okc), "failing_entries_yield_nothing": bool(okf)}

    def post_global(self, e, res):
        if isinstance(res.value, tuple) and res.value and res.value[0] == "real":
            return self._post_real(e, res.value[1], res.value[2])
        out, log, config = res.value
        exp = self.expected_calls()
        k = z3.Int("k!row")
        cur().index_seeds.append(k)
        inr = alg.and_(alg.le(0, k), alg.lt(k, e.n))
        have_aux = self.params["aux"] == "all"
        # every configured runnable call yields one ContextResult, in order; a raising one yields no CallResult
        if len(out) != len(exp):
            return {"one_result_per_healthy_call": False}
        okc, okf, oka = [], [], []
        li = 0
        for (cr, (ci, w, sid, name, params)) in zip(out, exp):
            short = name.replace("probe_", "")
            pred = lambda i, w=w: self.in_window(e, w, i)  # noqa: E731
            okc.append(cr.stream_id == sid)
            # subset_indexes is the window predicate
            sub = cr.subset_indexes
            oka.append(alg.eq(sub.n, e.n))
            oka.append(alg.implies(inr, alg.iff(sub.val(k), pred(k))))
            if short == "alpha" and not have_aux:
                # the stream supplies no depth / position: the call cannot be made and drops out (C18)
                okf.append(len(cr.results) == 0)
                continue
            # the probe was called once with the window rows of every column it accepts
            if li >= len(log) or log[li][0] != short:
                return {"one_result_per_healthy_call": False}
            kw = log[li][1]
            li += 1
            want = {"inp": e.v, "tinp": e.t}
            if short == "alpha":
                want.update({"zinp": e.z, "lat": e.lat, "lon": e.lon} if have_aux else {})
            for an, col in want.items():
                a = kw.get(an)
                if hasattr(a, "to_numpy") and not isinstance(a, Selection):
                    a = a.to_numpy()  # a pandas column of the subset frame
                if hasattr(a, "arr") and isinstance(getattr(a, "arr", None), Selection):
                    a = a.arr
                if not isinstance(a, Selection):
                    oka.append(False)
                    continue
                oka.append(alg.eq(a.base_n, e.n))
                oka.append(alg.implies(inr, alg.and_(alg.iff(a.sel(k)[1], pred(k)), alg.eq(a.base_elem(k)[1], col.val(k)), alg.iff(a.base_elem(k)[0], col.nan(k)))))
            # configured parameters reach the probe, defaults otherwise
            for pn, pv in params.items():
                oka.append(kw.get(pn) == pv)
            if short == "boom" or params.get("r") == "boom":
                okf.append(len(cr.results) == 0)
                continue
            okc.append(len(cr.results) == 1)
            if len(cr.results) == 1:
                r = cr.results[0]
                okc.append(r.package == "pyvc_probe" and r.test == name)
                fl = r.results
                if isinstance(fl, Selection):
                    oka.append(alg.implies(inr, alg.and_(alg.iff(fl.sel(k)[1], pred(k)), alg.eq(fl.base_elem(k)[1], FL[short](k)))))
                else:
                    oka.append(False)
            d = cr.data
            if isinstance(d, Selection):
                oka.append(alg.implies(inr, alg.and_(alg.iff(d.sel(k)[1], pred(k)), alg.eq(d.base_elem(k)[1], e.v.val(k)))))
            else:
                oka.append(False)
        okc.append(li == len(log))
        return {
            "window_rows_and_arguments": alg.and_(*oka),
            "one_result_per_healthy_call": alg.and_(*[bool(x) if not alg.is_sym(x) else x for x in okc]),
            "failing_entries_yield_nothing": alg.and_(*okf) if okf else True,
        }


def cases():
    cs = []
    for stream in ("numpy", "numpy-dict", "pandas"):
        for shape in SHAPES:
            cs.append(StreamRun(stream=stream, shape=shape, aux="all"))
        cs.append(StreamRun(stream=stream, shape="one-window", aux="none"))
    cs.append(StreamRun(stream="pandas", shape="one-window", aux="all", index="labels"))
    cs.append(StreamRun(stream="pandas", shape="faults", aux="all", index="labels"))
    return cs


# ------------------------------------------------------------------ Call.run over a key universe
class CallRun(Case):
    """config.Call.run: exhaustive over all configured/passed keyword sets drawn from a small universe
    of names (the code only tests names for membership, so a universe containing every equality
    pattern - configured only, passed only, both, accepted by the function or not - is representative)
    and over four callee behaviours.  Values are concrete arrays / numbers."""

    is_bounded = True
    module = "ioos_qc.config"
    function = "Call.run"
    default_props = {}
    props = {"bounded.call_run": ("C05", "C18")}

    def all_props(self):
        return {"C05", "C18"}

    CONF = ("a", "b", "junk", "inp")
    PASSED = ("inp", "tinp", "zinp", "a")

    def one(self, conf_keys, passed_keys, behaviour):
        import itertools
        from functools import partial

        import numpy as np

        from pyvc import replay

        cfg = replay.real_module("ioos_qc.config")
        seen = {}

        def probe(inp, tinp, a=1, b=2, *args, kwonly=None, **kw):
            seen["kwargs"] = dict(inp=inp, tinp=tinp, a=a, b=b, kwonly=kwonly, kw=kw, args=args)
            if behaviour == "raises":
                raise ValueError("no")
            if behaviour == "mutates":
                inp[:] = -1
            return "FLAGS"

        probe.__module__ = "ioos_qc.pyvc_probe"
        cvals = {"a": 10, "b": 20, "junk": 30, "inp": np.array([7.0, 8.0])}
        pvals = {"inp": np.array([1.0, 2.0]), "tinp": np.array([3.0, 4.0]), "zinp": np.array([5.0, 6.0]), "a": 99}
        conf = {k: cvals[k] for k in conf_keys}
        passed = {k: pvals[k] for k in passed_keys}
        keep = {k: v.copy() if hasattr(v, "copy") else v for k, v in passed.items()}
        call = cfg.Call(stream_id="s", call=partial(probe, (), **conf))
        try:
            out = call.run(**passed)
        except BaseException as e:  # noqa: BLE001
            return "Call.run raised %r" % (e,)
        merged = dict(conf)
        merged.update(passed)
        kspec = {k: v for k, v in merged.items() if k in ("inp", "tinp", "a", "b")}
        runnable = "inp" in kspec and "tinp" in kspec
        for k, v in passed.items():
            if hasattr(v, "copy") and not np.array_equal(v, keep[k]):
                return "caller's array %s was modified" % k
        if not runnable or behaviour == "raises":
            return None if out == [] else "expected no result, got %r" % (out,)
        if len(out) != 1:
            return "expected one CallResult, got %r" % (out,)
        r = out[0]
        if (r.package, r.test, r.function, r.results) != ("pyvc_probe", "probe", probe, "FLAGS"):
            return "wrong CallResult %r" % (r,)
        got = seen["kwargs"]
        for k in ("inp", "tinp", "a", "b"):
            exp = kspec.get(k, {"a": 1, "b": 2}.get(k))
            g = got[k]
            if behaviour == "mutates" and k == "inp":
                continue
            same = np.array_equal(g, exp) if hasattr(exp, "shape") else g == exp
            if not same:
                return "argument %s: got %r expected %r" % (k, g, exp)
        if got["kw"] or got["args"] or got["kwonly"] is not None:
            return "names outside the function's positional-or-keyword parameters were passed: %r" % (got,)
        return None

    def bounded_checks(self, tier, rng):
        import itertools

        for rc in range(len(self.CONF) + 1):
            for ck in itertools.combinations(self.CONF, rc):
                for rp in range(len(self.PASSED) + 1):
                    for pk in itertools.combinations(self.PASSED, rp):
                        for beh in ("returns", "raises", "mutates"):
                            lab = "conf=%s|passed=%s|%s" % (",".join(ck), ",".join(pk), beh)
                            yield (lab, "call-run", {"conf": list(ck), "passed": list(pk), "behaviour": beh}, (lambda ck=ck, pk=pk, beh=beh: self.one(ck, pk, beh)))

    def replay_bounded(self, label, values):
        return self.one(tuple(values["conf"]), tuple(values["passed"]), values["behaviour"])


def json_copy(x):
    import copy

    return copy.deepcopy(x)


class FrontEnds(Case):
    """bounded: all five front ends (NumpyStream, PandasStream, NetcdfStream, XarrayStream and
    QcConfig.run) on concrete small tables give the flags of the direct call on the window rows"""

    is_bounded = True
    module = "ioos_qc.streams"
    function = "XarrayStream.run"
    default_props = {}
    props = {"bounded.front_ends_agree_with_direct_call": ("C05",)}

    def all_props(self):
        return {"C05"}

    def _direct(self, vals, times, z, window, span=(0, 5)):
        import numpy as np

        from pyvc import replay

        q = replay.real_module("ioos_qc.qartod")
        t = np.array(times, dtype="datetime64[s]").astype("datetime64[ns]")
        sel = np.ones(len(vals), dtype=bool)
        if window[0] is not None:
            sel &= t >= np.datetime64(window[0], "s")
        if window[1] is not None:
            sel &= t < np.datetime64(window[1], "s")
        out = {}
        x = np.array(vals, dtype=float)[sel]
        out["gross_range_test"] = (sel, q.gross_range_test(x, fail_span=tuple(span)))
        out["rate_of_change_test"] = (sel, q.rate_of_change_test(x, t[sel], threshold=1.0))
        # tests that take the depth and the position columns: those must be restricted to the same rows
        zz, la, lo = (np.array(c_, dtype=float)[sel] for c_ in z)
        out["density_inversion_test"] = (sel, q.density_inversion_test(x, zz, suspect_threshold=0.5, fail_threshold=-1.0))
        out["location_test"] = (sel, q.location_test(lo, la, bbox=(-10, -10, 40, 14), range_max=400000))
        return out

    def one(self, front, vals, times, window, history=None):
        import warnings

        import numpy as np
        import pandas as pd
        import xarray as xr

        from pyvc import replay

        cfgm = replay.real_module("ioos_qc.config")
        stm = replay.real_module("ioos_qc.streams")
        rsm = replay.real_module("ioos_qc.results")
        n = len(vals)
        # depth, latitude and longitude columns with distinct values per row
        z = ([1.0 + 2.5 * i for i in range(n)], [2.0 + 3.0 * i for i in range(n)], [5.0 + 11.0 * i * (-1) ** i for i in range(n)])
        conf = {"streams": {"v": {"qartod": {"gross_range_test": {"fail_span": [0, 5]}, "rate_of_change_test": {"threshold": 1.0}, "density_inversion_test": {"suspect_threshold": 0.5, "fail_threshold": -1.0}, "location_test": {"bbox": [-10, -10, 40, 14], "range_max": 400000}}}}}
        win = {}
        if history == "local-tz":
            # the window bounds as naive python datetimes (what an offset-less YAML timestamp loads as), in a process
            # whose local time zone is not UTC: naive stamps are compared with the naive time axis as they are
            import datetime as _dt
            import os as _os
            import time as _time

            mkb = lambda s_: _dt.datetime(1970, 1, 1) + _dt.timedelta(seconds=s_)  # noqa: E731
            old_tz = _os.environ.get("TZ")
            _os.environ["TZ"] = "EST5EDT"
            _time.tzset()
        else:
            mkb = lambda s_: pd.Timestamp(s_, unit="s")  # noqa: E731
        if window[0] is not None:
            win["starting"] = mkb(window[0])
        if window[1] is not None:
            win["ending"] = mkb(window[1])
        if win:
            conf["window"] = win
        try:
            return self._one(front, vals, times, window, history, conf, win, z, cfgm, stm, rsm)
        finally:
            if history == "local-tz":
                if old_tz is None:
                    _os.environ.pop("TZ", None)
                else:
                    _os.environ["TZ"] = old_tz
                _time.tzset()

    def _one(self, front, vals, times, window, history, conf, win, z, cfgm, stm, rsm):
        import warnings

        import numpy as np
        import pandas as pd
        import xarray as xr

        n = len(vals)
        t = pd.to_datetime(np.array(times, dtype="int64"), unit="s")
        df = pd.DataFrame({"time": t, "v": np.array(vals, dtype=float), "z": z[0], "lat": z[1], "lon": z[2]})
        with warnings.catch_warnings():
            warnings.simplefilter("ignore")
            try:
                cfg = cfgm.Config(conf)
                span = (0, 5)

                def make_stream():
                    if front == "numpy":
                        return stm.NumpyStream(df["v"].to_numpy(), df["time"].to_numpy(), df["z"].to_numpy(), df["lat"].to_numpy(), df["lon"].to_numpy())
                    if front == "pandas":
                        return stm.PandasStream(df)
                    if front == "netcdf":
                        return stm.NetcdfStream(xr.Dataset.from_dataframe(df.set_index("time")))
                    return stm.XarrayStream(xr.Dataset.from_dataframe(df.set_index("time")))

                if history == "edit-after-run" and front != "qcconfig":
                    # history: the configuration object is run once, then its calls are edited in place (the
                    # class documents the list as editable until run), then it is run again: the second run
                    # must report the edited configuration
                    list(make_stream().run(cfg))
                    conf2 = json_copy(conf)
                    conf2["streams"]["v"]["qartod"]["gross_range_test"] = {"fail_span": [0, 2]}
                    cfg.calls[:] = cfgm.Config(conf2).calls
                    span = (0, 2)
                if front in ("numpy", "pandas", "netcdf", "xarray"):
                    res = make_stream().run(cfg)
                else:
                    if win:
                        return None  # QcConfig.run takes a bare test mapping (no window)
                    qc = cfgm.QcConfig(conf["streams"]["v"])
                    got = qc.run(inp=list(vals), tinp=df["time"].to_numpy(), zinp=z[0], lat=z[1], lon=z[2])
                    res = None
                if res is not None:
                    got = rsm.collect_results(list(res), how="dict").get("v", {})
            except Exception as e:  # noqa: BLE001
                return "%s raised %r" % (front, e)
        exp = self._direct(vals, times, z, window, span)
        for test, (sel, flags) in exp.items():
            g = got.get("qartod", {}).get(test)
            if g is None:
                return "%s: no result for %s" % (front, test)
            g = np.asarray(g)
            if len(g) != n:
                return "%s: %s has %d entries for %d rows" % (front, test, len(g), n)
            want = np.full(n, 2, dtype=int)
            want[sel] = np.asarray(flags)
            if not np.array_equal(g.astype(int), want):
                return "%s: %s flags %s, direct call on the window rows gives %s" % (front, test, g.tolist(), want.tolist())
        return None

    def bounded_checks(self, tier, rng):
        tables = [([1.0, 2.0, 9.0, 3.0], [0, 10, 20, 30]), ([1.0, 7.0, 2.0], [5, 6, 100]), ([4.0], [50]), ([], [])]
        windows = [(None, None), (10, 30), (0, 1000), (10, None), (None, 20), (6, 6)]
        for front in ("numpy", "pandas", "netcdf", "xarray", "qcconfig"):
            for vals, times in tables:
                for w in windows:
                    region = front if front != "xarray" else "xarray:%s" % ("both" if w[0] is not None and w[1] is not None else ("none" if w == (None, None) else "one-bound"))
                    yield ("%s|n=%d|%s" % (front, len(vals), w), region, {"front": front, "vals": vals, "times": times, "window": list(w)}, (lambda f=front, v=vals, t=times, w=w: self.one(f, v, t, w)))
        for front in ("numpy", "pandas", "netcdf"):
            vals, times = tables[0]
            for w in ((10, 30), (10, None), (None, 20)):
                yield ("%s|local-tz|%s" % (front, w), front, {"front": front, "vals": vals, "times": times, "window": list(w), "history": "local-tz"}, (lambda f=front, v=vals, t=times, w=w: self.one(f, v, t, w, "local-tz")))
        for front in ("numpy", "pandas", "netcdf"):
            vals, times = tables[0]
            for w in ((None, None), (10, 30)):
                yield ("%s|edit-after-run|%s" % (front, w), front, {"front": front, "vals": vals, "times": times, "window": list(w), "history": "edit-after-run"}, (lambda f=front, v=vals, t=times, w=w: self.one(f, v, t, w, "edit-after-run")))

    def replay_bounded(self, label, values):
        return self.one(values["front"], values["vals"], values["times"], tuple(values["window"]), values.get("history"))


def cases():  # noqa: F811
    cs = []
    for stream in ("numpy", "numpy-dict", "pandas"):
        for shape in SHAPES:
            cs.append(StreamRun(stream=stream, shape=shape, aux="all"))
        cs.append(StreamRun(stream=stream, shape="one-window", aux="none"))
    cs.append(StreamRun(stream="pandas", shape="one-window", aux="all", index="labels"))
    cs.append(StreamRun(stream="pandas", shape="faults", aux="all", index="labels"))
    for shape in ("faults", "faults-first", "one-window"):
        cs.append(StreamRun(stream="pandas", shape=shape, aux="all", oddcols=True))
    # time axes with missing stamps (NaT): a missing stamp lies in no bounded window
    for stream in ("numpy", "pandas"):
        for shape in ("one-window", "start-only", "end-only", "no-window"):
            cs.append(StreamRun(stream=stream, shape=shape, aux="all", nat=True))
    cs.append(CallRun())
    cs.append(FrontEnds())
    return cs


class QcConfigRun(Case):
    """config.QcConfig.run(inp=..., tinp=..., zinp=...): a bare test mapping on one series; the dict
    result holds, for every configured runnable test, the probe's flags for all rows"""

    module = "ioos_qc.config"
    function = "QcConfig.run"
    index_offsets = (0,)
    default_props = {}
    props = {"post.flags_of_direct_call_on_all_rows": ("C05",), "no-raise": ("C05", "C18")}

    def declare(self, mk):
        e = Env()
        e.mode = mk.mode
        e.n = mk.length("n")
        e.v = mk.series("v", e.n)
        e.t = mk.times_ns("t", e.n, min_step_ns=None)
        e.z = mk.series("z", e.n)
        return e

    def grid(self, tier, rng):
        return []

    def canary(self, e, res, k):
        return None

    def call(self, mod, e):
        install_probes()
        del LOG[:]
        import warnings

        with warnings.catch_warnings():
            warnings.simplefilter("ignore")
            qc = mod.QcConfig({"pyvc_probe": {"probe_beta": {"r": 2}, "probe_boom": {}, "no_such_test": {}}})
            return (qc.run(inp=e.v, tinp=e.t, zinp=e.z), list(LOG))

    def post_global(self, e, res):
        out, log = res.value
        k = z3.Int("k!row")
        cur().index_seeds.append(k)
        inr = alg.and_(alg.le(0, k), alg.lt(k, e.n))
        try:
            a = out["pyvc_probe"]["probe_beta"]
        except (KeyError, TypeError):
            return {"flags_of_direct_call_on_all_rows": False}
        ok = [set(out.keys()) == {"pyvc_probe"}, set(out["pyvc_probe"].keys()) == {"probe_beta"}, isinstance(a, Arr)]
        if not all(ok):
            return {"flags_of_direct_call_on_all_rows": False}
        kw = [l_[1] for l_ in log if l_[0] == "beta"]
        args_ok = []
        if len(kw) == 1:
            for an, col in (("inp", e.v), ("tinp", e.t)):
                arg = kw[0][an]
                if hasattr(arg, "arr") and isinstance(getattr(arg, "arr", None), Selection):
                    arg = arg.arr
                if isinstance(arg, Selection):
                    args_ok.append(alg.implies(inr, alg.and_(arg.sel(k)[1], alg.eq(arg.base_elem(k)[1], col.val(k)))))
                elif isinstance(arg, Arr):
                    args_ok.append(alg.implies(inr, alg.eq(arg.val(k), col.val(k))))
                else:
                    args_ok.append(False)
            args_ok.append(kw[0]["r"] == 2)
        else:
            args_ok.append(False)
        return {"flags_of_direct_call_on_all_rows": alg.and_(alg.eq(a.n, e.n), alg.implies(inr, alg.eq(a.val(k), FL["beta"](k))), *args_ok)}


_cases_streams = cases


def cases():  # noqa: F811
    return _cases_streams() + [QcConfigRun()]
