"""Contracts of ioos_qc.utils helpers used by the QC tests; each is verified against the real
body (its own Case) and used by callers through a stub built from the same postcondition."""
import z3

from pyvc import alg, libmodels
from pyvc import npfuncs as NPF
from pyvc.ctx import cur
from pyvc.npmodel import Arr, MArr, in_range

from .common import Case, Env, series_grid


# ------------------------------------------------------------------ great_circle_distance
def gcd_elem(lat, lon, k):
    """postcondition of great_circle_distance at k: (mask, isnan, value).
    lat, lon: MArr with full masks"""
    if not alg.is_sym(k) and k == 0:
        return (False, False, 0)
    k1 = alg.sub(k, 1)
    la0, lo0, la1, lo1 = lat._data.elem(k1), lon._data.elem(k1), lat._data.elem(k), lon._data.elem(k)
    first = alg.eq(k, 0)
    mask = alg.and_(alg.not_(first), alg.or_(lat.m(k1), lon.m(k1), lat.m(k), lon.m(k)))
    if not any(alg.is_sym(v) for p in (la0, lo0, la1, lo1) for v in p) and not alg.is_sym(k):
        if k == 0:
            return (False, False, 0)
        if la0[0] or lo0[0] or la1[0] or lo1[0]:
            return (mask, True, 0)
        d = libmodels.concrete_geod(la0[1], lo0[1], la1[1], lo1[1])
        if d != d:
            return (mask, True, 0)
        return (mask, False, alg.conc(d))
    t = libmodels.geod_term(la0[1], lo0[1], la1[1], lo1[1])
    defined = libmodels.geod_defined(la0[0], la0[1], lo0[0], la1[0], la1[1], lo1[0])
    return (mask, alg.and_(alg.not_(first), alg.not_(defined)), alg.ite(first, 0, t))


def gcd_stub(lat_arr, lon_arr):
    """callee contract of utils.great_circle_distance(lat_arr, lon_arr) as seen by callers.
    requires: masked arrays of equal length whose mask is exactly the NaN positions
    raises  : ValueError when there are fewer than two positions
    ensures : result[k] as gcd_elem"""
    c = cur()
    c.use("contract utils.great_circle_distance")
    if not isinstance(lat_arr, MArr) or not isinstance(lon_arr, MArr) or lat_arr._mask is None or lon_arr._mask is None:
        c.unsupported_here("great_circle_distance stub: arguments are not normalised masked arrays")
    n = lon_arr.n
    c.ensure(alg.eq(lat_arr.n, n), ValueError, "operands could not be broadcast together")
    c.ensure(alg.ge(n, 2), ValueError, "cannot call `vectorize` on size 0 inputs unless `otypes` is set")
    lat = MArr(lat_arr._data.copy(), lat_arr._mask.copy())
    lon = MArr(lon_arr._data.copy(), lon_arr._mask.copy())
    data = Arr(n, "f", lambda k: gcd_elem(lat, lon, k)[1:])
    mask = Arr(n, "b", lambda k: (False, gcd_elem(lat, lon, k)[0]))
    # geod >= 0 for every pair
    c.add_fact("geod-nonneg", lambda k: alg.implies(in_range(k, n), alg.ge(gcd_elem(lat, lon, k)[2], 0)))
    return MArr(data, mask)


class Gcd(Case):
    module = "ioos_qc.utils"
    function = "great_circle_distance"
    index_offsets = (0, -1)
    compare_hidden = True
    props = {
        "post.distance_by_pair": ("C10", "C14"),
        "raises.fewer-than-two": ("C10", "C14"),
        "no-raise": ("C10", "C14", "C01"),
        "frame": ("C10", "C14", "C01"),
        "post.one_flag_per_element": ("C10", "C14", "C01"),
    }

    def declare(self, mk):
        e = Env()
        e.n = mk.length("n")
        e.lat = mk.series("lat", e.n)
        e.lon = mk.series("lon", e.n)
        return e

    def _norm(self, mod, e):
        np = mod.np
        return np.ma.masked_invalid(np.array(e.lat)), np.ma.masked_invalid(np.array(e.lon))

    def call(self, mod, e):
        lat, lon = self._norm(mod, e)
        return mod.great_circle_distance(lat, lon)

    def raises(self, e):
        return [(ValueError, "fewer-than-two", alg.lt(e.n, 2))]

    def post(self, e, res, k):
        lat = MArr(e.lat, Arr(e.n, "b", lambda i: (False, e.lat.nan(i))))
        lon = MArr(e.lon, Arr(e.n, "b", lambda i: (False, e.lon.nan(i))))
        m, nan, v = gcd_elem(lat, lon, k)
        return {
            "distance_by_pair": alg.and_(
                alg.iff(res.masked(k), m),
                alg.iff(res.flagnan(k), nan),
                alg.implies(alg.not_(nan), alg.eq(res.flag(k), v)),
            )
        }

    def post_global(self, e, res):
        return {"one_flag_per_element": alg.eq(res.n, e.n) if res.is_array else False}

    def canary(self, e, res, k):
        return alg.not_(res.masked(k))

    def grid(self, tier, rng):
        pts = [(0, 0), (10, 20), (-95, 0), (45, 181), (None, 5), (5, None), (None, None)]
        import itertools

        for n in range(0, 4 if tier == "quick" else 5):
            for ps in itertools.product(pts, repeat=n):
                yield {"n": n, "lat": [p[0] for p in ps], "lon": [p[1] for p in ps]}
