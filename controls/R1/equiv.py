#!/usr/bin/env python
"""Differential check: refactored qartod functions (this worktree) vs the originals in /repo.

Run as:  PYTHONPATH=<worktree> /venv/bin/python equiv.py
Exits 0 when every random input gives identical behaviour (same flags, same mask, same dtype,
same shape, same exception type, no mutation of the arguments), 1 otherwise.
"""

import copy
import importlib.util
import os
import sys
import warnings

import numpy as np

HERE = os.path.dirname(os.path.abspath(__file__))
REPO = "/repo"
N_CASES = int(os.environ.get("EQUIV_N", "3000"))

warnings.simplefilter("ignore")


def _load(name, path):
    spec = importlib.util.spec_from_file_location(name, path)
    mod = importlib.util.module_from_spec(spec)
    sys.modules[name] = mod
    spec.loader.exec_module(mod)
    return mod


# --- refactored code: regular import from the worktree -------------------------------------
import ioos_qc.qartod as new_q  # noqa: E402
import ioos_qc.utils as new_utils  # noqa: E402

assert os.path.abspath(new_q.__file__).startswith(HERE), new_q.__file__

# --- original code: /repo files under different module names -------------------------------
orig_utils = _load("orig_ioos_qc_utils", os.path.join(REPO, "ioos_qc", "utils.py"))
# qartod.py does `from ioos_qc.utils import ...`; make that resolve to /repo's utils while
# the original module is being executed, then restore the worktree's module.
sys.modules["ioos_qc.utils"] = orig_utils
try:
    old_q = _load("orig_ioos_qc_qartod", os.path.join(REPO, "ioos_qc", "qartod.py"))
finally:
    sys.modules["ioos_qc.utils"] = new_utils
assert old_q.__file__.startswith(REPO)
assert old_q.isfixedlength is orig_utils.isfixedlength
assert new_q.isfixedlength is new_utils.isfixedlength

FUNCS = ["gross_range_test", "spike_test", "rate_of_change_test", "location_test"]


# ------------------------------------------------------------------------------------------
# outcome capture / comparison
# ------------------------------------------------------------------------------------------
def snapshot(obj):
    """A comparable, deep description of an argument (to detect mutation)."""
    if isinstance(obj, np.ma.MaskedArray):
        return ("ma", obj.dtype.str, obj.shape, np.ma.getdata(obj).tobytes(), np.ma.getmaskarray(obj).tobytes())
    if isinstance(obj, np.ndarray):
        if obj.dtype == object:
            return ("ndo", obj.shape, repr(obj.tolist()))
        return ("nd", obj.dtype.str, obj.shape, obj.tobytes())
    if isinstance(obj, (list, tuple)):
        return (type(obj).__name__, tuple(snapshot(o) for o in obj))
    if isinstance(obj, dict):
        return ("dict", tuple((k, snapshot(v)) for k, v in obj.items()))
    if isinstance(obj, float) and obj != obj:
        return ("nan",)
    return (type(obj).__name__, repr(obj))


def run(fn, args, kwargs):
    args = copy.deepcopy(args)
    kwargs = copy.deepcopy(kwargs)
    before = snapshot((args, kwargs))
    try:
        with warnings.catch_warnings():
            warnings.simplefilter("ignore")
            res = fn(*args, **kwargs)
    except BaseException as e:  # noqa: BLE001
        out = ("exc", type(e).__name__)
    else:
        if isinstance(res, np.ma.MaskedArray):
            out = (
                "ok",
                type(res).__name__,
                res.dtype.str,
                res.shape,
                np.ma.getdata(res).tobytes(),
                np.ma.getmaskarray(res).tobytes(),
            )
        else:
            out = ("ok", type(res).__name__, repr(res))
    after = snapshot((args, kwargs))
    return out, before == after


# ------------------------------------------------------------------------------------------
# random input generators
# ------------------------------------------------------------------------------------------
SPECIAL = [np.nan, np.nan, np.inf, -np.inf, 0.0, -0.0, 1e308, -1e308, 1.7e308, 5e-324]


def rnd_value(rng):
    r = rng.random()
    if r < 0.22:
        return float(SPECIAL[rng.integers(len(SPECIAL))])
    if r < 0.6:
        return float(rng.integers(-6, 7))
    if r < 0.8:
        return float(rng.integers(-6, 7)) / 2.0
    return float(rng.normal(0, 50))


def rnd_series(rng, n=None, allow_weird=True):
    """Series of length 0..8 (list / ndarray / masked array / 2-D / scalar / garbage)."""
    if n is None:
        n = int(rng.integers(0, 9))
    vals = [rnd_value(rng) for _ in range(n)]
    r = rng.random()
    if r < 0.35:
        return vals
    if r < 0.65:
        return np.array(vals, dtype=np.float64)
    if r < 0.72:
        return np.array([int(v) if np.isfinite(v) and abs(v) < 1e9 else 0 for v in vals], dtype=np.int64)
    if r < 0.78:
        return [None if (v != v) else v for v in vals]
    if r < 0.84:
        m = rng.random(n) < 0.3
        return np.ma.masked_array(np.array(vals, dtype=np.float64), mask=m)
    if r < 0.90 and n in (4, 6, 8):
        return np.array(vals, dtype=np.float64).reshape(2, n // 2)
    if r < 0.93:
        return tuple(vals)
    if not allow_weird:
        return vals
    if r < 0.95:
        return rnd_value(rng)  # 0-d input
    if r < 0.97:
        return [str(v) for v in vals]  # numeric strings
    if r < 0.985:
        return ["abc"] + vals  # not convertible
    return None


def rnd_number(rng, allow_none=False):
    r = rng.random()
    if allow_none and r < 0.2:
        return None
    if r < 0.3:
        return int(rng.integers(-5, 8))
    if r < 0.55:
        return float(rng.integers(-10, 15)) / 2.0
    if r < 0.7:
        return np.float64(rng.integers(-5, 8))
    if r < 0.8:
        return float(rng.normal(0, 30))
    if r < 0.86:
        return float("nan")
    if r < 0.9:
        return float("inf")
    if r < 0.93:
        return float("-inf")
    if r < 0.96:
        return np.int64(rng.integers(0, 5))
    if r < 0.98:
        return 0
    return "x" if not allow_none else None


def rnd_span(rng, allow_none=False, base=None):
    r = rng.random()
    if allow_none and r < 0.25:
        return None
    if base is not None and r < 0.6:
        # something (usually) inside base
        try:
            lo, hi = sorted(base)
            a = lo + abs(rnd_number(rng) or 0) % 3
            b = hi - abs(rnd_number(rng) or 0) % 3
            return (a, b) if rng.random() < 0.7 else [b, a]
        except Exception:  # noqa: BLE001
            pass
    a, b = rnd_number(rng), rnd_number(rng)
    r = rng.random()
    if r < 0.6:
        return (a, b)
    if r < 0.8:
        return [a, b]
    if r < 0.85:
        return (a, b, rnd_number(rng))
    if r < 0.9:
        return (a,)
    if r < 0.93:
        return np.array([0.0, 5.0])
    if r < 0.96:
        return (None, b)
    if r < 0.98:
        return 5
    return ()


def gen_gross(rng):
    inp = rnd_series(rng)
    fail = rnd_span(rng)
    args = [inp, fail]
    kwargs = {}
    r = rng.random()
    if r < 0.45:
        args.append(rnd_span(rng, allow_none=True, base=fail))
    elif r < 0.8:
        kwargs["suspect_span"] = rnd_span(rng, allow_none=True, base=fail)
    return args, kwargs


METHODS = ["average", "differential", "average", "differential", "Average", "", None, "diff", 3]


def gen_spike(rng):
    inp = rnd_series(rng)
    kwargs = {}
    args = [inp]
    r = rng.random()
    if r < 0.4:
        args += [rnd_number(rng, allow_none=True), rnd_number(rng, allow_none=True)]
    else:
        if rng.random() < 0.8:
            kwargs["suspect_threshold"] = rnd_number(rng, allow_none=True)
        if rng.random() < 0.8:
            kwargs["fail_threshold"] = rnd_number(rng, allow_none=True)
    if rng.random() < 0.75:
        kwargs["method"] = METHODS[rng.integers(len(METHODS))]
    return args, kwargs


def rnd_times(rng, n):
    r = rng.random()
    if r < 0.12:
        n = max(0, n + int(rng.integers(-2, 3)))  # (often) wrong length
    steps = rng.integers(0, 4, size=n) * rng.choice([1, 1, 10, 3600])
    if rng.random() < 0.15:
        steps = steps * rng.choice([-1, 1], size=n)
    secs = 1_500_000_000 + np.cumsum(steps)
    r = rng.random()
    if r < 0.3:
        return [int(s) for s in secs]
    if r < 0.45:
        return np.array(secs, dtype=np.float64) + (0.5 if rng.random() < 0.3 else 0.0)
    if r < 0.7:
        return np.array(secs, dtype="int64").astype("datetime64[s]")
    if r < 0.8:
        return np.array(secs, dtype="int64").astype("datetime64[s]").astype("datetime64[ns]")
    if r < 0.88:
        import pandas as pd

        return pd.DatetimeIndex(np.array(secs, dtype="int64").astype("datetime64[s]"))
    if r < 0.92:
        import pandas as pd

        return pd.Series(pd.DatetimeIndex(np.array(secs, dtype="int64").astype("datetime64[s]"), tz="UTC"))
    if r < 0.95:
        return [str(np.datetime64(int(s), "s")) for s in secs]
    if r < 0.97 and n in (4, 6, 8):
        return np.array(secs, dtype="int64").astype("datetime64[s]").reshape(2, n // 2)
    if r < 0.985:
        return None
    return ["not a date"] * n


def gen_roc(rng):
    inp = rnd_series(rng, allow_weird=rng.random() < 0.3)
    try:
        n = int(np.size(np.asarray(inp, dtype=object))) if inp is not None else 0
    except Exception:  # noqa: BLE001
        n = 3
    tinp = rnd_times(rng, n)
    thr = rnd_number(rng, allow_none=rng.random() < 0.1)
    if rng.random() < 0.5:
        return [inp, tinp, thr], {}
    return [inp], {"tinp": tinp, "threshold": thr}


def rnd_coord(rng, n, scale):
    vals = []
    for _ in range(n):
        r = rng.random()
        if r < 0.15:
            vals.append(float("nan"))
        elif r < 0.2:
            vals.append(float(rng.choice([np.inf, -np.inf])))
        elif r < 0.3:
            vals.append(float(rng.choice([-scale, scale, 0.0])))
        elif r < 0.4:
            vals.append(float(rng.uniform(-1.3 * scale, 1.3 * scale)))  # may be outside
        else:
            vals.append(float(rng.uniform(-scale, scale)) if rng.random() < 0.5 else float(rng.integers(-40, 41)))
    r = rng.random()
    if r < 0.4:
        return vals
    if r < 0.8:
        return np.array(vals, dtype=np.float64)
    if r < 0.9:
        return np.ma.masked_array(np.array(vals, dtype=np.float64), mask=rng.random(n) < 0.3)
    if r < 0.95 and n in (4, 6, 8):
        return np.array(vals, dtype=np.float64).reshape(2, n // 2)
    if r < 0.97:
        return [None if v != v else v for v in vals]
    if r < 0.985:
        return ["abc"] + vals
    return None


def rnd_bbox(rng):
    r = rng.random()
    if r < 0.35:
        a, b = sorted(rng.uniform(-180, 180, size=2))
        c, d = sorted(rng.uniform(-90, 90, size=2))
        return (float(a), float(c), float(b), float(d))
    if r < 0.55:
        return [-50, -30, 50, 30]
    if r < 0.65:
        return (-180, -90, 180, 90)
    if r < 0.72:
        return None
    if r < 0.78:
        return (10, 10, -10, -10)
    if r < 0.83:
        return (float("nan"), -90, 180, np.float64(90))
    if r < 0.88:
        return (-180, -90, 180)
    if r < 0.92:
        return np.array([-180, -90, 180, 90])
    if r < 0.95:
        return (-180, "a", 180, 90)
    if r < 0.975:
        return (None, -90, 180, None)
    return (-180, -90, 180, 90, 0)


def gen_location(rng):
    n = int(rng.integers(0, 9))
    lon = rnd_coord(rng, n, 180.0)
    m = n if rng.random() < 0.9 else int(rng.integers(0, 9))
    lat = rnd_coord(rng, m, 90.0)
    args = [lon, lat]
    kwargs = {}
    r = rng.random()
    if r < 0.3:
        pass
    elif r < 0.6:
        args.append(rnd_bbox(rng))
    else:
        kwargs["bbox"] = rnd_bbox(rng)
    r = rng.random()
    if r < 0.5:
        rm = [None, 0, 1.0, 1e5, 1e6, 5e6, np.float64(2e6), float("nan"), float("inf"), -1, "x"][rng.integers(11)]
        if len(args) == 3 and not kwargs and rng.random() < 0.5:
            args.append(rm)
        else:
            kwargs["range_max"] = rm
    return args, kwargs


GENS = {
    "gross_range_test": gen_gross,
    "spike_test": gen_spike,
    "rate_of_change_test": gen_roc,
    "location_test": gen_location,
}


def main():
    failures = 0
    for k, name in enumerate(FUNCS):
        rng = np.random.default_rng(20240 + k)
        f_new = getattr(new_q, name)
        f_old = getattr(old_q, name)
        assert f_new is not f_old
        # decorator metadata must be unchanged too
        for attr in ("standard_name", "long_name"):
            if getattr(f_new, attr) != getattr(f_old, attr):
                print(f"{name}: metadata {attr} differs")
                failures += 1
        n_ok = n_exc = 0
        exc_types = {}
        for i in range(N_CASES):
            args, kwargs = GENS[name](rng)
            out_old, pure_old = run(f_old, args, kwargs)
            out_new, pure_new = run(f_new, args, kwargs)
            if out_old[0] == "ok":
                n_ok += 1
            else:
                n_exc += 1
                exc_types[out_old[1]] = exc_types.get(out_old[1], 0) + 1
            if out_old != out_new or pure_old != pure_new:
                failures += 1
                if failures <= 20:
                    print(f"MISMATCH {name} case {i}: args={args!r} kwargs={kwargs!r}")
                    print(f"   old: {out_old[:4]} mutated={not pure_old}")
                    print(f"   new: {out_new[:4]} mutated={not pure_new}")
        print(f"{name}: {N_CASES} cases, {n_ok} returned, {n_exc} raised {exc_types}")
    if failures:
        print(f"FAILED: {failures} mismatches")
        return 1
    print("OK: refactored functions are indistinguishable from the originals on all cases")
    return 0


if __name__ == "__main__":
    sys.exit(main())
