#!/usr/bin/env python
"""Differential check: refactored functions (this worktree) against the originals in /repo.

Run as:  PYTHONPATH=<worktree> /venv/bin/python equiv.py
Exits 0 when every generated input gives the same observation for both implementations.

An observation is: the returned value (incl. type, dtype, shape, mask), the type of a raised
exception, the log records (level, message) in the order they were emitted interleaved with the
items a generator yields, the warnings raised and the state of the mutable objects that outlive
the call (inputs, stream.inp, exprStack, collected_results ...).
"""

import copy
import datetime
import importlib
import importlib.util
import io
import json
import logging
import os
import random
import sys
import tempfile
import types
import warnings
from collections import OrderedDict
from functools import partial

import numpy as np
import pandas as pd
import xarray as xr

HERE = os.path.dirname(os.path.abspath(__file__))
ORIG_ROOT = "/repo/ioos_qc"
N = int(os.environ.get("EQUIV_N", "3000"))
SEED = int(os.environ.get("EQUIV_SEED", "20261003"))

# --------------------------------------------------------------------------------------
# Load both implementations
# --------------------------------------------------------------------------------------
import ioos_qc  # noqa: E402

assert os.path.abspath(ioos_qc.__file__).startswith(HERE), (
    f"ioos_qc has to come from the worktree, got {ioos_qc.__file__}"
)

spec = importlib.util.spec_from_file_location(
    "orig_ioos_qc",
    os.path.join(ORIG_ROOT, "__init__.py"),
    submodule_search_locations=[ORIG_ROOT],
)
orig_pkg = importlib.util.module_from_spec(spec)
sys.modules["orig_ioos_qc"] = orig_pkg
spec.loader.exec_module(orig_pkg)


class Impl:
    def __init__(self, prefix) -> None:
        self.prefix = prefix
        self.config = importlib.import_module(f"{prefix}.config")
        self.streams = importlib.import_module(f"{prefix}.streams")
        self.stores = importlib.import_module(f"{prefix}.stores")
        self.fx = importlib.import_module(f"{prefix}.config_creator.fx_parser")
        self.cc = importlib.import_module(f"{prefix}.config_creator.config_creator")


NEW = Impl("ioos_qc")
OLD = Impl("orig_ioos_qc")
for _m in (OLD.config, OLD.streams, OLD.stores, OLD.fx, OLD.cc):
    assert _m.__file__.startswith("/repo/"), _m.__file__
for _m in (NEW.config, NEW.streams, NEW.stores, NEW.fx, NEW.cc):
    assert os.path.abspath(_m.__file__).startswith(HERE), _m.__file__

from ioos_qc import qartod  # noqa: E402
from ioos_qc.results import CallResult, CollectedResult, ContextResult  # noqa: E402
from shapely.geometry import GeometryCollection, Point, shape  # noqa: E402

# --------------------------------------------------------------------------------------
# Observation machinery
# --------------------------------------------------------------------------------------
EVENTS = []


class Capture(logging.Handler):
    def emit(self, record) -> None:
        EVENTS.append(("log", record.levelname, record.getMessage()))


_handler = Capture(level=logging.DEBUG)
for _name in ("ioos_qc", "orig_ioos_qc"):
    _lg = logging.getLogger(_name)
    _lg.setLevel(logging.DEBUG)
    _lg.addHandler(_handler)
    _lg.propagate = False


def fname(f):
    mod = getattr(f, "__module__", None)
    if isinstance(mod, str) and mod.startswith("orig_ioos_qc"):
        mod = mod[len("orig_") :]
    return f"{mod}.{getattr(f, '__qualname__', getattr(f, '__name__', type(f).__name__))}"


def canon(x):  # noqa: C901, PLR0911, PLR0912
    """A comparable, NaN proof, description of a value (with its types and dtypes)."""
    if x is None or isinstance(x, (bool, str, bytes)):
        return x
    if isinstance(x, (np.generic,)):
        return (type(x).__name__, repr(x.item()) if not isinstance(x, (np.datetime64, np.timedelta64)) else str(x))
    if isinstance(x, (int, float, complex)):
        return (type(x).__name__, repr(x))
    if isinstance(x, np.ma.MaskedArray):
        mask = np.ma.getmaskarray(x)
        data = np.ma.getdata(x)
        flat = [None if m else repr(v) for v, m in zip(data.ravel().tolist(), mask.ravel().tolist())]
        return (type(x).__name__, str(x.dtype), x.shape, flat, mask.ravel().tolist())
    if isinstance(x, np.ndarray):
        return (
            type(x).__name__,
            str(x.dtype),
            x.shape,
            [canon(v) if isinstance(v, (np.ndarray, list, dict)) else repr(v) for v in x.ravel().tolist()],
            bool(x.flags.writeable),
            bool(x.flags.c_contiguous),
        )
    if isinstance(x, pd.DataFrame):
        return (
            "DataFrame",
            [canon(c) for c in x.columns],
            [str(d) for d in x.dtypes],
            canon(x.index),
            [canon(x.iloc[:, i].to_numpy()) for i in range(x.shape[1])],
        )
    if isinstance(x, pd.Series):
        return ("Series", str(x.dtype), canon(x.name), canon(x.index), canon(x.to_numpy()))
    if isinstance(x, pd.Index):
        return (type(x).__name__, str(x.dtype), [repr(v) for v in x.tolist()])
    if isinstance(x, xr.DataArray):
        return ("DataArray", x.dims, canon(x.to_numpy()))
    if isinstance(x, CallResult):
        return ("CallResult", x.package, x.test, fname(x.function), canon(x.results))
    if isinstance(x, ContextResult):
        return ("ContextResult", *[(f, canon(getattr(x, f))) for f in x._fields])
    if isinstance(x, CollectedResult):
        return (
            "CollectedResult",
            canon(x.stream_id),
            canon(x.package),
            canon(x.test),
            fname(x.function),
            *[canon(getattr(x, f)) for f in ("results", "data", "tinp", "zinp", "lat", "lon")],
        )
    if type(x).__name__ == "Call" and hasattr(x, "stream_id") and hasattr(x, "call"):
        return (
            "Call",
            canon(x.stream_id),
            fname(x.call.func) if isinstance(x.call, partial) else repr(x.call),
            canon(x.call.args) if isinstance(x.call, partial) else None,
            canon(x.call.keywords) if isinstance(x.call, partial) else None,
            canon(x.context),
            canon(x.attrs),
        )
    if type(x).__name__ == "Context" and hasattr(x, "window"):
        return ("Context", canon(tuple(x.window)), type(x.window).__name__, canon(x.region), canon(x.attrs))
    if hasattr(x, "wkt") and hasattr(x, "geom_type"):
        return ("geom", x.geom_type, x.wkt)
    if isinstance(x, dict):
        return (type(x).__name__, [(canon(k), canon(v)) for k, v in x.items()])
    if isinstance(x, tuple) and hasattr(x, "_fields"):
        return (type(x).__name__, [canon(v) for v in x])
    if isinstance(x, (list, tuple)):
        return (type(x).__name__, [canon(v) for v in x])
    if isinstance(x, (set, frozenset)):
        return (type(x).__name__, sorted(repr(canon(v)) for v in x))
    if isinstance(x, (pd.Timestamp, datetime.datetime, datetime.date)):
        return (type(x).__name__, x.isoformat())
    if isinstance(x, slice):
        return ("slice", canon(x.start), canon(x.stop), canon(x.step))
    if callable(x) and hasattr(x, "__name__"):
        return ("callable", fname(x))
    if type(x).__name__ == "ParseResults":
        return ("ParseResults", canon(x.asList()))
    return (type(x).__name__, "opaque")


def observe(thunk, compare_message=False):
    """Run thunk() and return everything that can be seen of it."""
    del EVENTS[:]
    with warnings.catch_warnings(record=True) as caught:
        warnings.simplefilter("always")
        try:
            outcome = ("ok", thunk())
        except Exception as e:  # noqa: BLE001
            outcome = ("raise", type(e).__name__, str(e) if compare_message else None)
    seen = [(w.category.__name__, str(w.message)) for w in caught]
    return outcome, list(EVENTS), seen


def drain(make_generator):
    """Exhaust a generator; every yielded item and the return value become events."""

    def thunk():
        gen = make_generator()
        assert isinstance(gen, types.GeneratorType), type(gen)
        while True:
            try:
                item = next(gen)
            except StopIteration as stop:
                return ("return", canon(stop.value))
            EVENTS.append(("yield", canon(item)))

    return thunk


class Mismatch(Exception):
    pass


FAILURES = []
COUNTS = OrderedDict()


OUTCOMES = {}


def _outcome_kind(obs):
    """The ("ok",) / ("raise", type) marker that is buried in an observation."""
    if isinstance(obs, tuple):
        if len(obs) >= 2 and obs[0] == "ok":
            return "ok"
        if len(obs) == 3 and obs[0] == "raise" and isinstance(obs[1], str):
            return f"raise {obs[1]}"
        for part in obs:
            found = _outcome_kind(part)
            if found:
                return found
    return None


def check(label, case, old_obs, new_obs) -> None:
    COUNTS[label] = COUNTS.get(label, 0) + 1
    kinds = OUTCOMES.setdefault(label, {})
    kind = _outcome_kind(old_obs) or "?"
    kinds[kind] = kinds.get(kind, 0) + 1
    text = repr(old_obs)
    for marker in ("('yield'", "('log'"):
        kinds[marker] = kinds.get(marker, 0) + text.count(marker)
    if old_obs != new_obs:
        FAILURES.append((label, case))
        if sum(1 for f in FAILURES if f[0] == label) <= 3:
            print(f"MISMATCH in {label} (case {case})")
            print("   original  :", _short(old_obs))
            print("   refactored:", _short(new_obs))


def _short(obs, limit=1500):
    text = repr(obs)
    return text if len(text) <= limit else text[:limit] + " ..."


# --------------------------------------------------------------------------------------
# Random ingredients
# --------------------------------------------------------------------------------------
T0 = pd.Timestamp("2020-03-01T00:00:00")


def rand_values(rng, n, kind=None):
    kind = kind or rng.choice(["float", "float", "float", "int", "masked", "float32", "nanny", "const"])
    if kind == "int":
        return np.array([rng.randint(-5, 40) for _ in range(n)], dtype=rng.choice(["int64", "int32"]))
    if kind == "const":
        return np.full(n, rng.choice([0.0, 3.5, np.nan]))
    vals = np.array([rng.choice([rng.uniform(-5, 40), float(rng.randint(0, 12)), np.nan]) if kind == "nanny" or rng.random() < 0.15 else rng.uniform(-5, 40) for _ in range(n)], dtype="float64")
    if kind == "float32":
        return vals.astype("float32")
    if kind == "masked":
        return np.ma.masked_array(vals, mask=[rng.random() < 0.3 for _ in range(n)])
    return vals


def rand_times(rng, n):
    step = rng.choice(["1h", "30min", "1D", "7min"])
    times = pd.date_range(T0, periods=n, freq=step)
    if rng.random() < 0.15 and n > 1:
        # not monotonic
        order = list(range(n))
        rng.shuffle(order)
        times = times[order]
    return times


def rand_moment(rng):
    """Something usable as the start or the end of a window."""
    moment = T0 + pd.Timedelta(hours=rng.choice([-5, 0, 1, 2, 3, 5, 24, 60, 200]), minutes=rng.choice([0, 0, 15]))
    how = rng.random()
    if how < 0.5:
        return moment
    if how < 0.7:
        return moment.to_pydatetime()
    if how < 0.85:
        return np.datetime64(moment)
    return moment.isoformat()


def rand_window(rng):
    how = rng.random()
    if how < 0.35:
        return None
    if how < 0.5:
        return {"starting": rand_moment(rng)}
    if how < 0.65:
        return {"ending": rand_moment(rng)}
    if how < 0.7:
        return {"starting": None, "ending": None}
    return {"starting": rand_moment(rng), "ending": rand_moment(rng)}


def rand_region(rng):
    how = rng.random()
    if how < 0.6:
        return "absent"
    if how < 0.7:
        return None
    if how < 0.8:
        return {"geometry": {"type": "Point", "coordinates": [rng.randint(-10, 10), 3]}}
    if how < 0.9:
        return {
            "features": [
                {"geometry": {"type": "Point", "coordinates": [1, rng.randint(0, 5)]}},
                {
                    "geometry": {
                        "type": "Polygon",
                        "coordinates": [[[0, 0], [0, 2], [2, 2], [2, 0], [0, 0]]],
                    },
                },
            ],
        }
    if how < 0.94:
        return GeometryCollection([Point(rng.randint(0, 3), 1)])
    if how < 0.97:
        return {"nothing": "useful"}
    return {}


def rand_test(rng):  # noqa: PLR0911
    """(test name, kwargs) of a qartod test; sometimes with arguments that make it fail."""
    which = rng.choice(
        ["gross", "gross", "spike", "flat", "roc", "location", "density", "atten", "bad_args", "unknown", "none_kwargs", "inp_in_config"],
    )
    if which == "gross":
        kw = {"fail_span": [rng.randint(-10, 5), rng.randint(10, 45)]}
        if rng.random() < 0.6:
            kw["suspect_span"] = [rng.randint(0, 8), rng.randint(9, 30)]
        return "gross_range_test", kw
    if which == "spike":
        return "spike_test", {"suspect_threshold": rng.choice([1, 3.5, None]), "fail_threshold": rng.choice([6, 12.0, None]), "method": rng.choice(["average", "differential"])}
    if which == "flat":
        return "flat_line_test", {"suspect_threshold": rng.choice([3600, 7200]), "fail_threshold": rng.choice([10800, 14400]), "tolerance": rng.choice([0, 0.5, 2])}
    if which == "roc":
        return "rate_of_change_test", {"threshold": rng.choice([0.001, 0.5, 2])}
    if which == "location":
        return "location_test", {"bbox": [-20, -20, rng.randint(0, 30), 30]}
    if which == "density":
        return "density_inversion_test", {"suspect_threshold": rng.choice([None, 0.01]), "fail_threshold": rng.choice([None, 0.04])}
    if which == "atten":
        return "attenuated_signal_test", {"suspect_threshold": 5, "fail_threshold": rng.choice([1, 2.5]), "check_type": rng.choice(["std", "range"])}
    if which == "bad_args":
        return "gross_range_test", {"fail_span": [1, 2, 3], "junk": 4}
    if which == "unknown":
        return rng.choice(["no_such_test", "gross_range_tes"]), {"a": 1}
    if which == "none_kwargs":
        return "spike_test", None
    return "gross_range_test", {"fail_span": [0, 30], "inp": [rng.uniform(-5, 40) for _ in range(rng.randint(0, 5))]}


def rand_streams(rng, stream_names):
    streams = OrderedDict()
    for name in rng.sample(stream_names, rng.randint(1, len(stream_names))):
        tests = OrderedDict()
        for _ in range(rng.randint(1, 3)):
            test, kw = rand_test(rng)
            tests[test] = kw
        package = rng.choice(["qartod"] * 9 + ["no_such_package"])
        streams[name] = {package: tests}
    return streams


def rand_context_dicts(rng, stream_names):
    contexts = []
    for _ in range(rng.choice([1, 1, 2, 3])):
        c = {"streams": rand_streams(rng, stream_names)}
        w = rand_window(rng)
        if w is not None:
            c["window"] = w
        r = rand_region(rng)
        if not (isinstance(r, str) and r == "absent"):
            c["region"] = r
        if rng.random() < 0.2:
            c["attrs"] = {"note": rng.randint(0, 3)}
        contexts.append(c)
    return contexts


def build_config(impl, contexts):
    return impl.config.Config({"contexts": copy.deepcopy(contexts)})


# --------------------------------------------------------------------------------------
# streams
# --------------------------------------------------------------------------------------
STREAM_NAMES = ["a", "b", "c", "ghost"]


def numpy_case(rng):
    n = rng.randint(0, 8)
    how = rng.random()
    if how < 0.45:
        inp = rand_values(rng, n)
    elif how < 0.8:
        inp = OrderedDict((k, rand_values(rng, n)) for k in rng.sample(["a", "b", "c"], rng.randint(0, 3)))
    elif how < 0.88:
        inp = None
    elif how < 0.92:
        inp = rand_values(rng, n, "float").tolist()
    elif how < 0.96:
        inp = rand_values(rng, n, "float").reshape(n, 1)
    else:
        inp = {"a": rand_values(rng, n), "b": rand_values(rng, max(0, n - 1))}
    kw = {"inp": inp}
    if rng.random() < 0.8:
        tchoice = rng.random()
        times = rand_times(rng, n)
        if tchoice < 0.5:
            kw["time"] = times.to_numpy()
        elif tchoice < 0.7:
            kw["time"] = times
        elif tchoice < 0.85:
            kw["time"] = (times - pd.Timestamp("1970-01-01")) // pd.Timedelta("1s")
        else:
            kw["time"] = np.array([t.isoformat() for t in times])
    for axis in ("z", "lat", "lon"):
        if rng.random() < 0.55:
            m = n if rng.random() < 0.95 else n + 1
            kw[axis] = rand_values(rng, m, rng.choice(["float", "nanny", "int"]))
    return kw, rand_context_dicts(rng, STREAM_NAMES)


def run_numpy(impl, case):
    kw, contexts = copy.deepcopy(case)
    state = {}

    def thunk():
        config = build_config(impl, contexts)
        stream = impl.streams.NumpyStream(**kw)
        state["stream"] = stream
        return drain(lambda: stream.run(config))()

    obs = observe(thunk)
    stream = state.get("stream")
    after = None if stream is None else canon([stream.inp, stream.tinp, stream.zinp, stream.lat, stream.lon])
    return obs, after, canon(kw)


def pandas_case(rng):
    n = rng.randint(0, 8)
    names = {"time": "time", "z": "z", "lat": "lat", "lon": "lon"}
    ctor = {}
    if rng.random() < 0.3:
        names["time"] = "when"
        ctor["time"] = "when"
    if rng.random() < 0.2:
        names["z"] = "depth"
        ctor["z"] = "depth"
    if rng.random() < 0.1:
        ctor["lat"] = "y"
        names["lat"] = "y"
    cols = OrderedDict()
    if rng.random() < 0.85:
        cols[names["time"]] = rand_times(rng, n)
    for axis in ("z", "lat", "lon"):
        if rng.random() < 0.5:
            cols[names[axis]] = np.asarray(rand_values(rng, n, rng.choice(["float", "nanny", "int"])))
    for s in rng.sample(["a", "b", "c"], rng.randint(0, 3)):
        cols[s] = np.ma.filled(rand_values(rng, n).astype("float64"), np.nan) if rng.random() < 0.8 else np.asarray(rand_values(rng, n, "int"))
    order = list(cols)
    rng.shuffle(order)
    how = rng.random()
    if how < 0.6:
        index = None
    elif how < 0.8:
        index = list(range(10, 10 + n))
        rng.shuffle(index)
    elif how < 0.9:
        index = [rng.randint(0, 3) for _ in range(n)]
    else:
        index = [f"r{i}" for i in range(n)]
    return (cols, order, index, ctor), rand_context_dicts(rng, STREAM_NAMES)


def run_pandas(impl, case):
    (cols, order, index, ctor), contexts = copy.deepcopy(case)
    df = pd.DataFrame({k: cols[k] for k in order}, index=index)
    before = canon(df)

    def thunk():
        config = build_config(impl, contexts)
        stream = impl.streams.PandasStream(df, **ctor)
        return drain(lambda: stream.run(config))()

    obs = observe(thunk)
    return obs, before == canon(df)


def dataset_case(rng):
    """An in memory dataset for the Xarray/Netcdf streams (described, so that it can be built twice)."""
    n = rng.randint(0, 8)
    nz = rng.randint(1, 3)
    time_as = rng.choice(["coord", "coord", "coord", "variable", "other_dim", "absent", "numeric"])
    desc = {"n": n, "nz": nz, "time_as": time_as, "times": rand_times(rng, n), "vars": OrderedDict(), "axes": OrderedDict()}
    if rng.random() < 0.15:
        desc["times"] = pd.date_range(T0, periods=n, freq="1h")
    for s in rng.sample(["a", "b", "c"], rng.randint(1, 3)):
        if rng.random() < 0.1:
            desc["vars"][s] = ("2d", np.asarray(rand_values(rng, n * nz, "float")).reshape(n, nz))
        else:
            desc["vars"][s] = ("1d", np.ma.filled(rand_values(rng, n).astype("float64"), np.nan))
    for axis in ("z", "lat", "lon"):
        how = rng.choices(["absent", "coord", "variable", "other_dim", "scalar"], [35, 27, 24, 12, 2])[0]
        if how != "absent":
            desc["axes"][axis] = (how, np.asarray(rand_values(rng, n, rng.choice(["float", "nanny"]))), rng.uniform(0, 5))
    names = {}
    if rng.random() < 0.2:
        names["time"] = "when"
    if rng.random() < 0.15:
        names["z"] = "depth"
    desc["names"] = names
    return desc, rand_context_dicts(rng, STREAM_NAMES)


def build_dataset(desc):
    n = desc["n"]
    tname = desc["names"].get("time", "time")
    coords = {}
    data_vars = {}
    main_dim = "time" if desc["time_as"] in ("coord", "numeric") else "obs"
    if desc["time_as"] == "coord":
        coords[tname] = ((main_dim,), desc["times"]) if tname != main_dim else desc["times"]
    elif desc["time_as"] == "numeric":
        secs = np.asarray((desc["times"] - pd.Timestamp("1970-01-01")) // pd.Timedelta("1s"), dtype="int64")
        coords[tname] = ((main_dim,), secs) if tname != main_dim else secs
    elif desc["time_as"] == "variable":
        data_vars[tname] = ((main_dim,), desc["times"])
    elif desc["time_as"] == "other_dim":
        data_vars[tname] = (("tdim",), desc["times"])
    for s, (kind, vals) in desc["vars"].items():
        data_vars[s] = ((main_dim,), vals) if kind == "1d" else ((main_dim, "level"), vals)
    for axis, (how, vals, scalar) in desc["axes"].items():
        aname = desc["names"].get(axis, axis)
        if how == "coord":
            coords[aname] = ((main_dim,), vals)
        elif how == "variable":
            data_vars[aname] = ((main_dim,), vals)
        elif how == "other_dim":
            data_vars[aname] = ((axis + "dim",), vals)
        else:
            coords[aname] = scalar
    assert n == len(desc["times"])
    return xr.Dataset(data_vars, coords=coords)


def run_xarray(impl, case, stream_class="XarrayStream", via_file=None):
    desc, contexts = copy.deepcopy(case)
    ds = build_dataset(desc)
    source = ds
    if via_file is not None:
        ds.to_netcdf(via_file, engine="scipy")
        source = via_file
    ctor = dict(desc["names"])
    ctor.pop("lat", None)

    def thunk():
        config = build_config(impl, contexts)
        stream = getattr(impl.streams, stream_class)(source, **ctor)
        attrs = canon({k: v for k, v in vars(stream).items() if k != "path_or_ncd"})
        return attrs, list(vars(stream)), drain(lambda: stream.run(config))()

    return observe(thunk)


def check_streams(rng) -> None:
    for i in range(N):
        case = numpy_case(rng)
        check("streams.NumpyStream.run", i, run_numpy(OLD, case), run_numpy(NEW, case))
    for i in range(N):
        case = pandas_case(rng)
        check("streams.PandasStream.run", i, run_pandas(OLD, case), run_pandas(NEW, case))
    tmpdir = tempfile.mkdtemp(prefix="equiv_streams_")
    for i in range(N):
        case = dataset_case(rng)
        via = os.path.join(tmpdir, f"x{i}.nc") if i % 25 == 0 else None
        old = run_xarray(OLD, case, via_file=via)
        new = run_xarray(NEW, case, via_file=via)
        check("streams.XarrayStream.run", i, old, new)
        if via:
            os.remove(via)
    for i in range(N):
        case = dataset_case(rng)
        via = os.path.join(tmpdir, f"n{i}.nc") if i % 25 == 0 else None
        old = run_xarray(OLD, case, "NetcdfStream", via_file=via)
        new = run_xarray(NEW, case, "NetcdfStream", via_file=via)
        check("streams.NetcdfStream.__init__/run", i, old, new)
        if via:
            os.remove(via)
    # constructor arguments of NetcdfStream (falsy ones fall back on the default names)
    pool = [None, "", "t", "time", 0, "depth", "x"]
    for i in range(N):
        args = {k: rng.choice(pool) for k in ("time", "z", "lat", "lon") if rng.random() < 0.7}
        obs = []
        for impl in (OLD, NEW):
            obs.append(observe(lambda impl=impl: (lambda s: (list(vars(s)), canon(vars(s))))(impl.streams.NetcdfStream("p.nc", **args))))
        check("streams.NetcdfStream.__init__", i, obs[0], obs[1])


# --------------------------------------------------------------------------------------
# config
# --------------------------------------------------------------------------------------
def f_plain(inp, tinp=None, zinp=None, scale=1):
    return np.ma.masked_invalid(np.asarray(inp, dtype="float64") * scale)


def f_kwonly(inp, *, only=2):
    return np.asarray(inp) * only


def f_varkw(inp, **kw):
    return np.asarray([len(kw)] * len(inp))


def f_posonly(inp, /, tinp=None):
    return inp


def f_raises(inp, tinp=None):
    msg = f"no good: {len(inp)}"
    raise ValueError(msg)


def f_keyerror(inp):
    raise KeyError("missing")


def f_mutates(inp, lon=None):
    inp[:] = 0
    if lon is not None:
        lon[:] = 1
    return inp


def f_noargs():
    return np.array([1])


class Callable:
    """A callable object without __name__."""

    def __call__(self, inp, tinp=None):
        return inp


FUNC_POOL = [
    qartod.gross_range_test,
    qartod.spike_test,
    qartod.flat_line_test,
    qartod.rate_of_change_test,
    qartod.location_test,
    qartod.density_inversion_test,
    qartod.attenuated_signal_test,
    qartod.climatology_test,
    f_plain,
    f_kwonly,
    f_varkw,
    f_posonly,
    f_raises,
    f_keyerror,
    f_mutates,
    f_noargs,
    partial(f_plain, scale=3),
    Callable(),
    np.add,
    len,
]


def call_case(rng):
    func = rng.choice(FUNC_POOL)
    n = rng.randint(0, 8)
    config_kwargs = {}
    for key, values in (
        ("fail_span", [[0, 30], [5, 10, 20], (2, 25)]),
        ("suspect_span", [[5, 20], None]),
        ("suspect_threshold", [1, 3.5, None, 3600]),
        ("fail_threshold", [6, 12.0, None, 7200]),
        ("threshold", [0.01, 2]),
        ("tolerance", [0, 1.5]),
        ("bbox", [[-20, -20, 20, 20]]),
        ("scale", [2, np.nan]),
        ("only", [5]),
        ("junk", [object, "x"]),
        ("inp", [[1.0, 2.0, 50.0]]),
        ("config", [[{"vspan": (1, 11), "tspan": (0, 12), "period": "month"}]]),
    ):
        if rng.random() < 0.3:
            config_kwargs[key] = rng.choice(values)
    passed = {}
    if rng.random() < 0.9:
        passed["inp"] = rand_values(rng, n)
    if rng.random() < 0.6:
        passed["tinp"] = rand_times(rng, n) if rng.random() < 0.5 else rand_times(rng, n).to_numpy()
    for axis in ("zinp", "lat", "lon"):
        if rng.random() < 0.4:
            passed[axis] = rand_values(rng, n, rng.choice(["float", "nanny"]))
    if rng.random() < 0.2:
        passed["fail_span"] = [10, 20]
    if rng.random() < 0.2:
        passed["extra"] = {"deep": [1, 2, {"er": 3}]}
    if rng.random() < 0.1:
        passed["scale"] = 7
    stream_id = rng.choice(["a", "", None, 5])
    return func, config_kwargs, passed, stream_id


def run_call(impl, case):
    func, config_kwargs, passed, stream_id = case
    passed = copy.deepcopy(passed)
    config_kwargs = copy.deepcopy(config_kwargs)
    before = canon(passed)
    call = impl.config.Call(stream_id=stream_id, call=partial(func, (), **config_kwargs))
    obs = observe(lambda: canon(call.run(**passed)))
    return obs, before == canon(passed), canon(call.kwargs)


def flat_qc(rng):
    tests = OrderedDict()
    for _ in range(rng.randint(0, 3)):
        t, kw = rand_test(rng)
        tests[t] = kw
    return {rng.choice(["qartod"] * 8 + ["no_such_package", "utils"]): tests}


def config_source_case(rng):  # noqa: PLR0911
    """A description of a Config source that can be realized for either implementation."""
    kind = rng.choice(
        ["qc", "qc", "stream_level", "stream_level", "streams", "contexts", "text_yaml", "text_json", "stringio", "calls", "config_object", "context_object", "has_calls", "mixed_list", "invalid", "empty", "deep_qc", "tuple_calls"],
    )
    key = rng.choice(["_stream", "mine", ""])
    version = rng.choice([None, 1])
    if kind == "qc":
        return kind, flat_qc(rng), key, version
    if kind == "deep_qc":
        # a QcConfig whose arguments make it 4 deep: it is taken for a stream level config
        return kind, {"qartod": {"climatology_test": {"config": {"a": 1}}, "spike_test": {"suspect_threshold": 1}}}, key, version
    if kind == "stream_level":
        return kind, dict(rand_streams(rng, STREAM_NAMES)), key, version
    if kind == "streams":
        return kind, rand_context_dicts(rng, STREAM_NAMES)[0], key, version
    if kind == "contexts":
        payload = {"contexts": rand_context_dicts(rng, STREAM_NAMES)}
        if rng.random() < 0.1:
            payload["contexts"] = []
        if rng.random() < 0.1:
            payload["contexts"].append({"window": {}})  # no streams: KeyError
        return kind, payload, key, version
    if kind in ("text_yaml", "text_json", "stringio"):
        payload = rng.choice([flat_qc(rng), dict(rand_streams(rng, ["a", "b"])), {"streams": dict(rand_streams(rng, ["a", "b"]))}])
        text = json.dumps(payload)
        if kind == "text_yaml":
            text = "a:\n  qartod:\n    spike_test:\n      suspect_threshold: 3\n      fail_threshold: 6\n" if rng.random() < 0.5 else text
        return kind, text, key, version
    if kind in ("calls", "config_object", "context_object", "has_calls", "mixed_list", "tuple_calls"):
        return kind, rand_context_dicts(rng, STREAM_NAMES)[0], key, version
    if kind == "empty":
        return kind, rng.choice([{}, {"streams": {}}, {"contexts": []}, []]), key, version
    return kind, rng.choice([5, None, 3.5, "][ not yaml {", object]), key, version


class HasCalls:
    def __init__(self, calls) -> None:
        self.calls = calls


def realize_source(impl, kind, payload):
    payload = copy.deepcopy(payload)
    if kind == "stringio":
        return io.StringIO(payload)
    if kind in ("calls", "tuple_calls"):
        calls = list(impl.config.ContextConfig(payload).calls)
        return tuple(calls) if kind == "tuple_calls" else calls
    if kind == "config_object":
        return impl.config.Config(payload)
    if kind == "context_object":
        return impl.config.ContextConfig(payload)
    if kind == "has_calls":
        return HasCalls(list(impl.config.ContextConfig(payload).calls))
    if kind == "mixed_list":
        cc = impl.config.ContextConfig(payload)
        return [*cc.calls[:1], HasCalls(list(cc.calls)), 7, cc]
    return payload


def describe_config(cfg, source):
    shared = None
    for candidate in (getattr(source, "calls", None), source):
        if isinstance(candidate, list) and candidate is cfg._calls:
            shared = True
    return (
        type(cfg).__name__,
        list(vars(cfg)),
        canon(cfg._calls),
        canon(getattr(cfg, "config", "no config attribute")),
        shared,
        canon(cfg.stream_ids),
        [(canon(k), len(v)) for k, v in cfg.contexts.items()],
    )


def run_config(impl, case):
    kind, payload, key, version = case

    def thunk():
        source = realize_source(impl, kind, payload)
        del EVENTS[:]
        before = canon(source)
        cfg = impl.config.Config(source, version=version, default_stream_key=key)
        return describe_config(cfg, source), before == canon(source)

    return observe(thunk)


class StreamDict(dict):
    """A stream config that carries attrs."""


def context_config_case(rng):
    c = rand_context_dicts(rng, STREAM_NAMES)[0]
    how = rng.random()
    extras = {}
    if how < 0.08:
        del c["streams"]
    elif how < 0.14:
        c["streams"][rng.choice(list(c["streams"]))] = None
    elif how < 0.2:
        c["streams"]["a"] = {"qartod": None}
    elif how < 0.3:
        # attributes of the package that are no test functions
        c["streams"]["b"] = {rng.choice(["qartod", "utils", "results"]): {rng.choice(["L", "np", "FLAGS", "QartodFlags", "span", "__name__"]): rng.choice([None, {}, {"a": 1}])}}
    elif how < 0.36:
        c["streams"]["a"] = {"qartod": {5: {}}}
    elif how < 0.42:
        extras["stream_attrs"] = {"units": "m"}
    elif how < 0.5:
        extras["window_tuple"] = (rand_moment(rng), rng.choice([None, rand_moment(rng)]))
    elif how < 0.55:
        c["window"] = rng.choice([{"starting": 1, "ending": 2, "more": 3}, [1, 2], "text", None])
    elif how < 0.6:
        c["region"] = rng.choice(["features", "a geometry string", 5, [1], {"features": [{"geometry": {"type": "Nope"}}]}, {"features": None}, {"geometry": None}, np.array([1, 2])])
    elif how < 0.64:
        c["streams"]["a"] = {"qartod": {"spike_test": {5: 1}}}
    as_text = rng.random() < 0.1 and not extras
    return c, extras, as_text


def run_context_config(impl, case):
    c, extras, as_text = copy.deepcopy(case)
    if "stream_attrs" in extras:
        for k in list(c.get("streams", {})):
            if isinstance(c["streams"][k], dict):
                wrapped = StreamDict(c["streams"][k])
                wrapped.attrs = extras["stream_attrs"]
                c["streams"][k] = wrapped
    if "window_tuple" in extras:
        c["window"] = impl.config.tw(*extras["window_tuple"])
    source = c
    if as_text:
        try:
            source = json.dumps(c)
        except TypeError:
            source = c

    def thunk():
        cc = impl.config.ContextConfig(source)
        attrs_shared = [call.attrs is cc.calls[0].attrs for call in cc.calls]
        return (
            list(vars(cc)),
            canon(cc.config),
            canon(cc.attrs),
            canon(cc.region),
            canon(tuple(cc.window)),
            type(cc.window) is impl.config.tw,
            canon(cc.context),
            canon(cc.calls),
            attrs_shared,
            [call.context is cc.context for call in cc.calls],
            str(cc),
        )

    return observe(thunk)


def check_config(rng) -> None:
    for i in range(N):
        case = call_case(rng)
        check("config.Call.run", i, run_call(OLD, case), run_call(NEW, case))
    for i in range(N):
        case = config_source_case(rng)
        check("config.Config.__init__", i, run_config(OLD, case), run_config(NEW, case))
    for i in range(N):
        case = context_config_case(rng)
        check("config.ContextConfig.__init__", i, run_context_config(OLD, case), run_context_config(NEW, case))


# --------------------------------------------------------------------------------------
# stores
# --------------------------------------------------------------------------------------
class Odd:
    def __str__(self) -> str:
        return "odd str"

    def __format__(self, spec) -> str:
        return "odd-format"


LABELS = [None, "", "a", "temp", "sea water", "9lives", "_x", "a.b", "é", 0, 5, 1.5, True, False, (), ("t",), Odd(), np.str_("np"), np.float64(2.5)]


def collected_case(rng):
    n = rng.randint(0, 8)
    crs = []
    for _ in range(rng.randint(0, 5)):
        m = n if rng.random() < 0.93 else n + 1
        flags = np.ma.masked_array(
            np.array([rng.choice([1, 2, 3, 4, 9]) for _ in range(m)], dtype=rng.choice(["uint8", "uint8", "int64"])),
            mask=[rng.random() < 0.2 for _ in range(m)],
        )

        def axis(kind):
            how = rng.random()
            if how < 0.2:
                return None
            if how < 0.35:
                return np.array([], dtype="float64")
            if kind == "t":
                return rand_times(rng, m).to_numpy()
            return np.asarray(rand_values(rng, m, rng.choice(["float", "nanny"])))

        crs.append(
            dict(
                stream_id=rng.choice(["a", "b", "a", "c", "", None, "two words"]),
                package=rng.choice(["qartod", "qartod", "", None, "argo"]),
                test=rng.choice(["gross_range_test", "spike_test", "flat_line_test", "", None]),
                function=rng.choice([qartod.gross_range_test, qartod.spike_test, qartod.flat_line_test, qartod.aggregate]),
                results=flags,
                data=rand_values(rng, m),
                tinp=axis("t"),
                zinp=axis("z"),
                lat=axis("y"),
                lon=axis("x"),
            ),
        )
    names = ["a", "b", "c", "gross_range_test", "spike_test", "", None, qartod.gross_range_test, qartod.spike_test, "qartod"]

    def name_list():
        how = rng.random()
        if how < 0.5:
            return None
        if how < 0.6:
            return []
        return rng.sample(names, rng.randint(1, 3))

    axes = rng.choice([None, None, None, {"t": "when", "z": "depth", "y": "lat", "x": "lon"}, {"t": "time", "z": "a", "y": "y", "x": "x"}, {"t": "time"}, {"t": "same", "z": "same", "y": "same", "x": "same"}])
    kwargs = {}
    if rng.random() < 0.6:
        kwargs["write_data"] = rng.choice([True, False, 1, 0, None])
    if rng.random() < 0.5:
        kwargs["write_axes"] = rng.choice([True, True, False, 1, None])
    kwargs["include"] = name_list()
    kwargs["exclude"] = name_list()
    if rng.random() < 0.3:
        del kwargs["include"]
    if rng.random() < 0.3:
        del kwargs["exclude"]
    return crs, axes, kwargs, rng.choice(["rollup", "qc_rollup", "", None])


def make_store(impl, crs, axes):
    store = impl.stores.PandasStore([], axes=copy.deepcopy(axes))
    store.collected_results = [CollectedResult(**copy.deepcopy(c)) for c in crs]
    return store


def run_save(impl, case):
    crs, axes, kwargs, _ = case
    store = make_store(impl, crs, axes)
    before = canon(store.collected_results)
    obs = observe(lambda: canon(store.save(**copy.deepcopy(kwargs))))
    return obs, before == canon(store.collected_results), canon(store.axes)


def run_aggregate(impl, case, with_name):
    crs, axes, _, name = case
    store = make_store(impl, crs, axes)
    obs = observe(lambda: store.compute_aggregate(name) if with_name else store.compute_aggregate())
    return obs, canon(store.collected_results), [type(c).__name__ for c in store.collected_results]


def real_results_case(rng):
    kw, contexts = numpy_case(rng)
    return kw, contexts


def run_real_store(impl, case, kwargs):
    kw, contexts = copy.deepcopy(case)

    def thunk():
        config = build_config(impl, contexts)
        results = list(impl.streams.NumpyStream(**kw).run(config))
        store = impl.stores.PandasStore(results)
        first = canon(store.save(**copy.deepcopy(kwargs)))
        store.compute_aggregate()
        return first, canon(store.save(**copy.deepcopy(kwargs))), canon(store.stream_ids)

    return observe(thunk)


def check_stores(rng) -> None:
    for i in range(N):
        cr = types.SimpleNamespace(stream_id=rng.choice(LABELS), package=rng.choice(LABELS), test=rng.choice(LABELS))
        if rng.random() < 0.03:
            del cr.test
        old = observe(lambda: OLD.stores.column_from_collected_result(cr))
        new = observe(lambda: NEW.stores.column_from_collected_result(cr))
        check("stores.column_from_collected_result", i, old, new)
    for i in range(N):
        case = collected_case(rng)
        check("stores.PandasStore.save", i, run_save(OLD, case), run_save(NEW, case))
        with_name = rng.random() < 0.7
        check("stores.PandasStore.compute_aggregate", i, run_aggregate(OLD, case, with_name), run_aggregate(NEW, case, with_name))
    for i in range(N // 4):
        case = real_results_case(rng)
        kwargs = collected_case(rng)[2]
        check("stores.PandasStore.save (stream results)", i, run_real_store(OLD, case, kwargs), run_real_store(NEW, case, kwargs))


# --------------------------------------------------------------------------------------
# fx_parser
# --------------------------------------------------------------------------------------
FUNCS1 = ["sin", "cos", "tan", "exp", "abs", "trunc", "round", "sgn"]


def rand_number(rng):
    return rng.choice(["0", "1", "2", "3.5", "10", "0.25", "1e2", "2.", "7E-1", "+4", "-3", "-0.5"])


def rand_expr(rng, depth=0):  # noqa: PLR0911
    how = rng.random()
    if depth > 3 or how < 0.25:
        return rand_number(rng)
    if how < 0.4:
        return rng.choice(["mean", "min", "max", "std", "PI", "E", "pi", "e", "Pi"])
    if how < 0.55:
        op = rng.choice(["+", "-", "*", "/"])
        sp = rng.choice(["", " "])
        return f"{rand_expr(rng, depth + 1)}{sp}{op}{sp}{rand_expr(rng, depth + 1)}"
    if how < 0.62:
        # the exponent stays a small literal (an int to the power of a huge int never ends)
        return f"{rand_expr(rng, depth + 1)}^{rng.choice(['2', '0.5', '3', '-1', '2^2', '400'])}"
    if how < 0.74:
        return f"({rand_expr(rng, depth + 1)})"
    if how < 0.84:
        return rng.choice(["-", "--", "+", "+-", "-+", "- "]) + rand_expr(rng, depth + 1)
    if how < 0.94:
        f = rng.choice(FUNCS1)
        if f == "round" and rng.random() < 0.4:
            return f"round({rand_expr(rng, depth + 1)}, {rng.choice(['0', '1', '2'])})"
        if rng.random() < 0.08:
            return f"{f}({rand_expr(rng, depth + 1)}, {rand_expr(rng, depth + 1)})"
        return f"{f}({rand_expr(rng, depth + 1)})"
    return rng.choice(["foo", "x1", "mean_", "foo(1)", "sin()", "std2", "a$b", "mean(2)", "max(1, 2)"])


def damage(rng, text):
    if not text:
        return text
    how = rng.random()
    i = rng.randrange(len(text))
    if how < 0.4:
        return text[:i] + text[i + 1 :]
    if how < 0.8:
        return text[:i] + rng.choice(["(", ")", "*", "^", ",", " ", ".", "e", "$", "-"]) + text[i:]
    return text + rng.choice([" +", ")", " 2", "^"])


def rand_stats(rng):
    stats = {}
    for k in ("mean", "min", "max", "std"):
        stats[k] = rng.choice([rng.uniform(-10, 30), float(rng.randint(0, 5)), rng.randint(-3, 9), float("nan"), 0, 0.0, np.float64(2.5), np.float32(1.5)])
    if rng.random() < 0.08:
        del stats[rng.choice(list(stats))]
    return stats


GARBAGE = ["", "+-", "*/", "^", "+", "-", "/", ("sin", 2), ("sin", 1), ("foo", 1), ("round", 2), ("a", "b", "c"), (), 5, 2.5, None, "pi", "x1", "1e5", "--", "unary -", "unary", "mean", "E", "PI", "nan", "inf", ".", "3.", ("mean", 0), ("PI", 3), ("+", 0), ["+"], "1_0", " 1", "std", ("abs", -1), ("abs", 0), ("3", 0)]


def rand_stack(rng, parsed_stacks):
    if parsed_stacks and rng.random() < 0.6:
        stack = list(rng.choice(parsed_stacks))
    else:
        stack = []
    for _ in range(rng.randint(0, 3)):
        how = rng.random()
        if how < 0.4:
            stack.insert(rng.randint(0, len(stack)), rng.choice(GARBAGE))
        elif how < 0.6 and stack:
            stack.pop(rng.randrange(len(stack)))
        elif how < 0.8 and stack:
            rng.shuffle(stack)
        else:
            stack.append(rng.choice(GARBAGE))
    return stack


def value_obs(v):
    return (type(v).__name__, repr(v))


def check_fx(rng) -> None:
    import pyparsing

    assert OLD.fx.exprStack is not NEW.fx.exprStack
    parsed_stacks = []
    for i in range(N):
        expr = rand_expr(rng)
        while rng.random() < 0.25:
            expr = damage(rng, expr)
        stats = rand_stats(rng)
        obs = []
        for impl in (OLD, NEW):
            start = len(impl.fx.exprStack)
            o = observe(lambda impl=impl: value_obs(impl.fx.eval_fx(expr, dict(stats))), compare_message=True)
            pushed = impl.fx.exprStack[start:]
            obs.append((o, canon(pushed), len(impl.fx.exprStack)))
            if impl is OLD and pushed and len(pushed) < 40:
                parsed_stacks.append(pushed)
        check("fx_parser.eval_fx", (i, expr), obs[0], obs[1])
    check("fx_parser.exprStack after eval_fx", 0, canon(OLD.fx.exprStack), canon(NEW.fx.exprStack))

    for i in range(N):
        stack = rand_stack(rng, parsed_stacks)
        stats = rand_stats(rng)
        obs = []
        for impl in (OLD, NEW):
            s = copy.deepcopy(stack)
            o = observe(lambda impl=impl, s=s: value_obs(impl.fx.evaluate_stack(s, stats)), compare_message=True)
            obs.append((o, canon(s)))
        check("fx_parser.evaluate_stack", (i, stack), obs[0], obs[1])

    token_pool = ["-", "+", "3", "mean", ("sin", 1), "", "--", "- ", 5, None, ["-"], ("-",), "unary -"]
    for i in range(N):
        how = rng.random()
        if how < 0.7:
            toks = [rng.choice(token_pool) for _ in range(rng.randint(0, 5))]
            if rng.random() < 0.5:
                toks = ["-"] * rng.randint(0, 3) + toks
        elif how < 0.85:
            toks = pyparsing.ParseResults(["-"] * rng.randint(0, 3) + [rng.choice(["3", "mean", "+"])])
        elif how < 0.95:
            toks = tuple(["-"] * rng.randint(0, 2))
        else:
            toks = rng.choice(["--3", "", "-", 5, None])
        for fn_name in ("push_first", "push_unary_minus"):
            obs = []
            for impl in (OLD, NEW):
                start = len(impl.fx.exprStack)
                o = observe(lambda impl=impl: getattr(impl.fx, fn_name)(copy.deepcopy(toks)))
                obs.append((o, canon(impl.fx.exprStack[start:])))
            check(f"fx_parser.{fn_name}", (i, repr(toks)), obs[0], obs[1])
    check("fx_parser.exprStack at the end", 0, canon(OLD.fx.exprStack), canon(NEW.fx.exprStack))


# --------------------------------------------------------------------------------------
# config_creator
# --------------------------------------------------------------------------------------
TOKENS = ["1", "2.5", "-3", "1e3", "nan", "inf", "-inf", "mean", "min", "max", "std", "+", "-", "*", "/", "(", ")", "", "^", "sin", "mean+1", "(mean", "MEAN", "١", "0x10", "1_000", "_", "3)", "bbox", "std.", "**", "\t", "\n"]


def rand_fx_string(rng):
    how = rng.random()
    if how < 0.05:
        return rng.choice([5, None, ["mean"], 2.5, ("a",), b"mean + 1"])
    good = rng.random() < 0.5
    pool = TOKENS[:17] if good else TOKENS
    sep = " " if rng.random() < 0.9 else rng.choice(["  ", "\t", ""])
    return sep.join(rng.choice(pool) for _ in range(rng.randint(0, 6)))


VALID_VARIABLE_CONFIG = {
    "variable": "temp",
    "bbox": [-5, -5, 5, 5],
    "start_time": "2020-01-01",
    "end_time": "2020-01-08",
    "tests": {
        "gross_range_test": {"suspect_min": "1", "suspect_max": "mean + 1", "fail_min": "min", "fail_max": "max"},
    },
}


def variable_config_case(rng):
    c = copy.deepcopy(VALID_VARIABLE_CONFIG)
    tests = {}
    for name in rng.sample(["gross_range_test", "spike_test", "location_test", "flat_line_test", "rate_of_change_test"], rng.randint(0, 3)):
        section = {}
        for key in rng.sample(["suspect_min", "suspect_max", "fail_min", "fail_max", "bbox", "threshold", "tolerance", "suspect_threshold"], rng.randint(0, 5)):
            section[key] = [-1, 0, 1, 2] if key == "bbox" and rng.random() < 0.8 else rand_fx_string(rng)
        tests[name] = section
    c["tests"] = tests
    how = rng.random()
    if how < 0.05:
        del c[rng.choice(list(c))]
    elif how < 0.08:
        c["tests"] = rng.choice([[], "text", None, {"t": None}, {"t": []}])
    elif how < 0.1:
        c["bbox"] = "nope"
    return c


class FakeSpec:
    """Stands in for variable/bbox/time/depth/pad of a subset request."""


def make_climatologies(tmpdir):
    # (a fine grid: a box over land is padded, half a degree at a time, until it reaches water)
    lat = np.arange(-2.0, 4.0, 1.0)  # 6
    lon = np.arange(-4.0, 4.0, 1.0)  # 8
    rs = np.random.RandomState(7)

    def months(year, with_first=False, with_last=False):
        days = [pd.Timestamp(year=year, month=m, day=15) for m in range(1, 13)]
        if with_first:
            days[0] = pd.Timestamp(year=year, month=1, day=1)
        if with_last:
            days[-1] = pd.Timestamp(year=year, month=12, day=31) + pd.Timedelta(days=0)
        return pd.DatetimeIndex(days)

    season = np.sin(np.arange(12) / 12.0 * 2 * np.pi)[:, None, None]
    base2 = 10 + 5 * season + rs.rand(12, lat.size, lon.size)
    land = np.zeros((lat.size, lon.size), dtype=bool)
    land[:2, :3] = True  # south west corner is land
    land[4, 5] = True
    v2 = base2.copy()
    v2[:, land] = np.nan
    vn = np.full_like(base2, np.nan)
    vz = np.zeros_like(base2)  # data that sum to zero are data
    vz[:, land] = np.nan
    d2 = xr.Dataset(
        {"v2": (("time", "lat", "lon"), v2), "vn": (("time", "lat", "lon"), vn), "vz": (("time", "lat", "lon"), vz)},
        coords={"time": months(2019), "lat": lat, "lon": lon},
    )
    base3 = np.stack([base2, base2 - 3], axis=1)
    v3 = base3.copy()
    v3[:, :, land] = np.nan
    v3[:, 1, :3, :] = np.nan  # deeper level: more land
    d3 = xr.Dataset(
        {"v3": (("time", "depth", "lat", "lon"), v3)},
        coords={"time": months(2018, with_first=True), "depth": [0.0, 50.0], "lat": lat, "lon": lon},
    )
    d4 = xr.Dataset(
        {"v4": (("time", "lat", "lon"), v2 + 1)},
        coords={"time": months(2020, with_last=True), "lat": lat, "lon": lon},
    )
    paths = {}
    for name, ds in (("d2", d2), ("d3", d3), ("d4", d4)):
        paths[name] = os.path.join(tmpdir, f"{name}.nc")
        ds.to_netcdf(paths[name], engine="scipy")
    return {
        "datasets": [
            {"name": "d2", "file_path": paths["d2"], "variables": {"temp": "v2", "nothing": "vn", "zero": "vz"}},
            {"name": "d3", "file_path": paths["d3"], "variables": {"salt": "v3"}, "3d": "depth"},
            {"name": "d4", "file_path": paths["d4"], "variables": {"air": "v4"}},
        ],
    }


def rand_bbox(rng, near=True):
    how = rng.random()
    if near:
        x0 = rng.choice([-5.2, -4, -3.7, -2.5, -1, 0, 1.3, 2.9, 3.4])
        y0 = rng.choice([-3.1, -2, -1.6, -0.5, 0, 1.5, 2.8, 3.2])
        if how < 0.35:
            # a box that holds no grid point (or only land): it has to be padded
            return [x0 + 0.3, y0 + 0.3, x0 + rng.choice([0.4, 1.2]), y0 + rng.choice([0.4, 1.2])]
        return [x0, y0, x0 + rng.choice([0, 1, 2, 3, 9]), y0 + rng.choice([0, 1, 2, 3, 7])]
    x0 = rng.choice([-180, -170, -60, 40, 100, 175, 180])
    y0 = rng.choice([-90, -85, -40, 30, 60, 88, 90])
    return [x0, y0, x0 + rng.choice([0, 2, -3]), y0 + rng.choice([0, 2, -3])]


def rand_time_slice(rng):
    start = datetime.datetime(rng.choice([2019, 2020, 2021, 2024]), rng.randint(1, 12), rng.randint(1, 28))
    days = rng.choice([1, 2, 3, 7, 20, 31, 90, 364, 365, 366, 400, -2])
    if rng.random() < 0.004:
        # no day at all: the empty subset counts as "no valid data", the box grows to the whole globe
        days = 0
    return start, start + datetime.timedelta(days=days)


def subset_case(rng):
    var = rng.choice(["temp", "temp", "salt", "air", "zero", "nothing", "unknown"])
    near = rng.random() < 0.8
    bbox = rand_bbox(rng, near)
    if rng.random() < 0.1:
        bbox = tuple(bbox)
    if rng.random() < 0.03:
        bbox = bbox[:3]
    kwargs = {}
    if rng.random() < 0.5:
        kwargs["depth"] = rng.choice([0, 1, 1, 2])
    if var == "nothing" or not near:
        kwargs["pad_delta"] = rng.choice([30, 45, 90, 200])
    elif rng.random() < 0.6:
        kwargs["pad_delta"] = rng.choice([0.5, 1, 2.5, 5, 30, 0])
    start, stop = rand_time_slice(rng)
    if rng.random() < 0.03:
        stop = start
        kwargs["pad_delta"] = rng.choice([30, 45, 90, 200])
    return var, bbox, (start, stop), kwargs


def stats_case(rng):
    var = rng.choice(["temp", "temp", "salt", "air", "zero", "unknown"])
    start, stop = rand_time_slice(rng)
    vc = {
        "variable": var,
        "bbox": rand_bbox(rng, True),
        "start_time": start.strftime("%Y-%m-%d"),
        "end_time": stop.strftime("%Y-%m-%d"),
    }
    how = rng.random()
    if how < 0.05:
        del vc[rng.choice(list(vc))]
    elif how < 0.09:
        vc[rng.choice(["start_time", "end_time"])] = rng.choice(["2020-13-01", "01/02/2020", "", "2020-01-01T00:00:00", 20200101, None])
    elif how < 0.095:
        vc["variable"] = "nothing"
        vc["bbox"] = [-176, -86, 176, 86]
    return vc


def check_config_creator(rng) -> None:
    holders = {impl: impl.cc.QcVariableConfig(copy.deepcopy(VALID_VARIABLE_CONFIG)) for impl in (OLD, NEW)}
    for i in range(N):
        fx = rand_fx_string(rng)
        name = rng.choice(["suspect_min", "fail_max", "", 5])
        obs = []
        own_stats = rng.random() < 0.02
        for impl in (OLD, NEW):
            holder = holders[impl]
            if own_stats:
                # the lists of what is allowed can be overridden on the instance
                holder = impl.cc.QcVariableConfig(copy.deepcopy(VALID_VARIABLE_CONFIG))
                holder.allowed_stats = ["mean", "sin"]
            obs.append((observe(lambda holder=holder: holder._validate_fx(fx, name), compare_message=True), canon(dict(holder))))
        check("config_creator.QcVariableConfig._validate_fx", (i, fx), obs[0], obs[1])
    for i in range(N):
        c = variable_config_case(rng)
        obs = []
        for impl in (OLD, NEW):
            mine = copy.deepcopy(c)
            o = observe(lambda impl=impl, mine=mine: canon(dict(impl.cc.QcVariableConfig(mine))))
            # jsonschema messages are long but deterministic; ValueError messages are ours
            if o[0][0] == "raise" and o[0][1] == "ValueError":
                o = observe(lambda impl=impl, mine=mine: canon(dict(impl.cc.QcVariableConfig(mine))), compare_message=True)
            obs.append((o, mine == c))
        check("config_creator.QcVariableConfig.__init__", i, obs[0], obs[1])

    tmpdir = tempfile.mkdtemp(prefix="equiv_clim_")
    creator_config = make_climatologies(tmpdir)
    creators = {}
    for impl in (OLD, NEW):
        creators[impl] = impl.cc.QcConfigCreator(impl.cc.CreatorConfig(copy.deepcopy(creator_config)))

    for i in range(N):
        var, bbox, (start, stop), kwargs = subset_case(rng)
        obs = []
        for impl in (OLD, NEW):
            mine = copy.deepcopy(bbox)
            o = observe(lambda impl=impl, mine=mine: canon(creators[impl]._get_subset(var, mine, slice(start, stop), **kwargs)))
            obs.append((o, canon(mine) == canon(bbox)))
        check("config_creator.QcConfigCreator._get_subset", (i, var, bbox, kwargs), obs[0], obs[1])

    for i in range(N):
        vc = stats_case(rng)
        obs = []
        for impl in (OLD, NEW):
            mine = copy.deepcopy(vc)

            def thunk(impl=impl, mine=mine):
                stats = creators[impl]._get_stats(mine)
                return list(stats), [value_obs(v) for v in stats.values()]

            obs.append((observe(thunk), mine == vc))
        check("config_creator.QcConfigCreator._get_stats", (i, vc), obs[0], obs[1])

    # the whole way through: create_config uses _get_stats and the (refactored) fx parser
    for i in range(N // 10):
        vc = copy.deepcopy(VALID_VARIABLE_CONFIG)
        vc["bbox"] = rand_bbox(rng, True)
        vc["variable"] = rng.choice(["temp", "salt", "air"])
        vc["tests"] = {"gross_range_test": {k: rand_expr_spaced(rng) for k in ("suspect_min", "suspect_max", "fail_min", "fail_max")}}
        obs = []
        for impl in (OLD, NEW):
            obs.append(observe(lambda impl=impl: canon(creators[impl].create_config(impl.cc.QcVariableConfig(copy.deepcopy(vc))))))
        check("config_creator.create_config (end to end)", i, obs[0], obs[1])


def rand_expr_spaced(rng):
    parts = [rng.choice(["mean", "min", "max", "std", "2", "0.5"])]
    for _ in range(rng.randint(0, 3)):
        parts += [rng.choice(["+", "-", "*", "/"]), rng.choice(["mean", "min", "max", "std", "2", "3.5"])]
    return " ".join(parts)


# --------------------------------------------------------------------------------------
def main() -> int:
    only = set(sys.argv[1:])
    sections = [
        ("streams", check_streams),
        ("config", check_config),
        ("stores", check_stores),
        ("fx", check_fx),
        ("config_creator", check_config_creator),
    ]
    import time

    for k, (name, section) in enumerate(sections):
        if only and name not in only:
            continue
        started = time.time()
        section(random.Random(SEED + k))
        print(f"[{name}: {time.time() - started:.0f}s]", flush=True)
    print()
    for label, count in COUNTS.items():
        bad = sum(1 for f in FAILURES if f[0] == label)
        print(f"{label:55s} {count:6d} inputs  {'ok' if not bad else f'{bad} MISMATCHES'}")
        if os.environ.get("EQUIV_VERBOSE"):
            print("      outcomes of the original:", dict(sorted(OUTCOMES[label].items(), key=lambda kv: -kv[1])))
    if FAILURES:
        print(f"\nFAILED: {len(FAILURES)} mismatching inputs")
        return 1
    print("\nall equivalent")
    return 0


if __name__ == "__main__":
    sys.exit(main())
