#!/usr/bin/env python
"""Differential check: refactored ioos_qc (this worktree) against the original in /repo.

Run as:  PYTHONPATH=<worktree> /venv/bin/python equiv.py [function-name ...]

The original package is loaded from /repo under the top-level name ``orig_ioos_qc``
(importlib.util.spec_from_file_location + submodule_search_locations); its own absolute
imports of ``ioos_qc`` are redirected to ``orig_ioos_qc`` so that nothing of the
refactored code leaks into the reference.
"""

import copy
import dataclasses
import datetime as dt
import importlib
import importlib.abc
import importlib.util
import logging
import random
import re
import sys
import warnings
from collections import OrderedDict, defaultdict
from pathlib import Path

import numpy as np
import pandas as pd

HERE = Path(__file__).resolve().parent
ORIG_ROOT = Path("/repo/ioos_qc")
ORIG_NAME = "orig_ioos_qc"
N_CASES = 3200

warnings.simplefilter("ignore")
np.seterr(all="ignore")


# --------------------------------------------------------------------------------------
# loading of the original package under another name
# --------------------------------------------------------------------------------------
class _RenamingLoader(importlib.abc.SourceLoader):
    def __init__(self, fullname, path) -> None:
        self.fullname = fullname
        self.path = str(path)

    def get_filename(self, fullname):
        return self.path

    def get_data(self, path):
        data = Path(path).read_bytes()
        if str(path).endswith(".py"):
            data = re.sub(rb"\bioos_qc\b", ORIG_NAME.encode(), data)
        return data

    def path_stats(self, path):  # never use a stale .pyc of the un-renamed source
        raise OSError


class _OrigFinder(importlib.abc.MetaPathFinder):
    def find_spec(self, fullname, path=None, target=None):
        if fullname == ORIG_NAME:
            init = ORIG_ROOT / "__init__.py"
            return importlib.util.spec_from_file_location(
                fullname,
                init,
                loader=_RenamingLoader(fullname, init),
                submodule_search_locations=[str(ORIG_ROOT)],
            )
        if fullname.startswith(ORIG_NAME + "."):
            rel = fullname.split(".")[1:]
            mod = ORIG_ROOT.joinpath(*rel).with_suffix(".py")
            if mod.exists():
                return importlib.util.spec_from_file_location(
                    fullname,
                    mod,
                    loader=_RenamingLoader(fullname, mod),
                )
        return None


sys.meta_path.insert(0, _OrigFinder())
sys.dont_write_bytecode = True

import ioos_qc  # noqa: E402  (the refactored package, from PYTHONPATH)

assert Path(ioos_qc.__file__).resolve().parent == HERE / "ioos_qc", ioos_qc.__file__

NEW = {m: importlib.import_module(f"ioos_qc.{m}") for m in ("qartod", "argo", "axds", "results", "streams", "config")}
OLD = {m: importlib.import_module(f"{ORIG_NAME}.{m}") for m in ("qartod", "argo", "axds", "results", "streams", "config")}
for _m in OLD.values():
    assert _m.__file__.startswith("/repo/"), _m.__file__
    assert _m.__name__.startswith(ORIG_NAME)
assert OLD["qartod"].QartodFlags is not NEW["qartod"].QartodFlags
assert OLD["argo"].QartodFlags is OLD["qartod"].QartodFlags


# --------------------------------------------------------------------------------------
# canonical form of anything the functions return (or are given)
# --------------------------------------------------------------------------------------
def _strip(name):
    return name.replace(ORIG_NAME, "ioos_qc") if isinstance(name, str) else name


def canon(o, depth=0):  # noqa: C901, PLR0911, PLR0912
    if depth > 12:
        return "<deep>"
    d = depth + 1
    if o is np.ma.masked:
        return ("masked-constant",)
    if isinstance(o, np.ma.MaskedArray):
        mask = np.ma.getmaskarray(o)
        data = np.asarray(o.data)
        if mask.any():
            # what sits under the mask is not a value (np.ma.masked_all leaves it uninitialised)
            data = data.copy()
            data[mask] = np.zeros((), dtype=data.dtype) if data.dtype != object else None
        return (
            "ma",
            type(o).__name__,
            o.dtype.str,
            o.shape,
            o._mask is np.ma.nomask,
            mask.tobytes(),
            canon(data, d),
            repr(o.fill_value),
            bool(o._hardmask),
        )
    if isinstance(o, np.ndarray):
        if o.dtype == object:
            return ("nd-object", o.shape, tuple(canon(x, d) for x in o.ravel().tolist()))
        return ("nd", type(o).__name__, o.dtype.str, o.shape, np.ascontiguousarray(o).tobytes())
    if isinstance(o, np.generic):
        return ("np-scalar", type(o).__name__, o.dtype.str, o.tobytes())
    if isinstance(o, pd.Series):
        return ("series", str(o.dtype), canon(o.to_numpy(), d), canon(o.index, d), repr(o.name))
    if isinstance(o, pd.Index):
        return ("index", type(o).__name__, str(o.dtype), canon(o.to_numpy(), d))
    if isinstance(o, pd.DataFrame):
        return ("frame", tuple(map(repr, o.columns)), tuple(canon(o[c], d) for c in o.columns), canon(o.index, d))
    if dataclasses.is_dataclass(o) and not isinstance(o, type):
        return (
            "dataclass",
            type(o).__name__,
            tuple((f.name, canon(getattr(o, f.name), d)) for f in dataclasses.fields(o)),
        )
    if isinstance(o, tuple) and hasattr(o, "_fields"):
        return ("namedtuple", type(o).__name__, tuple((f, canon(getattr(o, f), d)) for f in o._fields))
    if isinstance(o, (dict, OrderedDict, defaultdict)):
        return ("dict", type(o).__name__, tuple((canon(k, d), canon(v, d)) for k, v in o.items()))
    if isinstance(o, (list, tuple)):
        return (type(o).__name__, tuple(canon(x, d) for x in o))
    if callable(o) and hasattr(o, "__name__"):
        return ("callable", _strip(getattr(o, "__module__", None)), o.__name__)
    if isinstance(o, float):
        return ("float", repr(o))
    if o is None or isinstance(o, (bool, int, str, bytes)):
        return (type(o).__name__, o)
    return ("obj", type(o).__name__, re.sub(r"0x[0-9a-f]+", "0x", _strip(repr(o))))


# --------------------------------------------------------------------------------------
# running one side
# --------------------------------------------------------------------------------------
class _Capture(logging.Handler):
    def __init__(self) -> None:
        super().__init__(level=logging.DEBUG)
        self.records = []

    def emit(self, record) -> None:
        self.records.append((record.levelname, _strip(record.name), _strip(record.getMessage())))


_CAP = _Capture()
for _root in ("ioos_qc", ORIG_NAME):
    _lg = logging.getLogger(_root)
    _lg.addHandler(_CAP)
    _lg.setLevel(logging.DEBUG)
    _lg.propagate = False


def _clean_message(e):
    msg = _strip(str(e))
    return re.sub(r"0x[0-9a-f]+", "0x", msg)


def outcome(call, args, kwargs, post=None):
    """Call ``call(*args, **kwargs)`` on private copies of the arguments.

    Returns what came out (or the exception type and message), what was logged and what the
    arguments look like afterwards, all in canonical form.
    """
    args = copy.deepcopy(args)
    kwargs = copy.deepcopy(kwargs)
    _CAP.records = []
    try:
        with warnings.catch_warnings():
            warnings.simplefilter("ignore")
            res = call(*args, **kwargs)
            if post is not None:
                res = post(res)
        out = ("ok", canon(res))
    except Exception as e:  # noqa: BLE001
        out = ("raise", type(e).__module__ + "." + type(e).__name__, _clean_message(e))
    return out, tuple(_CAP.records), canon((args, kwargs))


class Mismatch(Exception):
    pass


STATS = {}


def compare(name, old_call, new_call, args=(), kwargs=None, post=None) -> None:
    kwargs = kwargs or {}
    a = outcome(old_call, args, kwargs, post)
    b = outcome(new_call, args, kwargs, post)
    st = STATS.setdefault(name, {"n": 0, "ok": 0, "raise": 0, "kinds": set()})
    st["n"] += 1
    st[a[0][0]] += 1
    if a[0][0] == "raise":
        st["kinds"].add(a[0][1])
    if a != b:
        what = "result" if a[0] != b[0] else ("log" if a[1] != b[1] else "arguments after the call")
        msg = (
            f"{name}: {what} differs\n  args={args!r}\n  kwargs={kwargs!r}\n"
            f"  original:   {a[0]!r}\n  refactored: {b[0]!r}\n"
            f"  original log:   {a[1]!r}\n  refactored log: {b[1]!r}"
        )
        raise Mismatch(msg)


# --------------------------------------------------------------------------------------
# generators of inputs
# --------------------------------------------------------------------------------------
R = random.Random(20261003)
NAN = float("nan")
INF = float("inf")

NICE = [0, 1, 2, 3, 4, 5, -1, -2, 10, 0.5, 1.5, 2.5, -0.5, 9, 20, 100, -100, 1e-9, 3.0000001, 7]


def number(r=R, special=0.25):
    x = r.random()
    if x < special:
        return r.choice([NAN, None, INF, -INF, NAN, None, -0.0, 1e308, -1e308, 1e-320])
    if x < 0.8:
        return r.choice(NICE)
    if x < 0.9:
        return r.randint(-50, 50)
    return round(r.uniform(-30, 30), r.choice([0, 1, 3, 12]))


def finite(r=R):
    while True:
        v = number(r, special=0.0)
        if v is not None:
            return v


def values(n=None, r=R, special=0.25):
    n = r.randint(0, 8) if n is None else n
    # a flat stretch now and then so that repeated values / zero differences show up
    out = []
    while len(out) < n:
        v = number(r, special)
        out.extend([v] * r.choice([1, 1, 1, 2, 3]))
    return out[:n]


def container(vals, r=R, allow_2d=True):  # noqa: PLR0911
    """The same values in one of the shapes a caller may hand over."""
    k = r.random()
    has_none = any(v is None for v in vals)
    if k < 0.30:
        return list(vals)
    if k < 0.36:
        return tuple(vals)
    if k < 0.60:
        return np.array(vals, dtype=np.float64)  # None -> nan
    if k < 0.66 and not has_none:
        return np.array(vals, dtype=np.float32)
    if k < 0.72 and all(v is not None and v == v and abs(v) < 1e6 for v in vals):
        return np.array([int(v) for v in vals], dtype=r.choice([np.int64, np.int32, np.int16, np.uint8, np.uint16]))
    if k < 0.80:
        arr = np.array(vals, dtype=np.float64)
        mask = [r.random() < 0.25 for _ in vals]
        return np.ma.array(arr, mask=mask)
    if k < 0.86:
        return pd.Series(vals, dtype="float64")
    if k < 0.90:
        return np.array(vals, dtype=object)
    if k < 0.96 and allow_2d and len(vals) >= 2 and len(vals) % 2 == 0:
        return np.array(vals, dtype=np.float64).reshape(2, -1)
    if k < 0.98 and allow_2d and len(vals) >= 1:
        return np.array(vals, dtype=np.float64).reshape(-1, 1)
    return list(vals)


def threshold(r=R, none=0.15):
    x = r.random()
    if x < none:
        return None
    if x < none + 0.05:
        return NAN
    if x < none + 0.08:
        return r.choice([INF, -INF])
    if x < none + 0.12:
        return r.choice([np.float64(1.5), np.int64(2), np.float32(0.5), True, np.array(2.0)])
    if x < none + 0.14:
        return r.choice(["1", "a", [1], (1, 2)])
    return finite(r)


def pair(r=R, none=0.1):
    """A 2-span in odd orders, as a list or a tuple, now and then something else."""
    x = r.random()
    if x < 0.03:
        return r.choice([None, 5, "ab", (1,), [1, 2, 3], np.array([1, 2]), {1, 2}])
    a, b = threshold(r, none), threshold(r, none)
    if x < 0.5:
        return (a, b)
    return [a, b]


BASE = np.datetime64("2020-01-01T00:00:00")


def times(n, r=R):  # noqa: PLR0911, PLR0912
    """``n`` time stamps in one of the accepted spellings."""
    step = r.choice([1, 1, 10, 60, 3600, 86400, 0.5, 7 * 86400])
    k = r.random()
    secs = []
    t = r.choice([0, 1577836800, 1600000000, -86400, 1583020800])
    for _ in range(n):
        secs.append(t)
        m = r.random()
        if m < 0.7:
            t = t + step
        elif m < 0.8:
            t = t  # repeated time stamp
        elif m < 0.9:
            t = t + step * r.choice([2, 3, 5, 100])
        else:
            t = t - step  # going back
    if k < 0.25:
        return list(secs)  # unix epoch seconds
    if k < 0.35:
        return np.array(secs, dtype=np.float64)
    arr = np.array([np.datetime64(int(s * 1000), "ms") for s in secs], dtype="datetime64[ms]")
    if n and r.random() < 0.12:
        arr[r.randrange(n)] = np.datetime64("NaT")
    if k < 0.55:
        return arr.astype("datetime64[ns]")
    if k < 0.62:
        return arr.astype("datetime64[s]")
    if k < 0.68:
        return arr
    if k < 0.76:
        return pd.DatetimeIndex(arr.astype("datetime64[ns]"))
    if k < 0.82:
        return pd.Series(arr.astype("datetime64[ns]"))
    if k < 0.88:
        return pd.DatetimeIndex(arr.astype("datetime64[ns]")).tz_localize("UTC")
    if k < 0.92:
        return [pd.Timestamp(x) for x in arr.astype("datetime64[ns]")]
    if k < 0.95:
        return [str(x) for x in arr if not np.isnat(x)] if n else []
    if k < 0.97 and n >= 2 and n % 2 == 0:
        return arr.astype("datetime64[ns]").reshape(2, -1)
    return arr.astype("datetime64[ns]")


def length(r=R):
    return r.choice([0, 1, 2, 3, 3, 4, 4, 5, 5, 6, 7, 8])


def other_length(n, r=R):
    """Mostly the same length, sometimes not."""
    return n if r.random() < 0.93 else length(r)


CASES = {}


def case(name):
    def deco(fn):
        CASES[name] = fn
        return fn

    return deco


# --------------------------------------------------------------------------------------
# qartod
# --------------------------------------------------------------------------------------
def _both(mod, name):
    return getattr(OLD[mod], name), getattr(NEW[mod], name)


@case("gross_range_test")
def _gross_range() -> None:
    old, new = _both("qartod", "gross_range_test")
    for _ in range(N_CASES):
        inp = container(values())
        kwargs = {"fail_span": pair()}
        if R.random() < 0.7:
            kwargs["suspect_span"] = pair(none=0.05) if R.random() < 0.9 else None
        if R.random() < 0.5 and isinstance(kwargs["fail_span"], (list, tuple)) and len(kwargs["fail_span"]) == 2:
            # a suspect span that is (mostly) inside the fail span
            lo, hi = finite(), finite()
            lo, hi = min(lo, hi), max(lo, hi)
            kwargs["fail_span"] = R.choice([(lo, hi), (hi, lo), [lo, hi]])
            if R.random() < 0.8:
                a = lo + (hi - lo) * R.choice([0, 0.25, 0.5])
                b = hi - (hi - lo) * R.choice([0, 0.25, 0.5])
                kwargs["suspect_span"] = R.choice([(a, b), (b, a), [b, a]])
        if R.random() < 0.5:
            kwargs = dict(reversed(list(kwargs.items())))
        compare("gross_range_test", old, new, (inp,), kwargs)


@case("spike_test")
def _spike() -> None:
    old, new = _both("qartod", "spike_test")
    for _ in range(N_CASES):
        inp = container(values())
        kwargs = {}
        if R.random() < 0.85:
            kwargs["suspect_threshold"] = threshold()
        if R.random() < 0.85:
            kwargs["fail_threshold"] = threshold()
        if R.random() < 0.7:
            kwargs["method"] = R.choice(["average", "differential", "differential", "median", None, "AVERAGE"])
        if R.random() < 0.5:
            kwargs = dict(reversed(list(kwargs.items())))
        compare("spike_test", old, new, (inp,), kwargs)


@case("rate_of_change_test")
def _roc() -> None:
    old, new = _both("qartod", "rate_of_change_test")
    for _ in range(N_CASES):
        n = length()
        kwargs = {
            "threshold": threshold(none=0.05),
            "tinp": times(other_length(n)),
            "inp": container(values(n)),
        }
        compare("rate_of_change_test", old, new, (), kwargs)


@case("flat_line_test")
def _flat_line() -> None:
    old, new = _both("qartod", "flat_line_test")
    for _ in range(N_CASES):
        n = length()
        inp = container(values(n, special=0.15))
        tinp = times(other_length(n))

        def thr():
            x = R.random()
            if x < 0.04:
                return None
            if x < 0.08:
                return R.choice([-1, -100, NAN, INF, "3", 1e30])
            return R.choice([0, 1, 2, 3, 5, 10, 20, 60, 120, 3600, 7200, 86400, 2.5, 1e6])

        kwargs = {"suspect_threshold": thr(), "fail_threshold": thr()}
        if R.random() < 0.8:
            kwargs["tolerance"] = R.choice([0, 0, 0.1, 1, 2, 5, 1e-9, 100, NAN, INF, None, -1, np.float64(1)])
        compare("flat_line_test", old, new, (inp, tinp), kwargs)


@case("attenuated_signal_test")
def _attenuated() -> None:
    old, new = _both("qartod", "attenuated_signal_test")
    for _ in range(N_CASES):
        n = length()
        inp = container(values(n, special=0.15))
        tinp = times(other_length(n))
        kwargs = {"suspect_threshold": threshold(none=0.05), "fail_threshold": threshold(none=0.05)}
        if R.random() < 0.6:
            kwargs["test_period"] = R.choice([None, 0, 1, 2, 5, 30, 60, 3600, 86400, 2.5, -1, "5"])
        if R.random() < 0.35:
            kwargs["min_obs"] = R.choice([None, 0, 1, 2, 3, 10, -1, 1.5])
        if R.random() < 0.35:
            kwargs["min_period"] = R.choice([None, 0, 1, 2, 10, 60, 3600, 1.5])
        if R.random() < 0.75:
            kwargs["check_type"] = R.choice(["std", "range", "range", "std", "ptp", None])
        if R.random() < 0.1:
            kwargs["extra"] = 1
        compare("attenuated_signal_test", old, new, (inp, tinp), kwargs)


@case("density_inversion_test")
def _density() -> None:
    old, new = _both("qartod", "density_inversion_test")
    for _ in range(N_CASES):
        n = length()
        inp = container(values(n, special=0.15))
        zinp = container(values(other_length(n), special=0.15))
        kwargs = {}
        if R.random() < 0.85:
            kwargs["suspect_threshold"] = threshold()
        if R.random() < 0.85:
            kwargs["fail_threshold"] = threshold()
        compare("density_inversion_test", old, new, (inp, zinp), kwargs)


@case("location_test")
def _location() -> None:
    old, new = _both("qartod", "location_test")
    for _ in range(N_CASES):
        n = length()

        def coords(m, scale):
            out = []
            for _ in range(m):
                x = R.random()
                if x < 0.15:
                    out.append(R.choice([NAN, None, INF, -INF]))
                elif x < 0.3:
                    out.append(R.choice([scale, -scale, scale + 1, -scale - 0.5, 0]))
                else:
                    out.append(round(R.uniform(-scale * 1.1, scale * 1.1), R.choice([0, 2, 6])))
            return out

        lon = container(coords(n, 180))
        lat = container(coords(other_length(n), 90))
        kwargs = {}
        if R.random() < 0.6:
            x = R.random()
            if x < 0.08:
                kwargs["bbox"] = R.choice([None, (1, 2, 3), [1, 2, 3, 4, 5], "abcd", 7])
            else:
                box = [threshold(none=0.04) for _ in range(4)]
                if R.random() < 0.6:
                    box = [R.choice([-180, -80, -10, 0]), R.choice([-90, -40, 0]), R.choice([0, 10, 80, 180]), R.choice([0, 40, 90])]
                kwargs["bbox"] = R.choice([tuple(box), list(box)])
        if R.random() < 0.5:
            kwargs["range_max"] = R.choice([None, 0, 1, 1000, 1e5, 1e6, 1e7, NAN, INF, -1, "1", np.float64(5e5)])
        compare("location_test", old, new, (lon, lat), kwargs)


@case("qartod_compare")
def _qartod_compare() -> None:
    old, new = _both("qartod", "qartod_compare")
    flags = [1, 2, 3, 4, 9, 1, 1, 4, 9, 2, 0, 5, 7]
    for _ in range(N_CASES):
        n = length()
        nvec = R.choice([0, 1, 1, 2, 2, 3, 4])
        vectors = []
        for _ in range(nvec):
            m = n if R.random() < 0.95 else length()
            vals = [R.choice(flags) for _ in range(m)]
            k = R.random()
            if k < 0.35:
                v = np.array(vals, dtype="uint8")
            elif k < 0.5:
                v = np.array(vals, dtype=R.choice(["int64", "float64", "int8", "float32"]))
            elif k < 0.7:
                v = np.ma.array(np.array(vals, dtype="uint8"), mask=[R.random() < 0.3 for _ in vals])
            elif k < 0.8:
                v = np.ma.array(np.array(vals, dtype="uint8"))
            elif k < 0.86:
                v = pd.Series(vals, dtype="uint8")
            elif k < 0.9:
                v = np.array([R.choice([1, 2, 3, 4, 9, NAN]) for _ in range(m)], dtype="float64")
            elif k < 0.93:
                v = list(vals)
            elif k < 0.96 and m >= 2 and m % 2 == 0:
                v = np.array(vals, dtype="uint8").reshape(2, -1)
            elif k < 0.98:
                v = np.array(4, dtype="uint8")
            else:
                v = np.array(vals, dtype=object)
            vectors.append(v)
        if R.random() < 0.1:
            vectors = tuple(vectors)
        compare("qartod_compare", old, new, (vectors,))


def _clim_config(mod, members):
    cfg = mod.ClimatologyConfig()
    for m in members:
        cfg.add(**copy.deepcopy(m))
    return cfg


def _clim_members():
    members = []
    for _ in range(R.choice([0, 1, 1, 2, 2, 3, 4])):
        m = {}
        x = R.random()
        if x < 0.45:
            m["tspan"] = R.choice(
                [
                    ("2020-01-01", "2020-02-01"),
                    ("2020-01-01T00:00:05", "2019-12-31"),
                    (np.datetime64("2020-01-01T00:00:02"), np.datetime64("2020-01-01T00:01:00")),
                    ("1970-01-01", "2030-01-01"),
                    [pd.Timestamp("2020-01-01T00:00:10"), pd.Timestamp("2020-01-01T00:00:00")],
                ],
            )
        else:
            m["period"] = R.choice(["month", "week", "weekofyear", "dayofyear", "dayofweek", "quarter", "year", "hour", "second"])
            m["tspan"] = R.choice([(0, 1), (1, 1), (0, 60), (1, 12), (52, 1), (2, 4), (0, 366), (2019, 2021), (3, 3.5)])
        lo, hi = finite(), finite()
        m["vspan"] = R.choice([(lo, hi), [hi, lo]])
        if R.random() < 0.5:
            a, b = finite(), finite()
            m["fspan"] = (a, b) if R.random() < 0.95 else None
        if R.random() < 0.45:
            a, b = R.choice([0, 1, 5, 10, -5]), R.choice([0, 5, 10, 100, 2.5])
            m["zspan"] = (a, b) if R.random() < 0.95 else None
        if R.random() < 0.5:
            m = dict(reversed(list(m.items())))
        members.append(m)
    return members


def _clim_times(n):
    while True:
        t = times(n)
        try:
            return pd.DatetimeIndex(NEW["qartod"].mapdates(t).flatten())
        except Exception:  # noqa: BLE001, S112
            continue


@case("ClimatologyConfig.check")
def _climatology() -> None:
    for i in range(N_CASES):
        members = _clim_members()
        n = length()
        vals = values(n, special=0.2)
        zvals = values(other_length(n), special=0.3)
        if i % 2 == 0:
            # through the public test: the inputs are converted on the way in
            def run(mod, config, inp, tinp, zinp):
                return mod.climatology_test(_clim_config(mod, config), inp, tinp, zinp)

            tinp = times(other_length(n))
            x = R.random()
            zinp = None if x < 0.05 else (container(zvals) if x < 0.8 else [None] * len(zvals))
            args = (members, container(vals), tinp, zinp)
        else:
            # straight into check(), also with inputs the test itself would not build
            def run(mod, config, tinp, inp, zinp):
                return _clim_config(mod, config).check(tinp, inp, zinp)

            arr = np.array(vals, dtype=np.float64)
            x = R.random()
            if x < 0.6:
                inp = np.ma.masked_invalid(arr)
            elif x < 0.75:
                inp = np.ma.array(arr, mask=[R.random() < 0.3 for _ in vals])
            elif x < 0.85:
                inp = np.ma.array(arr)
            elif x < 0.92:
                inp = np.ma.masked_invalid(arr).astype(np.float32)
            else:
                inp = np.ma.array(np.nan_to_num(arr, posinf=9, neginf=-9).astype(np.int64))
            zarr = np.array(zvals, dtype=np.float64)
            x = R.random()
            if x < 0.7:
                zinp = np.ma.masked_invalid(zarr)
            elif x < 0.85:
                zinp = np.ma.array(zarr, mask=[R.random() < 0.5 for _ in zvals])
            elif x < 0.93:
                zinp = np.ma.array(zarr)
            else:
                zinp = np.ma.masked_all(len(zvals))
            args = (members, _clim_times(other_length(n)), inp, zinp)

        compare(
            "ClimatologyConfig.check",
            lambda *a, run=run: run(OLD["qartod"], *a),
            lambda *a, run=run: run(NEW["qartod"], *a),
            args,
        )


# --------------------------------------------------------------------------------------
# argo / axds
# --------------------------------------------------------------------------------------
@case("speed_test")
def _speed() -> None:
    old, new = _both("argo", "speed_test")
    for _ in range(N_CASES):
        n = R.choice([0, 1, 2, 2, 3, 3, 4, 5, 6])

        def coords(m, scale):
            out = []
            for _ in range(m):
                x = R.random()
                if x < 0.12:
                    out.append(R.choice([NAN, None, NAN, INF]))
                elif x < 0.3 and out:
                    out.append(out[-1])  # did not move
                else:
                    out.append(round(R.uniform(-scale, scale), R.choice([0, 1, 4])))
            return out

        lon = container(coords(n, 179))
        lat = container(coords(other_length(n), 89))
        tinp = times(other_length(n))
        kwargs = {
            "suspect_threshold": R.choice([threshold(none=0.04), 1, 10, 100, 1000, 1e4, 1e5]),
            "fail_threshold": R.choice([threshold(none=0.04), 5, 50, 500, 5000, 1e5, 1e6]),
        }
        compare("speed_test", old, new, (lon, lat, tinp), kwargs)


@case("pressure_increasing_test")
def _pressure() -> None:
    old, new = _both("argo", "pressure_increasing_test")
    for _ in range(N_CASES):
        n = length()
        x = R.random()
        if x < 0.35:
            start = R.choice([0, 10, -5, 100])
            vals = []
            for _ in range(n):
                vals.append(start)
                start += R.choice([1, 1, 2, 0, -1, 5, 0.5])
            if R.random() < 0.4:
                vals = vals[::-1]
        else:
            vals = values(n, special=0.12)
        inp = container(vals)
        if R.random() < 0.03:
            inp = R.choice([5, None, "abc", np.array(3.0)])
        compare("pressure_increasing_test", old, new, (inp,))


@case("valid_range_test")
def _valid_range() -> None:
    old, new = _both("axds", "valid_range_test")
    for _ in range(N_CASES):
        n = length()
        kwargs = {}
        x = R.random()
        if x < 0.55:
            inp = container(values(n))
            span = pair(none=0.12)
            if R.random() < 0.35:
                kwargs["dtype"] = R.choice([np.float64, np.float32, np.int64, "float64", "uint8", np.dtype("int32"), object, "datetime64[ns]", None])
        elif x < 0.9:
            inp = times(n)
            lo = BASE + np.timedelta64(R.choice([0, 1, 2, 10, 60, 3600, -5]), "s")
            hi = BASE + np.timedelta64(R.choice([0, 3, 20, 120, 86400 * 40]), "s")
            conv = R.choice(
                [
                    lambda v: v,
                    lambda v: v.astype("datetime64[ns]"),
                    lambda v: pd.Timestamp(v),
                    lambda v: str(v),
                    lambda v: v.astype(dt.datetime),
                ],
            )
            a, b = conv(lo), conv(hi)
            if R.random() < 0.15:
                a = R.choice([None, np.datetime64("NaT")])
            if R.random() < 0.15:
                b = R.choice([None, np.datetime64("NaT")])
            span = R.choice([(a, b), [a, b], (b, a)])
            if R.random() < 0.4:
                kwargs["dtype"] = R.choice(["datetime64[ns]", np.dtype("datetime64[s]"), "datetime64[ms]", np.float64])
        else:
            inp = R.choice([["a", "b"], [b"x"], 5, None, [dt.datetime(2020, 1, 1), dt.datetime(2020, 1, 2)], [[1, 2], [3]]])
            span = pair()
        kwargs["valid_span"] = span
        if R.random() < 0.6:
            kwargs["start_inclusive"] = R.choice([True, False, 1, 0, None])
        if R.random() < 0.6:
            kwargs["end_inclusive"] = R.choice([True, False, 1, 0, None])
        compare("valid_range_test", old, new, (inp,), kwargs)


# --------------------------------------------------------------------------------------
# results
# --------------------------------------------------------------------------------------
def _fake_results(mod_results, mod_qartod, spec):
    """Build the ContextResult / CallResult objects of one package from a plain description."""
    out = []
    for item in spec:
        if item[0] == "call":
            _, package, test, flags = item
            out.append(
                mod_results.CallResult(
                    package=package,
                    test=test,
                    function=getattr(mod_qartod, test, mod_qartod.gross_range_test),
                    results=copy.deepcopy(flags),
                ),
            )
        else:
            _, stream_id, subset, calls, inputs, as_generator = item
            crs = [
                mod_results.CallResult(
                    package=package,
                    test=test,
                    function=getattr(mod_qartod, test, mod_qartod.gross_range_test),
                    results=copy.deepcopy(flags),
                )
                for package, test, flags in calls
            ]
            out.append(
                mod_results.ContextResult(
                    stream_id=stream_id,
                    results=iter(crs) if as_generator else crs,
                    subset_indexes=copy.deepcopy(subset),
                    **copy.deepcopy(inputs),
                ),
            )
    return out


def _results_spec():  # noqa: C901, PLR0912
    n = R.choice([0, 1, 2, 3, 4, 5, 6])
    tests = ["gross_range_test", "spike_test", "flat_line_test", "location_test"]
    spec = []
    full_time = BASE + np.arange(n).astype("timedelta64[s]")
    for _ in range(R.choice([0, 1, 1, 2, 2, 3, 4])):
        if R.random() < 0.15:
            flags = np.ma.array(np.array([R.choice([1, 2, 3, 4, 9]) for _ in range(n)], dtype="uint8"))
            spec.append(("call", R.choice(["qartod", "axds", "var1"]), R.choice(tests), flags))
            continue
        x = R.random()
        if x < 0.35:
            subset = np.ones(n, dtype=bool)
        elif x < 0.45:
            subset = np.zeros(n, dtype=bool)
        else:
            subset = np.array([R.random() < 0.6 for _ in range(n)], dtype=bool)
        if R.random() < 0.04:
            subset = R.choice([None, list(subset), np.ma.array(subset, mask=~subset)])
        k = int(np.sum(np.asarray(subset))) if isinstance(subset, np.ndarray) else n
        if R.random() < 0.04:
            k = max(0, k + R.choice([-1, 1]))
        calls = []
        for _ in range(R.choice([0, 1, 1, 2, 3])):
            flags = np.array([R.choice([1, 2, 3, 4, 9]) for _ in range(k)], dtype=R.choice(["uint8", "uint8", "int64", "float64"]))
            if R.random() < 0.6:
                flags = np.ma.array(flags, mask=[R.random() < 0.15 for _ in range(k)] if R.random() < 0.4 else False)
            calls.append((R.choice(["qartod", "qartod", "axds"]), R.choice(tests), flags))
        inputs = {}
        present = R.random()
        for key in ("data", "tinp", "zinp", "lat", "lon"):
            if present < 0.08 and R.random() < 0.5:
                continue  # left at the default None
            if key == "tinp":
                inputs[key] = full_time[np.asarray(subset)].copy() if isinstance(subset, np.ndarray) and len(full_time[np.asarray(subset)]) == k else full_time[:k].copy()
                if R.random() < 0.1:
                    inputs[key] = np.array([], dtype="datetime64[ns]")
            else:
                arr = np.array(values(k, special=0.1), dtype=np.float64)
                if R.random() < 0.2:
                    arr = arr.astype(R.choice([np.float32, object]))
                if R.random() < 0.08:
                    arr = np.array([], dtype="float64")
                inputs[key] = arr
        spec.append(("context", R.choice(["var1", "var2", "var1", None]), subset, calls, inputs, R.random() < 0.15))
    return spec


def _collect_case(name, how) -> None:
    for _ in range(N_CASES):
        spec = _results_spec()

        def run(side, spec, name=name):
            mod = side["results"]
            fake = _fake_results(mod, side["qartod"], spec)
            before = canon(fake)
            res = getattr(mod, name)(fake)
            # what the function gives back, what it did to what it was given, and whether
            # the collected arrays are the caller's own arrays or fresh ones
            shared = []
            if how == "list":
                for c in res:
                    for r in fake:
                        if hasattr(r, "subset_indexes"):
                            shared.append(tuple(getattr(c, k) is getattr(r, k) for k in ("data", "tinp", "zinp", "lat", "lon")))
            else:
                for r in fake:
                    if not hasattr(r, "subset_indexes"):
                        shared.append(res[r.package][r.test] is r.results)
            return res, before, canon(fake), shared

        compare(name, lambda s: run(OLD, s), lambda s: run(NEW, s), (spec,))


@case("collect_results_list")
def _collect_list() -> None:
    _collect_case("collect_results_list", "list")


@case("collect_results_dict")
def _collect_dict() -> None:
    _collect_case("collect_results_dict", "dict")


# --------------------------------------------------------------------------------------
# streams
# --------------------------------------------------------------------------------------
def _window(n):
    x = R.random()
    if x < 0.3:
        return None

    def edge():
        y = R.random()
        if y < 0.25:
            return None
        t = BASE + np.timedelta64(R.choice([0, 1, 2, 3, 5, 10, -5, 3600]) * R.choice([1, 1, 60]), "s")
        return R.choice(
            [
                lambda v: pd.Timestamp(v),
                lambda v: v.astype("datetime64[ns]"),
                lambda v: v.astype(dt.datetime),
                lambda v: str(v),
            ],
        )(t)

    w = {}
    if R.random() < 0.85:
        w["starting"] = edge()
    if R.random() < 0.85:
        w["ending"] = edge()
    return w


def _stream_tests(n):
    tests = {}
    pool = [
        ("qartod", "gross_range_test", lambda: {"fail_span": [finite(), finite()], "suspect_span": None}),
        ("qartod", "gross_range_test", lambda: {"fail_span": [-100, 100], "suspect_span": [-10, 10]}),
        ("qartod", "spike_test", lambda: {"suspect_threshold": finite(), "fail_threshold": finite()}),
        ("qartod", "rate_of_change_test", lambda: {"threshold": abs(finite())}),
        ("qartod", "flat_line_test", lambda: {"suspect_threshold": R.choice([1, 2, 60]), "fail_threshold": R.choice([3, 5, 120]), "tolerance": R.choice([0, 1, 5])}),
        ("qartod", "location_test", lambda: {"bbox": [-80, -40, 80, 40]}),
        ("qartod", "density_inversion_test", lambda: {"suspect_threshold": 1, "fail_threshold": 2}),
        ("argo", "pressure_increasing_test", lambda: None),
        ("axds", "valid_range_test", lambda: {"valid_span": [finite(), finite()]}),
        ("qartod", "no_such_test", lambda: {}),
        ("nopackage", "gross_range_test", lambda: {"fail_span": [0, 1]}),
        ("qartod", "gross_range_test", lambda: {"fail_span": [0, 1, 2]}),
        ("qartod", "aggregate", lambda: None),
    ]
    for _ in range(R.choice([1, 1, 2, 3])):
        package, test, kw = R.choice(pool)
        tests.setdefault(package, {})[test] = kw()
    return tests


def _stream_config(n, with_inp=False):
    contexts = []
    for _ in range(R.choice([1, 1, 2, 3])):
        c = {}
        w = _window(n)
        if w is not None:
            c["window"] = w
        if R.random() < 0.2:
            c["region"] = R.choice(
                [
                    None,
                    {"geometry": {"type": "Point", "coordinates": [-72, 34]}},
                    {"features": [{"geometry": {"type": "Point", "coordinates": [1, 2]}}]},
                ],
            )
        streams = {}
        for sid in R.sample(["var1", "var2", "var3", "time", "z"], R.choice([1, 1, 2, 3])):
            streams[sid] = _stream_tests(n)
            if with_inp and R.random() < 0.7:
                for tests in streams[sid].values():
                    for kw in tests.values():
                        if isinstance(kw, dict) and R.random() < 0.7:
                            kw["inp"] = values(n, special=0.1)
        c["streams"] = streams
        contexts.append(c)
    if len(contexts) == 1 and R.random() < 0.5:
        return contexts[0]
    return {"contexts": contexts}


def _run_stream(side, kind, config, build_args, meddle=()):
    cfg = side["config"].Config(config)
    stream = getattr(side["streams"], kind)(**build_args)
    out = []
    gen = stream.run(cfg)
    for cr in gen:
        # what the stream holds while its consumer runs is part of what can be seen
        out.append((cr, canon(getattr(stream, "inp", None))))
        # the consumer runs between two results and may well touch the stream
        for after, attr, value in meddle:
            if after == len(out):
                setattr(stream, attr, copy.deepcopy(value))
    aliases = []
    for cr, _ in out:
        for key, field in (("z", "zinp"), ("lat", "lat"), ("lon", "lon")):
            aliases.append(getattr(cr, field) is build_args.get(key))
        aliases.append(cr.data is build_args.get("inp"))
    same_subset = [a[0].subset_indexes is b[0].subset_indexes for a, b in zip(out, out[1:])]
    return out, canon(getattr(stream, "inp", None)), aliases, same_subset


@case("NumpyStream.run")
def _numpy_stream() -> None:
    for _ in range(N_CASES):
        n = R.choice([0, 1, 2, 3, 4, 5, 6])
        x = R.random()
        with_inp = False

        def arr(m=n):
            a = np.array(values(m, special=0.12), dtype=np.float64)
            y = R.random()
            if y < 0.06 and m:
                return a.reshape(-1, 1)
            if y < 0.10:
                return np.ma.masked_invalid(a)
            if y < 0.14:
                return a.astype(np.float32)
            return a

        if x < 0.45:
            inp = arr()
        elif x < 0.8:
            inp = {sid: arr(n if R.random() < 0.95 else length()) for sid in R.sample(["var1", "var2", "var3", "z"], R.choice([0, 1, 2, 3]))}
        elif x < 0.92:
            inp = None
            with_inp = True
        else:
            inp = R.choice([list(values(n)), pd.Series(values(n), dtype="float64"), 5, "abc"])
        args = {"inp": inp}
        if R.random() < 0.75:
            t = BASE + np.cumsum(np.array([R.choice([0, 1, 1, 2, 60, -1]) for _ in range(n)], dtype="int64")).astype("timedelta64[s]")
            args["time"] = R.choice([lambda v: v, lambda v: v.astype("datetime64[ns]"), lambda v: pd.DatetimeIndex(v), lambda v: list(v.astype("int64"))])(t)
            if R.random() < 0.05:
                args["time"] = args["time"][:-1]
        for key in ("z", "lat", "lon"):
            if R.random() < 0.5:
                args[key] = np.array(values(n if R.random() < 0.97 else length(), special=0.1), dtype=np.float64)
        if R.random() < 0.05:
            args["geom"] = None
        config = _stream_config(n, with_inp)
        meddle = []
        if R.random() < 0.3:
            for _ in range(R.choice([1, 1, 2])):
                attr = R.choice(["inp", "inp", "inp", "tinp", "zinp", "lat", "lon"])
                if attr == "inp":
                    value = R.choice([None, arr(), {sid: arr() for sid in ("var1", "var2")}, [1, 2]])
                elif attr == "tinp":
                    value = R.choice([None, pd.DatetimeIndex(BASE + (np.arange(n) * R.choice([1, 5])).astype("timedelta64[s]"))])
                else:
                    value = R.choice([None, np.array(values(n, special=0.1), dtype=np.float64)])
                meddle.append((R.choice([1, 1, 2, 3]), attr, value))
        compare(
            "NumpyStream.run",
            lambda c, a, m: _run_stream(OLD, "NumpyStream", c, a, m),
            lambda c, a, m: _run_stream(NEW, "NumpyStream", c, a, m),
            (config, args, meddle),
        )


@case("PandasStream.run")
def _pandas_stream() -> None:
    for _ in range(N_CASES):
        n = R.choice([0, 1, 2, 3, 4, 5, 6])
        names = {"time": "time", "z": "z", "lat": "lat", "lon": "lon"}
        args = {}
        if R.random() < 0.25:
            names = {"time": "t", "z": "depth", "lat": "y", "lon": "x"}
            for k, v in names.items():
                if R.random() < 0.8:
                    args[k] = v
        cols = {}
        if R.random() < 0.8:
            t = BASE + np.cumsum(np.array([R.choice([0, 1, 1, 2, 60, -1]) for _ in range(n)], dtype="int64")).astype("timedelta64[s]")
            cols[names["time"]] = R.choice([lambda v: v.astype("datetime64[ns]"), lambda v: v, lambda v: pd.DatetimeIndex(v).tz_localize("UTC")])(t)
        for key in ("z", "lat", "lon"):
            if R.random() < 0.55:
                cols[names[key]] = np.array(values(n, special=0.1), dtype=np.float64)
        for sid in R.sample(["var1", "var2", "var3"], R.choice([0, 1, 2, 3])):
            cols[sid] = np.array(values(n, special=0.12), dtype=R.choice([np.float64, np.float64, np.float32]))
        items = list(cols.items())
        R.shuffle(items)
        x = R.random()
        if x < 0.7:
            index = None
        elif x < 0.8:
            index = R.sample(range(100), n)
        elif x < 0.9:
            index = [R.choice([0, 1, 2]) for _ in range(n)]  # repeated labels
        else:
            index = [f"r{i}" for i in range(n)]
        df = pd.DataFrame(dict(items), index=index)
        args["df"] = df
        if R.random() < 0.05:
            args["geom"] = "geom"
        config = _stream_config(n)
        meddle = []
        if R.random() < 0.3:
            for _ in range(R.choice([1, 1, 2])):
                attr = R.choice(["df", "df", "time_column", "z_column", "lat_column", "lon_column", "axis_columns"])
                if attr == "df":
                    other = df.copy()
                    for c in list(other.columns):
                        if R.random() < 0.3:
                            del other[c]
                        elif other[c].dtype.kind == "f":
                            other[c] = other[c] * 2 + 1
                    if R.random() < 0.4 and len(other):
                        other = other.iloc[:-1]
                    value = other
                elif attr == "axis_columns":
                    value = [c for c in ("time", "z", "lat", "lon", "t", "depth", "x", "y") if c in df and R.random() < 0.6]
                else:
                    value = R.choice(["time", "z", "lat", "lon", "var1", "nope"])
                meddle.append((R.choice([1, 1, 2, 3]), attr, value))
        compare(
            "PandasStream.run",
            lambda c, a, m: _run_stream(OLD, "PandasStream", c, a, m),
            lambda c, a, m: _run_stream(NEW, "PandasStream", c, a, m),
            (config, args, meddle),
        )


# --------------------------------------------------------------------------------------
def main(argv) -> int:
    import time

    names = argv or list(CASES)
    failed = 0
    for name in names:
        t0 = time.time()
        try:
            CASES[name]()
        except Mismatch as e:
            failed += 1
            print(f"FAIL {name}\n{str(e)[:6000]}")
            continue
        st = STATS[name]
        kinds = ", ".join(sorted(k.rsplit(".", 1)[-1] for k in st["kinds"]))
        print(
            f"ok   {name}: {st['n']} inputs, {st['ok']} returned, {st['raise']} raised"
            f" ({kinds}) in {time.time() - t0:.1f}s",
        )
        assert st["n"] >= 3000, name
    print("EQUIVALENT" if not failed else f"{failed} function(s) differ")
    return 1 if failed else 0


if __name__ == "__main__":
    sys.exit(main(sys.argv[1:]))
