"""Differential test: refactored ioos_qc (this worktree) against the original in /repo.

Run as:  PYTHONPATH=<worktree> /venv/bin/python equiv.py [-n CASES] [-k SUBSTRING]

The original package is loaded under the top-level name ``orig_ioos_qc`` (its absolute
``ioos_qc`` imports are rewritten on the fly so that it never touches the refactored modules).
Every function is called with the same generated arguments in both implementations; returned
values are compared including type, dtype, shape, raw data, mask and fill value, exceptions are
compared by type, log records by level and text, and the arguments after the call are compared
as well (so a new in-place mutation is noticed).
"""

import argparse
import copy
import datetime as dt
import importlib.abc
import importlib.util
import io
import logging
import math
import random
import re
import sys
import traceback
import types
import warnings
from collections import OrderedDict
from pathlib import Path

sys.dont_write_bytecode = True

import numpy as np
import pandas as pd

REPO_PKG = Path("/repo/ioos_qc")
ALIAS = "orig_ioos_qc"


# --------------------------------------------------------------------------------------
# Loading the original package under another name
# --------------------------------------------------------------------------------------
class _RewritingLoader(importlib.abc.SourceLoader):
    """Source loader without bytecode cache that renames the package in the source."""

    def __init__(self, fullname, path) -> None:
        self._fullname = fullname
        self._path = str(path)

    def get_filename(self, fullname):
        return self._path

    def get_data(self, path):
        data = Path(path).read_bytes()
        return re.sub(rb"\bioos_qc\b", ALIAS.encode(), data)


class _OrigFinder(importlib.abc.MetaPathFinder):
    def find_spec(self, fullname, path, target=None):
        if fullname == ALIAS:
            init = REPO_PKG / "__init__.py"
            return importlib.util.spec_from_file_location(
                fullname,
                init,
                loader=_RewritingLoader(fullname, init),
                submodule_search_locations=[str(REPO_PKG)],
            )
        if fullname.startswith(ALIAS + "."):
            rel = fullname.split(".")[1:]
            file = REPO_PKG.joinpath(*rel).with_suffix(".py")
            if not file.exists():
                return None
            return importlib.util.spec_from_file_location(
                fullname,
                file,
                loader=_RewritingLoader(fullname, file),
            )
        return None


sys.meta_path.insert(0, _OrigFinder())

import ioos_qc  # noqa: E402  (refactored, from PYTHONPATH)
import ioos_qc.argo  # noqa: E402
import ioos_qc.axds  # noqa: E402
import ioos_qc.config  # noqa: E402
import ioos_qc.qartod  # noqa: E402
import ioos_qc.results  # noqa: E402
import ioos_qc.stores  # noqa: E402
import ioos_qc.utils  # noqa: E402

orig = importlib.import_module(ALIAS)
for _sub in ("utils", "qartod", "argo", "axds", "results", "config", "stores"):
    importlib.import_module(f"{ALIAS}.{_sub}")

HERE = Path(__file__).resolve().parent
assert Path(ioos_qc.__file__).resolve().parent == HERE / "ioos_qc", ioos_qc.__file__
assert Path(orig.__file__).resolve().parent == REPO_PKG, orig.__file__
assert orig.qartod.isnan is orig.utils.isnan
assert orig.qartod.isnan is not ioos_qc.utils.isnan
assert orig.config.load_config_as_dict is orig.utils.load_config_as_dict


class Impl:
    """One implementation: its modules under short names."""

    def __init__(self, root, name) -> None:
        self.name = name
        self.root = root
        self.utils = sys.modules[f"{root}.utils"]
        self.qartod = sys.modules[f"{root}.qartod"]
        self.argo = sys.modules[f"{root}.argo"]
        self.axds = sys.modules[f"{root}.axds"]
        self.results = sys.modules[f"{root}.results"]
        self.config = sys.modules[f"{root}.config"]
        self.stores = sys.modules[f"{root}.stores"]


NEW = Impl("ioos_qc", "new")
OLD = Impl(ALIAS, "old")


# --------------------------------------------------------------------------------------
# Log capture
# --------------------------------------------------------------------------------------
class _ListHandler(logging.Handler):
    def __init__(self) -> None:
        super().__init__(level=logging.DEBUG)
        self.records = []

    def emit(self, record) -> None:
        text = record.getMessage().replace(ALIAS, "ioos_qc")
        self.records.append((record.levelname, text))


LOGS = {}
for _impl in (NEW, OLD):
    _logger = logging.getLogger(_impl.root)
    _logger.setLevel(logging.DEBUG)
    _logger.propagate = False
    _handler = _ListHandler()
    _logger.addHandler(_handler)
    LOGS[_impl.name] = _handler


# --------------------------------------------------------------------------------------
# Structural description of values (used for comparison)
# --------------------------------------------------------------------------------------
def _norm_name(text):
    return text.replace(ALIAS, "ioos_qc")


def _scalar(x):
    if isinstance(x, float) and math.isnan(x):
        return ("float", "nan")
    return (type(x).__name__, repr(x))


def describe(x, depth=0):
    """A hashable-ish, comparable description of a value, strict about types."""
    if depth > 12:
        return ("deep", type(x).__name__)
    if x is None or isinstance(x, (bool, int, str, bytes)):
        return _scalar(x)
    if isinstance(x, float):
        return _scalar(x)
    if x is np.ma.masked:
        return ("masked-constant",)
    if isinstance(x, np.ma.MaskedArray):
        data = np.ma.getdata(x)
        mask = np.ma.getmask(x)
        return (
            "MaskedArray",
            type(x).__name__,
            str(x.dtype),
            x.shape,
            describe(np.asarray(data), depth + 1),
            "nomask" if mask is np.ma.nomask else describe(np.asarray(mask), depth + 1),
            repr(x.fill_value),
            bool(x.hardmask),
        )
    if isinstance(x, np.ndarray):
        if x.dtype == object:
            body = tuple(describe(v, depth + 1) for v in x.ravel().tolist())
        else:
            body = x.tobytes() if not np.issubdtype(x.dtype, np.floating) else _float_bytes(x)
        return ("ndarray", type(x).__name__, str(x.dtype), x.shape, body)
    if isinstance(x, np.generic):
        if isinstance(x, np.floating) and np.isnan(x):
            return ("npscalar", type(x).__name__, "nan")
        return ("npscalar", type(x).__name__, repr(x))
    if isinstance(x, pd.DataFrame):
        return (
            "DataFrame",
            tuple(describe(c, depth + 1) for c in x.columns),
            describe(x.index, depth + 1),
            tuple(describe(x[c], depth + 1) for c in x.columns) if x.columns.is_unique else repr(x),
        )
    if isinstance(x, pd.Series):
        return (
            "Series",
            str(x.dtype),
            describe(x.name, depth + 1),
            describe(x.to_numpy(), depth + 1),
            describe(x.index, depth + 1) if depth < 3 else None,
        )
    if isinstance(x, pd.Index):
        return ("Index", type(x).__name__, str(x.dtype), describe(x.to_numpy(), depth + 1))
    if isinstance(x, (pd.Timestamp, pd.Timedelta, dt.datetime, dt.date)):
        return (type(x).__name__, repr(x))
    if isinstance(x, tuple) and hasattr(x, "_fields"):
        return (
            "namedtuple",
            type(x).__name__,
            x._fields,
            tuple(describe(v, depth + 1) for v in x),
        )
    if isinstance(x, (list, tuple)):
        return (type(x).__name__, tuple(describe(v, depth + 1) for v in x))
    if isinstance(x, (dict, OrderedDict)):
        return (
            type(x).__name__,
            tuple((describe(k, depth + 1), describe(v, depth + 1)) for k, v in x.items()),
        )
    if isinstance(x, (set, frozenset)):
        return (type(x).__name__, tuple(sorted(repr(v) for v in x)))
    if isinstance(x, (types.FunctionType, types.BuiltinFunctionType)) or isinstance(x, np.ufunc):
        return ("function", _norm_name(getattr(x, "__module__", "") or ""), x.__name__)
    if isinstance(x, type):
        return ("class", _norm_name(x.__module__), x.__name__)
    if isinstance(x, types.SimpleNamespace):
        return ("ns", describe(vars(x), depth + 1))
    if type(x).__name__ == "ColumnLike":
        return ("ColumnLike", describe(x.values, depth + 1))
    custom = _describe_package_object(x, depth)
    if custom is not None:
        return custom
    return ("object", type(x).__name__, re.sub(r" at 0x[0-9a-fA-F]+", "", _norm_name(repr(x))))


def _float_bytes(a):
    """Bytes of a float array with every NaN canonicalised (sign / payload of NaN ignored)."""
    a = np.array(a, copy=True)
    a[np.isnan(a)] = np.nan
    return a.tobytes()


def _describe_package_object(x, depth):
    mod = _norm_name(type(x).__module__)
    name = type(x).__name__
    if not mod.startswith("ioos_qc") and not mod.startswith("shapely"):
        return None
    if mod.startswith("shapely"):
        return ("geometry", name, x.wkt)
    if name == "ClimatologyConfig":
        return ("ClimatologyConfig", describe(x._members, depth + 1))
    if name == "Context":
        return (
            "Context",
            describe(x.window, depth + 1),
            describe(x.region, depth + 1),
            describe(x.attrs, depth + 1),
        )
    if name == "Call":
        return (
            "Call",
            describe(x.stream_id, depth + 1),
            describe(x.call.func, depth + 1),
            describe(x.call.args, depth + 1),
            describe(x.call.keywords, depth + 1),
            describe(x.context, depth + 1),
            describe(x.attrs, depth + 1),
        )
    if name in ("Config", "ContextConfig", "QcConfig"):
        state = dict(vars(x))
        return (name, describe(state, depth + 1))
    if name == "CollectedResult":
        return (name, describe(vars(x), depth + 1))
    return None


# --------------------------------------------------------------------------------------
# Running one case in both implementations
# --------------------------------------------------------------------------------------
class Outcome:
    def __init__(self, kind, value, logs, args_after) -> None:
        self.kind = kind
        self.value = value
        self.logs = logs
        self.args_after = args_after

    def summary(self):
        return (self.kind, self.value, tuple(self.logs), self.args_after)


def run_one(impl, fn, make_args, post=None):
    """Call fn(impl, *args, **kwargs) -> outcome. `make_args(impl)` returns (args, kwargs)."""
    handler = LOGS[impl.name]
    handler.records = []
    args, kwargs = make_args(impl)
    try:
        with warnings.catch_warnings():
            warnings.simplefilter("ignore")
            with np.errstate(all="ignore"):
                value = fn(impl, *args, **kwargs)
                if post is not None:
                    value = post(impl, value, args, kwargs)
        kind, described = "ok", describe(value)
    except Exception as e:  # noqa: BLE001
        kind, described = "raise", type(e).__name__
    try:
        after = describe((args, kwargs))
    except Exception as e:  # noqa: BLE001
        after = ("undescribable", type(e).__name__)
    return Outcome(kind, described, list(handler.records), after)


def _is_reported_raise(described):
    """Was the value produced by one of the helpers that turn an exception into a tuple."""
    try:
        return described[0] == "tuple" and described[1][0] == ("str", "'raised'")
    except (IndexError, TypeError):
        return False


FAILURES = []
COUNTS = {}
RAISES = {}


def compare_case(label, fn, make_args, post=None):
    new = run_one(NEW, fn, make_args, post)
    old = run_one(OLD, fn, make_args, post)
    COUNTS[label] = COUNTS.get(label, 0) + 1
    if new.kind == "raise" or _is_reported_raise(new.value):
        RAISES[label] = RAISES.get(label, 0) + 1
    if new.summary() != old.summary():
        if len(FAILURES) < 25:
            try:
                shown = make_args(NEW)
            except Exception:  # noqa: BLE001
                shown = "?"
            FAILURES.append((label, shown, old.summary(), new.summary()))
        else:
            FAILURES.append((label, None, None, None))
        return False
    return True


# --------------------------------------------------------------------------------------
# Input generators
# --------------------------------------------------------------------------------------
NAN = float("nan")
VALUE_POOL = [0, 1, 2, 3, -1, 5, 10, 2.5, -2.5, 1e-9, 100.0, 1e308, -1e308, 7, 7, 7, 3.0000001]
ODD_POOL = [NAN, None, float("inf"), float("-inf"), np.nan]


def gen_values(rng, n=None, allow_odd=True, pool=None):
    n = rng.randint(0, 8) if n is None else n
    pool = VALUE_POOL if pool is None else pool
    mode = rng.random()
    out = []
    base = rng.choice(pool)
    for i in range(n):
        r = rng.random()
        if allow_odd and r < 0.15:
            out.append(rng.choice(ODD_POOL))
        elif mode < 0.25:
            out.append(base)  # flat line
        elif mode < 0.45:
            out.append(base + i * rng.choice([1, 0.5, -1, 0]))  # ramp
        elif mode < 0.6:
            out.append(round(rng.uniform(-20, 40), rng.choice([0, 1, 3])))
        else:
            out.append(rng.choice(pool))
    return out


def wrap_values(rng, values, allow_2d=True):
    """Put a list of numbers in one of several containers."""
    has_none = any(v is None for v in values)
    kind = rng.choice(
        ["list", "list", "f8", "f8", "tuple", "masked", "f4", "int", "obj", "series", "2d", "uint"],
    )
    if kind == "list":
        return list(values)
    if kind == "tuple":
        return tuple(values)
    if kind == "obj":
        return np.array(values, dtype=object)
    if kind == "series" and not has_none:
        return pd.Series(values, dtype="float64")
    clean = [NAN if v is None else v for v in values]
    if kind == "f4":
        with np.errstate(all="ignore"):
            return np.array(clean, dtype="float32")
    if kind in ("int", "uint"):
        if all(isinstance(v, (int, float)) and math.isfinite(v) and abs(v) < 1e9 for v in clean):
            ints = [int(v) for v in clean]
            if kind == "uint" and all(v >= 0 for v in ints):
                return np.array(ints, dtype="uint8" if all(v < 256 for v in ints) else "uint32")
            return np.array(ints, dtype=rng.choice(["int64", "int32", "int16"]))
        return np.array(clean, dtype="float64")
    if kind == "masked":
        arr = np.ma.array(np.array(clean, dtype="float64"))
        if len(clean) and rng.random() < 0.7:
            arr[rng.randrange(len(clean))] = np.ma.masked
        return arr
    if kind == "2d" and allow_2d and len(clean) >= 2 and len(clean) % 2 == 0:
        return np.array(clean, dtype="float64").reshape(2, -1)
    return np.array(clean, dtype="float64")


T0 = np.datetime64("2020-01-01T00:00:00", "ns")


def gen_times(rng, n):
    """A time axis of length n in one of several representations."""
    step_kind = rng.choice(["regular", "regular", "irregular", "dups", "reverse", "sub"])
    step = rng.choice([1, 10, 60, 3600, 86400, 7 * 86400, 40 * 86400])
    if step_kind == "regular":
        secs = [i * step for i in range(n)]
    elif step_kind == "irregular":
        secs, t = [], 0
        for _ in range(n):
            secs.append(t)
            t += rng.choice([1, 2, 5, 60, 61, 3600]) * rng.choice([1, 1, 3])
    elif step_kind == "dups":
        secs, t = [], 0
        for _ in range(n):
            secs.append(t)
            t += rng.choice([0, step])
    elif step_kind == "reverse":
        secs = [-i * step for i in range(n)]
    else:
        secs = [i * 0.5 for i in range(n)]
    base = rng.choice([0, 1577836800, 1583020800, 1593561600])
    secs = [base + s for s in secs]
    ns = np.array([int(round(s * 1e9)) for s in secs], dtype="int64").astype("datetime64[ns]")
    kind = rng.choice(
        ["ns", "ns", "ns", "s", "epoch", "epochf", "dtindex", "tzindex", "series", "tzseries", "pydt", "str", "ms"],
    )
    if kind == "ns":
        return ns
    if kind == "s":
        return ns.astype("datetime64[s]")
    if kind == "ms":
        return ns.astype("datetime64[ms]")
    if kind == "epoch":
        return [int(s) for s in secs]
    if kind == "epochf":
        return np.array(secs, dtype="float64")
    if kind == "dtindex":
        return pd.DatetimeIndex(ns)
    if kind == "tzindex":
        return pd.DatetimeIndex(ns, tz="UTC").tz_convert(rng.choice(["UTC", "US/Eastern"]))
    if kind == "series":
        return pd.Series(ns)
    if kind == "tzseries":
        return pd.Series(pd.DatetimeIndex(ns, tz="UTC"))
    if kind == "pydt":
        return [pd.Timestamp(v).to_pydatetime() for v in ns]
    return [str(v) for v in ns]


def gen_threshold(rng, allow_none=True, pool=None):
    pool = pool or [0, 0.5, 1, 2, 3, 5, 10, 100, -1, 1e-9, 2.5, np.float64(4.0), np.int64(2), NAN]
    if allow_none and rng.random() < 0.2:
        return None
    return rng.choice(pool)


def gen_span(rng, allow_bad=True):
    r = rng.random()
    a, b = rng.choice(VALUE_POOL[:12]), rng.choice(VALUE_POOL[:12])
    if allow_bad and r < 0.04:
        return [a]
    if allow_bad and r < 0.08:
        return (a, b, 1)
    if allow_bad and r < 0.11:
        return np.array([a, b])
    if allow_bad and r < 0.13:
        return "ab"
    if allow_bad and r < 0.16:
        return [a, NAN]
    if r < 0.5:
        return (min(a, b), max(a, b))
    if r < 0.7:
        return [max(a, b), min(a, b)]
    return [a, b]


def fixed(args=(), kwargs=None):
    """make_args for arguments that do not depend on the implementation."""
    kwargs = {} if kwargs is None else kwargs

    def make(impl):
        return copy.deepcopy((list(args), dict(kwargs)))

    return make


def shuffled_kwargs(rng, kwargs):
    items = list(kwargs.items())
    rng.shuffle(items)
    return dict(items)


# --------------------------------------------------------------------------------------
# Suites: utils
# --------------------------------------------------------------------------------------
SUITES = {}


def suite(name):
    def deco(f):
        SUITES[name] = f
        return f

    return deco


ODD_OBJECTS = [
    None, np.nan, NAN, np.ma.masked, 0, 0.0, 1, "", "nan", [], (), (None, None), [NAN],
    np.float64("nan"), np.float32("nan"), np.array([np.nan]), np.array(np.nan), np.ma.array([1.0], mask=[True]),
    np.ma.array([1.0], mask=[True])[0], pd.NaT, pd.NA, float("inf"), {}, np.bool_(False), np.datetime64("NaT"),
    math.nan, np.array([1, 2])[0], True, False,
]


@suite("utils.isnan")
def suite_isnan(rng, n):
    for _ in range(n):
        r = rng.random()
        if r < 0.6:
            v = rng.choice(ODD_OBJECTS)
        elif r < 0.8:
            v = rng.choice(VALUE_POOL + ODD_POOL)
        else:
            v = gen_span(rng)
        # the object itself is passed (identity matters), no deep copy
        compare_case("utils.isnan", lambda impl, x: impl.utils.isnan(x), lambda impl, v=v: ([v], {}))


@suite("utils.isfixedlength")
def suite_isfixedlength(rng, n):
    lengths = [0, 1, 2, 3, 4, 2.0, np.int64(2), True, None, "2", -1, NAN, np.array([2]), np.array([2, 2])]
    for _ in range(n):
        r = rng.random()
        if r < 0.7:
            lst = rng.choice([list, tuple])(gen_values(rng, rng.randint(0, 5)))
        elif r < 0.8:
            lst = gen_span(rng)
        else:
            lst = rng.choice(
                [None, "ab", np.array([1, 2]), {1: 2, 3: 4}, {1, 2}, range(2), 5, pd.Series([1, 2]),
                 [[1, 2], [3]], ({"a": 1}, None), ["{0}", "%s"], ("%d",)],
            )
        length = rng.choice(lengths) if rng.random() < 0.4 else len(lst) if hasattr(lst, "__len__") else 2
        if rng.random() < 0.5:
            mk = fixed([lst, length])
        else:
            mk = fixed([], shuffled_kwargs(rng, {"lst": lst, "length": length}))
        compare_case(
            "utils.isfixedlength",
            lambda impl, *a, **k: impl.utils.isfixedlength(*a, **k),
            mk,
            post=None,
        )
        # exception text as well
        compare_case(
            "utils.isfixedlength",
            lambda impl, *a, **k: _message_of(lambda: impl.utils.isfixedlength(*a, **k)),
            mk,
        )


def _message_of(thunk):
    try:
        return ("returned", thunk())
    except Exception as e:  # noqa: BLE001
        return ("raised", type(e).__name__, str(e).replace(ALIAS, "ioos_qc"))


@suite("utils.mapdates")
def suite_mapdates(rng, n):
    extra = [
        None, [], (), "2020-01-01", ["2020-01-01", "bad"], [None], [NAN, 1.0], np.array([]), np.array([1.5, NAN]),
        pd.Series([], dtype="datetime64[ns]"), pd.Series([1, 2]), pd.Series(["2020-01-01"]), pd.Index([1, 2]),
        pd.Timestamp("2020-01-01"), pd.Timestamp("2020-01-01", tz="UTC"), dt.datetime(2020, 1, 1),
        np.datetime64("2020-01-01"), np.array(["2020-01-01"], dtype="datetime64[D]"), np.array(["a"]),
        np.array([[0, 1], [2, 3]]), np.array(["NaT"], dtype="datetime64[ns]"), pd.DatetimeIndex([pd.NaT]),
        pd.Series([pd.NaT]), 1e30, [1e30], -1, [2**62], np.ma.array([1, 2], mask=[0, 1]), {"a": 1},
        pd.period_range("2020-01", periods=2, freq="M"), pd.Series(pd.period_range("2020-01", periods=2, freq="M")),
        pd.to_timedelta([1, 2], unit="s"), np.array([1, 2], dtype="timedelta64[s]"), types.SimpleNamespace(dtype=None),
        types.SimpleNamespace(dtype=np.dtype("datetime64[s]")), pd.Categorical(["a", "b"]),
        pd.Series(pd.DatetimeIndex(["2020-01-01"], tz="UTC"), index=[5]),
    ]
    for _ in range(n):
        if rng.random() < 0.75:
            dates = gen_times(rng, rng.randint(0, 8))
            if rng.random() < 0.1 and isinstance(dates, np.ndarray) and dates.size % 2 == 0 and dates.size:
                dates = dates.reshape(2, -1)
        else:
            dates = rng.choice(extra)
        mk = fixed([dates]) if rng.random() < 0.7 else fixed([], {"dates": dates})
        compare_case("utils.mapdates", lambda impl, *a, **k: impl.utils.mapdates(*a, **k), mk)


def gen_lonlat(rng, n, allow_odd=True):
    lons = [-180, -179.5, -75.2, -75.1, 0, 0.001, 10, 179.9, 180, 181, -181, 360, 45, 45, 1e9]
    lats = [-90, -89.9, -45, 0, 0.001, 10, 45, 45, 89.9, 90, 91, -91, 30.5]
    lon, lat = [], []
    for _ in range(n):
        lon.append(rng.choice(ODD_POOL) if allow_odd and rng.random() < 0.12 else rng.choice(lons))
        lat.append(rng.choice(ODD_POOL) if allow_odd and rng.random() < 0.12 else rng.choice(lats))
    return lon, lat


@suite("utils.great_circle_distance")
def suite_gcd(rng, n):
    for _ in range(n):
        k = rng.randint(0, 6)
        lon, lat = gen_lonlat(rng, k, allow_odd=rng.random() < 0.3)
        lon = [NAN if v is None else v for v in lon]
        lat = [NAN if v is None else v for v in lat]
        r = rng.random()
        if r < 0.5:
            a_lat, a_lon = np.array(lat, dtype="float64"), np.array(lon, dtype="float64")
        elif r < 0.85:
            a_lat = np.ma.masked_invalid(np.array(lat, dtype="float64"))
            a_lon = np.ma.masked_invalid(np.array(lon, dtype="float64"))
        elif r < 0.9:
            a_lat, a_lon = lat, np.array(lon, dtype="float64")
        elif r < 0.95:
            a_lat, a_lon = np.array(lat, dtype="float64"), lon
        else:
            a_lat, a_lon = np.array(lat[:-1], dtype="float64"), np.array(lon, dtype="float64")
        mk = fixed([a_lat, a_lon]) if rng.random() < 0.6 else fixed([], {"lon_arr": a_lon, "lat_arr": a_lat})
        compare_case(
            "utils.great_circle_distance",
            lambda impl, *a, **k: impl.utils.great_circle_distance(*a, **k),
            mk,
        )


@suite("utils.cf_safe_name")
def suite_cf(rng, n):
    alphabet = "abcXYZ019_ .-/:+é{}%\n\t$"
    odd = [None, 1, 1.5, b"abc", ["a"], ("a", "b"), {"a": 1}, "", "_", "9", "{0}", "%s", "{name}", np.str_("1a b")]

    class S(str):
        pass

    for _ in range(n):
        if rng.random() < 0.85:
            name = "".join(rng.choice(alphabet) for _ in range(rng.randint(0, 7)))
            if rng.random() < 0.05:
                name = S(name)
        else:
            name = rng.choice(odd)
        mk = fixed([name]) if rng.random() < 0.7 else fixed([], {"name": name})
        compare_case(
            "utils.cf_safe_name",
            lambda impl, *a, **k: _message_of(lambda: impl.utils.cf_safe_name(*a, **k)),
            mk,
        )


def gen_nested(rng, depth=0, mapping_types=(dict, OrderedDict)):
    r = rng.random()
    if depth >= 4 or r < 0.3:
        return rng.choice([1, "x", None, [1, 2], (), [], 0, 2.5, [{"a": 1}], np.array([1])])
    kind = rng.choice(mapping_types)
    out = kind()
    for _ in range(rng.randint(0, 3)):
        out[rng.choice(["a", "b", "c", 1, None, ("t",)])] = gen_nested(rng, depth + 1, mapping_types)
    return out


@suite("utils.dict_depth")
def suite_dict_depth(rng, n):
    for _ in range(n):
        d = gen_nested(rng, depth=rng.choice([0, 0, 0, 3]))
        compare_case("utils.dict_depth", lambda impl, x: impl.utils.dict_depth(x), fixed([d]))


@suite("utils.dict_update")
def suite_dict_update(rng, n):
    for _ in range(n):
        d = gen_nested(rng) if rng.random() < 0.9 else rng.choice([None, 5, "s", [1]])
        u = gen_nested(rng, depth=0)
        if not isinstance(u, dict):
            u = {"k": u} if rng.random() < 0.8 else u
        mk = fixed([d, u]) if rng.random() < 0.7 else fixed([], {"u": u, "d": d})
        # the returned object and the (mutated) arguments are both compared
        compare_case(
            "utils.dict_update",
            lambda impl, *a, **k: impl.utils.dict_update(*a, **k),
            mk,
            post=lambda impl, value, args, kwargs: (
                value,
                value is (args[0] if args else kwargs["d"]),
            ),
        )



# --------------------------------------------------------------------------------------
# Suites: qartod
# --------------------------------------------------------------------------------------
FLAG_POOL = [1, 2, 3, 4, 9, 1, 1, 4, 9, 0, 5]


def gen_flag_vector(rng, n):
    vals = [rng.choice(FLAG_POOL) for _ in range(n)]
    kind = rng.choice(["u1", "u1", "f8", "masked", "maskedu1", "i8", "2d", "list"])
    if kind == "u1":
        return np.array(vals, dtype="uint8")
    if kind == "f8":
        return np.array(vals, dtype="float64")
    if kind == "i8":
        return np.array(vals, dtype="int64")
    if kind in ("masked", "maskedu1"):
        arr = np.ma.array(np.array(vals, dtype="uint8" if kind == "maskedu1" else "float64"))
        if n and rng.random() < 0.8:
            arr[rng.randrange(n)] = np.ma.masked
        if n and rng.random() < 0.3:
            arr = np.ma.array(arr.data, mask=[rng.random() < 0.5 for _ in range(n)])
        return arr
    if kind == "2d":
        return np.array([vals, vals], dtype="uint8") if rng.random() < 0.3 else np.array(vals, dtype="uint8")
    return vals if rng.random() < 0.2 else np.array(vals, dtype="uint8")


@suite("qartod.qartod_compare")
def suite_qartod_compare(rng, n):
    for _ in range(n):
        k = rng.randint(0, 8)
        count = rng.choice([0, 1, 1, 1, 2, 2, 2, 3, 3, 4])
        vectors = [gen_flag_vector(rng, k if rng.random() < 0.96 else rng.randint(0, 8)) for _ in range(count)]
        r = rng.random()
        if r < 0.1:
            vectors = tuple(vectors)
        mk = fixed([vectors]) if rng.random() < 0.7 else fixed([], {"vectors": vectors})
        if r > 0.95:
            # a one-shot iterator
            _compare_iter(vectors)
            continue
        compare_case("qartod.qartod_compare", lambda impl, *a, **kw: impl.qartod.qartod_compare(*a, **kw), mk)


def _compare_iter(vectors):
    def call(impl):
        return impl.qartod.qartod_compare(iter(copy.deepcopy(vectors)))

    compare_case("qartod.qartod_compare", call, lambda impl: ([], {}))


@suite("qartod.aggregate")
def suite_aggregate(rng, n):
    for _ in range(n):
        k = rng.randint(0, 8)
        count = rng.choice([0, 1, 1, 2, 2, 2, 3, 3])
        results = [types.SimpleNamespace(results=gen_flag_vector(rng, k if rng.random() < 0.97 else 3)) for _ in range(count)]
        if rng.random() < 0.03:
            results.append(types.SimpleNamespace())
        mk = fixed([results]) if rng.random() < 0.7 else fixed([], {"results": results})
        compare_case("qartod.aggregate", lambda impl, *a, **kw: impl.qartod.aggregate(*a, **kw), mk)


def gen_bbox(rng):
    r = rng.random()
    if r < 0.35:
        return "default"
    if r < 0.4:
        return None
    if r < 0.45:
        return rng.choice([(0, 0, 1), [0, 0, 1, 1, 1], np.array([-180, -90, 180, 90]), "abcd", 5])
    if r < 0.5:
        return (rng.choice([NAN, None, "a", -80]), -90, 180, rng.choice([90, None, NAN]))
    xs = sorted([rng.choice([-180, -100, -75.15, 0, 10, 45, 180]) for _ in range(2)])
    ys = sorted([rng.choice([-90, -45, 0, 30.5, 45, 90]) for _ in range(2)])
    box = (xs[0], ys[0], xs[1], ys[1])
    if rng.random() < 0.1:
        box = (xs[1], ys[1], xs[0], ys[0])
    return list(box) if rng.random() < 0.5 else box


@suite("qartod.location_test")
def suite_location(rng, n):
    for _ in range(n):
        k = rng.randint(0, 8)
        lon, lat = gen_lonlat(rng, k)
        if rng.random() < 0.05:
            lat = lat[:-1]
        kwargs = {"lon": wrap_values(rng, lon), "lat": wrap_values(rng, lat)}
        if rng.random() < 0.05 and k:
            kwargs["lon"] = lon[0]
            kwargs["lat"] = lat[0]
        bbox = gen_bbox(rng)
        if not isinstance(bbox, str) or bbox != "default":
            kwargs["bbox"] = bbox
        if rng.random() < 0.6:
            kwargs["range_max"] = rng.choice([None, 0, 1, 1000.0, 1e5, 1e7, 1e12, NAN, -1, np.float64(5e5)])
        if rng.random() < 0.5:
            args = [kwargs.pop("lon"), kwargs.pop("lat")]
            if "bbox" in kwargs and rng.random() < 0.5:
                args.append(kwargs.pop("bbox"))
        else:
            args = []
        mk = fixed(args, shuffled_kwargs(rng, kwargs))
        compare_case("qartod.location_test", lambda impl, *a, **kw: impl.qartod.location_test(*a, **kw), mk)


@suite("qartod.gross_range_test")
def suite_gross(rng, n):
    for _ in range(n):
        inp = wrap_values(rng, gen_values(rng))
        if rng.random() < 0.03:
            inp = rng.choice([5, None, "a", ["a", "b"], [[1, 2], [3]], NAN])
        kwargs = {"inp": inp, "fail_span": gen_span(rng)}
        r = rng.random()
        if r < 0.25:
            pass
        elif r < 0.35:
            kwargs["suspect_span"] = None
        elif r < 0.7:
            fs = kwargs["fail_span"]
            try:
                lo, hi = sorted(fs)
                a = lo + rng.choice([0, 0.5, 1])
                b = hi - rng.choice([0, 0.5, 1])
                kwargs["suspect_span"] = rng.choice([(a, b), [b, a], (a, hi), [lo, b]])
            except Exception:  # noqa: BLE001
                kwargs["suspect_span"] = gen_span(rng)
        else:
            kwargs["suspect_span"] = gen_span(rng)
        args = []
        if rng.random() < 0.5:
            args = [kwargs.pop("inp")]
            if rng.random() < 0.5:
                args.append(kwargs.pop("fail_span"))
        mk = fixed(args, shuffled_kwargs(rng, kwargs))
        compare_case(
            "qartod.gross_range_test",
            lambda impl, *a, **kw: _message_if_value_error(lambda: impl.qartod.gross_range_test(*a, **kw)),
            mk,
        )


def _message_if_value_error(thunk):
    """Result, or for the library's own errors the exception type and text."""
    try:
        return thunk()
    except (ValueError, TypeError) as e:
        text = str(e).replace(ALIAS, "ioos_qc")
        return ("raised", type(e).__name__, text)



PERIODS = [None, None, None, "month", "dayofyear", "week", "weekofyear", "dayofweek", "quarter", "year", "hour"]
BAD_PERIODS = ["fortnight", "", "Month", 5, ("month",)]


def gen_clim_member(rng, allow_bad=True):
    """kwargs of ClimatologyConfig.add."""
    period = rng.choice(PERIODS)
    if allow_bad and rng.random() < 0.04:
        period = rng.choice(BAD_PERIODS)
    if period is None:
        starts = ["2019-06-01", "2020-01-01", "2020-01-01T00:00:05", "2020-03-01", np.datetime64("2020-01-01"),
                  pd.Timestamp("2020-01-02"), dt.datetime(2020, 1, 1, 0, 1), 1577836800]
        ends = ["2020-01-01T00:00:30", "2020-02-01", "2020-07-01", "2021-01-01", np.datetime64("2020-01-08"),
                pd.Timestamp("2020-01-01T01:00:00")]
        tspan = (rng.choice(starts), rng.choice(ends))
        if allow_bad and rng.random() < 0.03:
            tspan = rng.choice([("2020-01-01", "bogus"), ("2020-01-01", None), ("2020-01-01",), "ab"])
    else:
        hi = {"month": 12, "dayofyear": 366, "week": 53, "weekofyear": 53, "dayofweek": 6, "quarter": 4,
              "year": 2021, "hour": 23}.get(period, 12)
        lo = 2019 if period == "year" else 0
        a, b = rng.randint(lo, hi), rng.randint(lo, hi)
        tspan = rng.choice([(a, b), [b, a], (min(a, b), max(a, b)), (lo, hi)])
    if rng.random() < 0.5:
        tspan = list(tspan) if not isinstance(tspan, str) else tspan
    kwargs = {"tspan": tspan, "vspan": gen_span(rng, allow_bad=allow_bad and rng.random() < 0.3)}
    if rng.random() < 0.5:
        kwargs["fspan"] = rng.choice([None, gen_span(rng, allow_bad=allow_bad and rng.random() < 0.3), (-100, 100)])
    if rng.random() < 0.5:
        kwargs["zspan"] = rng.choice([None, (0, 10), [10, 0], (0, 100), (5, 5), (10, 50), gen_span(rng, allow_bad=allow_bad and rng.random() < 0.3)])
    if period is not None or rng.random() < 0.3:
        kwargs["period"] = period
    return kwargs


def build_clim(impl, members):
    c = impl.qartod.ClimatologyConfig()
    for m in members:
        c.add(**copy.deepcopy(m))
    return c


@suite("qartod.ClimatologyConfig.add")
def suite_clim_add(rng, n):
    for _ in range(n):
        prior = [gen_clim_member(rng, allow_bad=False) for _ in range(rng.choice([0, 0, 1, 2]))]
        kwargs = gen_clim_member(rng)
        args = []
        if rng.random() < 0.4:
            args = [kwargs.pop("tspan"), kwargs.pop("vspan")]
        kwargs = shuffled_kwargs(rng, kwargs)

        def call(impl, *a, **kw):
            c = build_clim(impl, prior)
            ret = _message_if_value_error(lambda: c.add(*a, **kw))
            return ret, c, c.members is c._members

        compare_case("qartod.ClimatologyConfig.add", call, fixed(args, kwargs))


@suite("qartod.ClimatologyConfig.convert")
def suite_clim_convert(rng, n):
    for _ in range(n):
        members = [gen_clim_member(rng, allow_bad=rng.random() < 0.2) for _ in range(rng.choice([0, 1, 1, 2, 3]))]
        r = rng.random()

        def call(impl):
            if r < 0.25:
                src = build_clim(impl, members)
                out = impl.qartod.ClimatologyConfig.convert(src)
                return out, out is src
            if r < 0.3:
                src = rng_choice_bad
                return impl.qartod.ClimatologyConfig.convert(copy.deepcopy(src))
            src = copy.deepcopy(members if r < 0.8 else tuple(members))
            if 0.8 <= r < 0.85:
                src = iter(src)
            if r < 0.6:
                return impl.qartod.ClimatologyConfig.convert(src)
            return impl.qartod.ClimatologyConfig.convert(config=src)

        rng_choice_bad = rng.choice([None, 5, "abc", [None], [{"tspan": (1, 2)}], [{"bogus": 1}], {"tspan": (1, 2), "vspan": (1, 2)}, [[1, 2]]])
        compare_case("qartod.ClimatologyConfig.convert", call, lambda impl: ([], {}))


TIND_POOL = [
    pd.Timestamp("2020-01-01"), pd.Timestamp("2020-01-01T00:00:10"), pd.Timestamp("2020-01-05"),
    pd.Timestamp("2020-02-01"), pd.Timestamp("2020-06-15T12:00:00"), pd.Timestamp("2020-12-31"),
    pd.Timestamp("2019-12-30"), pd.Timestamp("2021-01-01"), pd.Timestamp("2020-07-01"), pd.NaT,
    dt.datetime(2020, 1, 1, 0, 0, 30), np.datetime64("2020-01-03"), pd.Timestamp("2020-01-01", tz="UTC"), None, 5,
]
ZIND_POOL = [None, None, 0, 5, 10, 10.0, 50, 100, 101, -1, NAN, np.nan, np.float64("nan"), np.ma.masked, np.float64(5), "5"]


@suite("qartod.ClimatologyConfig.values")
def suite_clim_values(rng, n):
    for _ in range(n):
        members = [gen_clim_member(rng, allow_bad=False) for _ in range(rng.choice([0, 1, 1, 2, 3, 4]))]
        tind = rng.choice(TIND_POOL[:10]) if rng.random() < 0.85 else rng.choice(TIND_POOL)
        zind = rng.choice(ZIND_POOL)
        form = rng.random()

        def call(impl):
            c = build_clim(impl, members)
            if form < 0.3:
                return c.values(tind)
            if form < 0.6:
                return c.values(tind, zind)
            if form < 0.8:
                return c.values(zind=zind, tind=tind)
            return c.values(tind, zind=zind)

        compare_case("qartod.ClimatologyConfig.values", call, lambda impl: ([], {}))


def gen_masked(rng, values):
    clean = [NAN if v is None else v for v in values]
    arr = np.ma.masked_invalid(np.array(clean, dtype="float64"))
    r = rng.random()
    if r < 0.15 and len(clean):
        arr[rng.randrange(len(clean))] = np.ma.masked
    elif r < 0.25:
        arr = np.ma.array(np.array(clean, dtype="float64"))  # NaN left unmasked, mask is nomask
    return arr


DEPTH_POOL = [0, 1, 5, 10, 10, 50, 100, 101, -1, 5.5]


@suite("qartod.ClimatologyConfig.check")
def suite_clim_check(rng, n):
    for _ in range(n):
        members = [gen_clim_member(rng, allow_bad=False) for _ in range(rng.choice([0, 1, 1, 2, 3]))]
        k = rng.randint(0, 8)
        inp = gen_masked(rng, gen_values(rng, k))
        zr = rng.random()
        if zr < 0.5:
            zinp = gen_masked(rng, gen_values(rng, k, pool=DEPTH_POOL))
        elif zr < 0.7:
            zinp = np.ma.masked_all(k, dtype="float64")
        elif zr < 0.8:
            zinp = np.ma.masked_invalid(np.full(k, NAN))
        elif zr < 0.9:
            zinp = np.ma.array(np.array([rng.choice(DEPTH_POOL) for _ in range(k)], dtype="float64"))
        else:
            zinp = np.ma.masked_invalid(np.array([], dtype="float64"))
        times = gen_times(rng, k)
        form = rng.random()

        def call(impl):
            c = build_clim(impl, members)
            tinp = pd.DatetimeIndex(impl.utils.mapdates(copy.deepcopy(times)).flatten())
            a, b = copy.deepcopy(inp), copy.deepcopy(zinp)
            if form < 0.6:
                out = c.check(tinp, a, b)
            else:
                out = c.check(zinp=b, tinp=tinp, inp=a)
            return out, a, b, tinp

        compare_case("qartod.ClimatologyConfig.check", call, lambda impl: ([], {}))


@suite("qartod.climatology_test")
def suite_clim_test(rng, n):
    for _ in range(n):
        members = [gen_clim_member(rng, allow_bad=rng.random() < 0.1) for _ in range(rng.choice([0, 1, 1, 2, 3]))]
        k = rng.randint(0, 8)
        inp = wrap_values(rng, gen_values(rng, k))
        zr = rng.random()
        if zr < 0.55:
            zinp = wrap_values(rng, gen_values(rng, k, pool=DEPTH_POOL))
        elif zr < 0.75:
            zinp = [None] * k if rng.random() < 0.5 else np.full(k, NAN)
        elif zr < 0.85:
            zinp = np.ma.masked_all(k, dtype="float64")
        elif zr < 0.95:
            zinp = []
        else:
            zinp = None
        tinp = gen_times(rng, k if rng.random() < 0.95 else rng.randint(0, 8))
        as_object = rng.random() < 0.3
        form = rng.random()

        def call(impl):
            config = build_clim(impl, members) if as_object else copy.deepcopy(members)
            a, t, z = copy.deepcopy((inp, tinp, zinp))
            if form < 0.4:
                out = impl.qartod.climatology_test(config, a, t, z)
            elif form < 0.7:
                out = impl.qartod.climatology_test(zinp=z, tinp=t, inp=a, config=config)
            else:
                out = impl.qartod.climatology_test(config, a, zinp=z, tinp=t)
            return out, a, t, z, config

        compare_case("qartod.climatology_test", call, lambda impl: ([], {}))



def _call_form(rng, names, kwargs, max_positional=None):
    """Split kwargs into a positional prefix (in signature order) and shuffled keywords."""
    kwargs = dict(kwargs)
    limit = len(names) if max_positional is None else max_positional
    n_pos = rng.randint(0, limit) if rng.random() < 0.6 else 0
    args = []
    for name in names[:n_pos]:
        if name not in kwargs:
            break
        args.append(kwargs.pop(name))
    return fixed(args, shuffled_kwargs(rng, kwargs))


BAD_INPUTS = [5, None, "a", ["a", "b"], [[1, 2], [3]], NAN, [[1, 2], [3, 4]], {}]


@suite("qartod.spike_test")
def suite_spike(rng, n):
    names = ["inp", "suspect_threshold", "fail_threshold", "method"]
    for _ in range(n):
        inp = wrap_values(rng, gen_values(rng))
        if rng.random() < 0.03:
            inp = rng.choice(BAD_INPUTS)
        kwargs = {"inp": inp}
        if rng.random() < 0.85:
            kwargs["suspect_threshold"] = gen_threshold(rng)
        if rng.random() < 0.85:
            kwargs["fail_threshold"] = gen_threshold(rng)
        r = rng.random()
        if r < 0.35:
            kwargs["method"] = "average"
        elif r < 0.75:
            kwargs["method"] = "differential"
        elif r < 0.8:
            kwargs["method"] = rng.choice(["Average", "", None, 5, "{}", "%s", ("average",), ["average"]])
        mk = _call_form(rng, names, kwargs)
        compare_case(
            "qartod.spike_test",
            lambda impl, *a, **kw: _message_if_value_error(lambda: impl.qartod.spike_test(*a, **kw)),
            mk,
        )


@suite("qartod.rate_of_change_test")
def suite_roc(rng, n):
    names = ["inp", "tinp", "threshold"]
    for _ in range(n):
        k = rng.randint(0, 8)
        inp = wrap_values(rng, gen_values(rng, k))
        tinp = gen_times(rng, k if rng.random() < 0.92 else rng.randint(0, 8))
        if rng.random() < 0.03:
            inp = rng.choice(BAD_INPUTS)
        kwargs = {"inp": inp, "tinp": tinp, "threshold": gen_threshold(rng, allow_none=rng.random() < 0.1)}
        if rng.random() < 0.03:
            kwargs.pop("threshold")
        mk = _call_form(rng, names, kwargs)
        compare_case(
            "qartod.rate_of_change_test",
            lambda impl, *a, **kw: _message_if_value_error(lambda: impl.qartod.rate_of_change_test(*a, **kw)),
            mk,
        )


@suite("qartod.flat_line_test")
def suite_flat(rng, n):
    names = ["inp", "tinp", "suspect_threshold", "fail_threshold", "tolerance"]
    thr = [0, 1, 2, 3, 5, 10, 20, 60, 120, 3600, 7200, 86400, 3 * 86400, 1e9, 2.5, -5, "3", np.int64(3), np.float64(120)]
    for _ in range(n):
        k = rng.randint(0, 8) if rng.random() < 0.7 else rng.randint(3, 8)
        inp = wrap_values(rng, gen_values(rng, k))
        tinp = gen_times(rng, k if rng.random() < 0.95 else rng.randint(0, 8))
        if rng.random() < 0.02:
            inp = rng.choice(BAD_INPUTS)
        kwargs = {
            "inp": inp,
            "tinp": tinp,
            "suspect_threshold": rng.choice(thr) if rng.random() < 0.95 else rng.choice([None, NAN, "x"]),
            "fail_threshold": rng.choice(thr) if rng.random() < 0.95 else rng.choice([None, NAN, "x"]),
        }
        if rng.random() < 0.6:
            # well-formed case: regular sampling, thresholds of a few samples
            step = rng.choice([1, 10, 60, 3600])
            base = np.datetime64("2020-01-01T00:00:00", "ns")
            regular = base + (np.arange(k) * step).astype("timedelta64[s]")
            kwargs["tinp"] = rng.choice([regular, regular.astype("datetime64[s]"), pd.DatetimeIndex(regular), [int(i * step) for i in range(k)]])
            kwargs["suspect_threshold"] = step * rng.choice([1, 2, 2, 3, 4]) + rng.choice([0, 0, 0.5])
            kwargs["fail_threshold"] = step * rng.choice([2, 3, 4, 5, 9]) + rng.choice([0, 0, step // 2])
        if rng.random() < 0.7:
            kwargs["tolerance"] = rng.choice([0, 0.1, 0.5, 1, 1.0000001, 2, 10, 1e-9, -1, NAN, None, np.float64(1.5), 1e300])
        mk = _call_form(rng, names, kwargs)
        compare_case(
            "qartod.flat_line_test",
            lambda impl, *a, **kw: _message_if_value_error(lambda: impl.qartod.flat_line_test(*a, **kw)),
            mk,
        )


@suite("qartod.attenuated_signal_test")
def suite_attenuated(rng, n):
    names = ["inp", "tinp", "suspect_threshold", "fail_threshold", "test_period", "min_obs", "min_period", "check_type"]
    for _ in range(n):
        k = rng.randint(0, 8)
        inp = wrap_values(rng, gen_values(rng, k))
        # rolling windows need a monotonic index most of the time
        tinp = gen_times(rng, k if rng.random() < 0.95 else rng.randint(0, 8))
        if rng.random() < 0.02:
            inp = rng.choice(BAD_INPUTS)
        kwargs = {
            "inp": inp,
            "tinp": tinp,
            "suspect_threshold": gen_threshold(rng, allow_none=rng.random() < 0.05),
            "fail_threshold": gen_threshold(rng, allow_none=rng.random() < 0.05),
        }
        if rng.random() < 0.7:
            kwargs["test_period"] = rng.choice([None, 0, 1, 2, 5, 30, 60, 3600, 86400, 1e6, 2.5, -5, "60", np.int64(60), 0.0])
        if rng.random() < 0.4:
            kwargs["min_obs"] = rng.choice([None, 0, 1, 2, 3, 5, 100, 2.0, -1])
        if rng.random() < 0.4:
            kwargs["min_period"] = rng.choice([None, 0, 1, 10, 60, 3600, 1e7, 2.5])
        r = rng.random()
        if r < 0.35:
            kwargs["check_type"] = "std"
        elif r < 0.7:
            kwargs["check_type"] = "range"
        elif r < 0.75:
            kwargs["check_type"] = rng.choice(["STD", "", None, 5, ["std"], ("range",), "{}", "%s"])
        if rng.random() < 0.1:
            kwargs["unused_extra"] = 1
        mk = _call_form(rng, names, kwargs)
        compare_case(
            "qartod.attenuated_signal_test",
            lambda impl, *a, **kw: _message_if_value_error(lambda: impl.qartod.attenuated_signal_test(*a, **kw)),
            mk,
        )


@suite("qartod.density_inversion_test")
def suite_density(rng, n):
    names = ["inp", "zinp", "suspect_threshold", "fail_threshold"]
    dens = [1024.0, 1024.5, 1025, 1025, 1026, 1023.9, 1027.3, 1024.0000001, 1030]
    for _ in range(n):
        k = rng.randint(0, 8)
        inp = wrap_values(rng, gen_values(rng, k, pool=dens))
        zinp = wrap_values(rng, gen_values(rng, k if rng.random() < 0.93 else rng.randint(0, 8), pool=DEPTH_POOL))
        if rng.random() < 0.02:
            inp = rng.choice(BAD_INPUTS)
        kwargs = {"inp": inp, "zinp": zinp}
        thr = [None, 0, 0.01, -0.01, -0.5, 0.5, 1, -1, -3, 3, NAN, np.float64(-0.03), 100]
        if rng.random() < 0.85:
            kwargs["suspect_threshold"] = rng.choice(thr)
        if rng.random() < 0.85:
            kwargs["fail_threshold"] = rng.choice(thr)
        mk = _call_form(rng, names, kwargs)
        compare_case(
            "qartod.density_inversion_test",
            lambda impl, *a, **kw: _message_if_value_error(lambda: impl.qartod.density_inversion_test(*a, **kw)),
            mk,
        )


# --------------------------------------------------------------------------------------
# Suites: argo, axds
# --------------------------------------------------------------------------------------
@suite("argo.pressure_increasing_test")
def suite_pressure(rng, n):
    pres = [0, 1, 2, 3, 5, 10, 10, 20, 100, 255, 0.5, -1, 1000]
    for _ in range(n):
        vals = gen_values(rng, pool=pres)
        mode = rng.random()
        if mode < 0.3:
            vals = sorted((v for v in vals if isinstance(v, (int, float)) and v == v), reverse=rng.random() < 0.5)
        inp = wrap_values(rng, vals)
        if rng.random() < 0.03:
            inp = rng.choice(BAD_INPUTS)
        mk = fixed([inp]) if rng.random() < 0.7 else fixed([], {"inp": inp})
        compare_case(
            "argo.pressure_increasing_test",
            lambda impl, *a, **kw: _message_if_value_error(lambda: impl.argo.pressure_increasing_test(*a, **kw)),
            mk,
        )


@suite("argo.speed_test")
def suite_speed(rng, n):
    names = ["lon", "lat", "tinp", "suspect_threshold", "fail_threshold"]
    for _ in range(n):
        k = rng.randint(0, 7)
        lon, lat = gen_lonlat(rng, k)
        if rng.random() < 0.5:
            # nearby points so that speeds are moderate
            lon = [(-70 + 0.01 * i * rng.choice([0, 1, 5])) if v is not None and v == v else v for i, v in enumerate(lon)]
            lat = [(40 + 0.01 * i * rng.choice([0, 1, 5])) if v is not None and v == v else v for i, v in enumerate(lat)]
        if rng.random() < 0.04:
            lat = lat[:-1]
        tinp = gen_times(rng, k if rng.random() < 0.93 else rng.randint(0, 7))
        kwargs = {
            "lon": wrap_values(rng, lon),
            "lat": wrap_values(rng, lat),
            "tinp": tinp,
            "suspect_threshold": rng.choice([0, 0.1, 1, 5, 100, 1e4, 1e9, None, NAN, -1, np.float64(2)]),
            "fail_threshold": rng.choice([0, 0.5, 3, 10, 500, 1e5, 1e9, None, NAN, -1, np.float64(20)]),
        }
        mk = _call_form(rng, names, kwargs)
        compare_case(
            "argo.speed_test",
            lambda impl, *a, **kw: _message_if_value_error(lambda: impl.argo.speed_test(*a, **kw)),
            mk,
        )


class ColumnLike:
    """A sequence exposing its numpy data through `.values` only."""

    def __init__(self, values) -> None:
        self.values = values

    def __len__(self) -> int:
        return len(self.values)

    def __getitem__(self, i):
        return self.values[i]

    def __repr__(self) -> str:
        return f"ColumnLike({self.values!r})"


@suite("axds.valid_range_test")
def suite_valid_range(rng, n):
    names = ["inp", "valid_span", "dtype", "start_inclusive", "end_inclusive"]
    dtypes = [None, None, None, np.float64, "float64", np.float32, np.int64, "int16", np.uint8, "datetime64[ns]",
              np.dtype("datetime64[s]"), "datetime64[ms]", object, "U5", bool, "timedelta64[s]", "bogus"]
    for _ in range(n):
        k = rng.randint(0, 8)
        kind = rng.random()
        if kind < 0.65:
            inp = wrap_values(rng, gen_values(rng, k))
            a, b = rng.choice(VALUE_POOL[:12]), rng.choice(VALUE_POOL[:12])
            span_ = rng.choice([(min(a, b), max(a, b)), [a, b], (a, None), (None, b), (NAN, b), (a, NAN), (None, None),
                                (a,), (a, b, 1), np.array([a, b]), (a, np.nan)])
        else:
            inp = gen_times(rng, k)
            lo = rng.choice(["2020-01-01", np.datetime64("2020-01-01T00:00:02"), pd.Timestamp("2020-01-01T00:01:00"),
                             dt.datetime(2020, 1, 1, 1), 1577836800, None, np.datetime64("NaT")])
            hi = rng.choice(["2020-03-01", np.datetime64("2020-01-01T00:00:05"), pd.Timestamp("2020-01-02"),
                             dt.datetime(2020, 6, 1), 1583020800, None, np.datetime64("NaT")])
            span_ = rng.choice([(lo, hi), [lo, hi], np.array([np.datetime64("2020-01-01"), np.datetime64("2020-02-01")])])
        if rng.random() < 0.03:
            inp = rng.choice(BAD_INPUTS)
        if rng.random() < 0.05 and isinstance(inp, np.ndarray) and inp.ndim == 1:
            inp = ColumnLike(inp)  # has .values (with a dtype) but no .dtype of its own
        kwargs = {"inp": inp, "valid_span": span_}
        if rng.random() < 0.6:
            kwargs["dtype"] = rng.choice(dtypes)
        if rng.random() < 0.6:
            kwargs["start_inclusive"] = rng.choice([True, False, 1, 0, None, np.True_, "yes"])
        if rng.random() < 0.6:
            kwargs["end_inclusive"] = rng.choice([True, False, 1, 0, None, np.True_, "yes"])
        mk = _call_form(rng, names, kwargs)
        compare_case(
            "axds.valid_range_test",
            lambda impl, *a, **kw: _message_if_value_error(lambda: impl.axds.valid_range_test(*a, **kw)),
            mk,
        )



# --------------------------------------------------------------------------------------
# Suites: config
# --------------------------------------------------------------------------------------
class TW:
    """Placeholder for the implementation's own TimeWindow namedtuple."""

    def __init__(self, *args, **kwargs) -> None:
        self.args, self.kwargs = args, kwargs

    def __repr__(self) -> str:
        return f"TW({self.args}, {self.kwargs})"


def realise(impl, obj):
    """Deep copy of a spec with the placeholders replaced by objects of `impl`."""
    if isinstance(obj, TW):
        return impl.config.tw(*obj.args, **obj.kwargs)
    if isinstance(obj, OrderedDict):
        return OrderedDict((k, realise(impl, v)) for k, v in obj.items())
    if isinstance(obj, dict):
        return {k: realise(impl, v) for k, v in obj.items()}
    if isinstance(obj, list):
        return [realise(impl, v) for v in obj]
    if isinstance(obj, tuple):
        return tuple(realise(impl, v) for v in obj)
    return copy.deepcopy(obj)


TEST_KWARGS = {
    ("qartod", "gross_range_test"): [{"fail_span": [0, 10]}, {"fail_span": [0, 10], "suspect_span": [1, 9]},
                                     {"suspect_span": [2, 3], "fail_span": (1, 4)}, {"fail_span": [0]}, {"bogus": 1}],
    ("qartod", "spike_test"): [{"suspect_threshold": 1, "fail_threshold": 3}, {"fail_threshold": 2, "method": "differential"},
                               {"method": "nope"}, {}],
    ("qartod", "flat_line_test"): [{"suspect_threshold": 2, "fail_threshold": 3, "tolerance": 0.5},
                                   {"tolerance": 1, "fail_threshold": 120, "suspect_threshold": 60}],
    ("qartod", "rate_of_change_test"): [{"threshold": 0.5}, {"threshold": 5}],
    ("qartod", "location_test"): [{"bbox": [-80, 30, -60, 50]}, {}, {"bbox": [-80, 30, -60, 50], "range_max": 5000}, None],
    ("qartod", "attenuated_signal_test"): [{"suspect_threshold": 1, "fail_threshold": 0.5},
                                           {"check_type": "range", "fail_threshold": 0.1, "suspect_threshold": 2, "test_period": 60}],
    ("qartod", "density_inversion_test"): [{"suspect_threshold": -0.01, "fail_threshold": -0.5}],
    ("qartod", "climatology_test"): [
        {"config": [{"tspan": [0, 12], "vspan": [1, 8], "period": "month"}]},
        {"config": [{"tspan": ["2020-01-01", "2021-01-01"], "vspan": [2, 6], "fspan": [0, 9], "zspan": [0, 100]}]},
        {"config": {"tspan": [0, 12]}},
    ],
    ("qartod", "aggregate"): [None, {}],
    ("qartod", "nope_test"): [None, {"a": 1}],
    ("qartod", "QartodFlags"): [None],
    ("argo", "pressure_increasing_test"): [None, {}],
    ("argo", "speed_test"): [{"suspect_threshold": 1, "fail_threshold": 3}],
    ("axds", "valid_range_test"): [{"valid_span": [0, 5]}, {"valid_span": [1, 4], "end_inclusive": True, "dtype": "float64"}],
    ("bogus", "some_test"): [{"a": 1}, None],
    ("utils", "isnan"): [None],
    ("", "x"): [None],
    ("qartod.sub", "x"): [None],
}
TEST_KEYS = list(TEST_KWARGS)

REGIONS = [
    None, {}, "not geojson", 5,
    {"type": "FeatureCollection", "features": [{"type": "Feature", "properties": {}, "geometry": {"type": "Point", "coordinates": [-70, 40]}}]},
    {"features": [{"geometry": {"type": "Polygon", "coordinates": [[[0, 0], [1, 0], [1, 1], [0, 0]]]}},
                  {"geometry": {"type": "Point", "coordinates": [1, 2]}}]},
    {"features": []},
    {"type": "Feature", "geometry": {"type": "LineString", "coordinates": [[0, 0], [1, 1]]}},
    {"geometry": {"type": "Point", "coordinates": [5, 5]}, "features": [{"geometry": {"type": "Point", "coordinates": [9, 9]}}]},
    {"geometry": None}, {"geometry": {"type": "Nope"}}, {"features": [{"nogeometry": 1}]}, {"type": "Point", "coordinates": [1, 2]},
    ["features"], ["geometry"], "features", "a geometry string",
]


def gen_region(rng):
    from shapely.geometry import GeometryCollection, Point

    r = rng.random()
    if r < 0.12:
        return GeometryCollection([Point(1, 2)])
    if r < 0.15:
        return GeometryCollection()
    if r < 0.18:
        return Point(1, 2)
    if r < 0.6:
        return copy.deepcopy(rng.choice(REGIONS[:9]))
    return copy.deepcopy(rng.choice(REGIONS))


def gen_window(rng):
    r = rng.random()
    starts = ["2020-01-01T00:00:00Z", None, dt.datetime(2020, 1, 1), 0]
    ends = ["2020-04-01T00:00:00Z", None, dt.datetime(2020, 4, 1), 1e9]
    if r < 0.3:
        return {"starting": rng.choice(starts), "ending": rng.choice(ends)}
    if r < 0.4:
        return {"ending": rng.choice(ends)} if rng.random() < 0.5 else {"starting": rng.choice(starts)}
    if r < 0.6:
        return TW(rng.choice(starts), rng.choice(ends)) if rng.random() < 0.7 else TW()
    if r < 0.7:
        return {}
    if r < 0.93:
        return OrderedDict([("ending", rng.choice(ends)), ("starting", rng.choice(starts))])
    return rng.choice([None, {"bogus": 1}, ("2020-01-01", "2020-02-01"), "2020", 5, [1, 2]])


def gen_package_config(rng, max_tests=3):
    """{package: {test: kwargs}}"""
    out = {}
    for _ in range(rng.choice([0, 1, 1, 2, 2, max_tests])):
        package, test = rng.choice(TEST_KEYS)
        kwargs = copy.deepcopy(rng.choice(TEST_KWARGS[(package, test)]))
        if rng.random() < 0.05:
            kwargs = rng.choice([[], 0, "", (), [1], "str", 5])
        out.setdefault(package, {})[test] = kwargs
    if rng.random() < 0.05:
        out[rng.choice(["qartod", "argo"])] = rng.choice([None, {}, [], "x"])
    return out


class AttrDict(dict):
    """A stream config that carries attrs, as load_config_from_xarray-like sources may."""


def gen_streams(rng):
    out = {}
    for _ in range(rng.choice([0, 1, 1, 2, 3])):
        stream_id = rng.choice(["temp", "salinity", "pressure", "_stream", "1x", "a b", "", 5])
        sc = gen_package_config(rng)
        if rng.random() < 0.1:
            wrapped = AttrDict(sc)
            wrapped.attrs = rng.choice([{"units": "m"}, {}, None, "x"])
            sc = wrapped
        out[stream_id] = sc
    if rng.random() < 0.03:
        out["bad"] = rng.choice([None, [], "x", 5])
    return out


def gen_context(rng):
    ctx = {"streams": gen_streams(rng)}
    if rng.random() < 0.5:
        ctx["window"] = gen_window(rng)
    if rng.random() < 0.5:
        ctx["region"] = gen_region(rng)
    if rng.random() < 0.3:
        ctx["attrs"] = rng.choice([{"title": "x"}, {}, None, "s"])
    if rng.random() < 0.03:
        del ctx["streams"]
    items = list(ctx.items())
    rng.shuffle(items)
    return OrderedDict(items) if rng.random() < 0.5 else dict(items)


def serialisable(obj):
    import json

    try:
        json.dumps(obj)
    except Exception:  # noqa: BLE001
        return False
    return True


def gen_config_source(rng):
    """(kind, spec) of a Config source."""
    r = rng.random()
    if r < 0.2:
        spec = gen_package_config(rng)  # QcConfig style
    elif r < 0.4:
        spec = gen_streams(rng)  # streams without the key
    elif r < 0.65:
        spec = gen_context(rng)
    elif r < 0.94:
        spec = {"contexts": [gen_context(rng) for _ in range(rng.choice([0, 1, 2, 3]))]}
        if rng.random() < 0.05:
            spec["contexts"] = rng.choice([None, {}, "x", [None]])
        if rng.random() < 0.2:
            spec["streams"] = gen_streams(rng)
    else:
        spec = rng.choice([None, 5, "", "not: [valid", {}, OrderedDict(), [], (), "a: 1", '{"a": {"b": {"c": {"d": 1}}}}', io.StringIO("x")])
        return "raw", spec
    form = rng.random()
    if form < 0.55:
        return "dict", spec
    if form < 0.65:
        return "odict", spec
    if serialisable(spec):
        import json

        if form < 0.8:
            return "json", json.dumps(spec)
        if form < 0.9:
            return "stringio", json.dumps(spec)
        return "yaml", _to_yaml(spec)
    return "dict", spec


def _to_yaml(spec):
    from ruamel.yaml import YAML

    import json

    buf = io.StringIO()
    YAML(typ="safe").dump(json.loads(json.dumps(spec)), buf)
    return buf.getvalue()


def make_source(impl, kind, spec):
    if kind == "raw":
        return io.StringIO(spec.getvalue()) if isinstance(spec, io.StringIO) else copy.deepcopy(spec)
    if kind == "dict":
        return realise(impl, spec)
    if kind == "odict":
        return OrderedDict(realise(impl, spec))
    if kind == "stringio":
        return io.StringIO(spec)
    return spec


@suite("config.ContextConfig.__init__")
def suite_context_config(rng, n):
    for _ in range(n):
        r = rng.random()
        if r < 0.94:
            spec = gen_context(rng)
            kind = "dict" if not serialisable(spec) or rng.random() < 0.7 else rng.choice(["json", "stringio", "yaml"])
            if kind in ("json", "stringio"):
                import json

                spec = json.dumps(spec)
            elif kind == "yaml":
                spec = _to_yaml(spec)
        else:
            kind, spec = gen_config_source(rng)
        by_keyword = rng.random() < 0.3

        def call(impl):
            source = make_source(impl, kind, spec)
            obj = impl.config.ContextConfig(source=source) if by_keyword else impl.config.ContextConfig(source)
            return obj, [c.context is obj.context for c in obj.calls], obj.calls is obj._calls, str(obj)

        compare_case("config.ContextConfig.__init__", call, lambda impl: ([], {}))


@suite("config.Config.__init__")
def suite_config(rng, n):
    for _ in range(n):
        kind, spec = gen_config_source(rng)
        wrap = rng.random()
        kwargs = {}
        if rng.random() < 0.3:
            kwargs["default_stream_key"] = rng.choice(["_stream", "mine", "", None, 5])
        if rng.random() < 0.2:
            kwargs["version"] = rng.choice([None, 1, "2"])
        kwargs = shuffled_kwargs(rng, kwargs)
        pick = rng.random()

        def call(impl):
            source = make_source(impl, kind, spec)
            if wrap < 0.25:
                # sources that calls can be extracted from
                inner = impl.config.Config(make_source(impl, kind, spec))
                calls = list(inner.calls)
                if pick < 0.2:
                    source = inner
                elif pick < 0.4:
                    source = calls
                elif pick < 0.5:
                    source = tuple(calls)
                elif pick < 0.6:
                    source = calls[0] if calls else []
                elif pick < 0.7:
                    source = [inner, *calls[:1], "junk", types.SimpleNamespace(calls=calls[:2])]
                elif pick < 0.8:
                    source = types.SimpleNamespace(calls=calls)
                elif pick < 0.9:
                    source = types.SimpleNamespace(calls=tuple(calls))
                else:
                    source = types.SimpleNamespace(calls=None)
            if "version" in kwargs and pick < 0.5:
                rest = {k: v for k, v in kwargs.items() if k != "version"}
                obj = impl.config.Config(source, kwargs["version"], **rest)
            elif pick < 0.75:
                obj = impl.config.Config(source, **kwargs)
            else:
                obj = impl.config.Config(source=source, **kwargs)
            return obj, hasattr(obj, "config"), obj.stream_ids, len(obj.contexts)

        compare_case("config.Config.__init__", call, lambda impl: ([], {}))


RUN_STREAMS = None


def gen_run_kwargs(rng):
    k = rng.randint(0, 7)
    passed = {}
    if rng.random() < 0.95:
        passed["inp"] = wrap_values(rng, gen_values(rng, k), allow_2d=False)
    if rng.random() < 0.9:
        passed["tinp"] = gen_times(rng, k)
    if rng.random() < 0.8:
        passed["zinp"] = wrap_values(rng, gen_values(rng, k, pool=DEPTH_POOL), allow_2d=False)
    if rng.random() < 0.8:
        lon, lat = gen_lonlat(rng, k)
        passed["lon"], passed["lat"] = wrap_values(rng, lon, allow_2d=False), wrap_values(rng, lat, allow_2d=False)
    if rng.random() < 0.3:
        passed["geom"] = None
    if rng.random() < 0.2:
        passed["unknown_argument"] = 5
    if rng.random() < 0.25:
        # overrides of configured values
        passed[rng.choice(["fail_span", "suspect_threshold", "fail_threshold", "tolerance", "bbox", "method", "threshold", "args", "kwargs", "results"])] = rng.choice(
            [None, 1, [0, 5], (1, 2), "differential", 0.25],
        )
    return shuffled_kwargs(rng, passed)


@suite("config.Call.run")
def suite_call_run(rng, n):
    done = 0
    while done < n:
        streams = {}
        for stream_id in rng.sample(["temp", "salinity", "x"], rng.choice([1, 1, 2])):
            sc = {}
            while not sc:
                sc = {
                    p: {t: kw for t, kw in tests.items()}
                    for p, tests in gen_package_config(rng, max_tests=4).items()
                    if isinstance(tests, dict) and p in ("qartod", "argo", "axds", "utils")
                }
            streams[stream_id] = sc
        spec = {"streams": streams}
        passed = gen_run_kwargs(rng)

        def count(impl):
            try:
                return len(impl.config.Config(realise(impl, spec)).calls)
            except Exception:  # noqa: BLE001
                return 0

        n_calls = count(NEW)
        if n_calls == 0:
            continue
        for index in range(n_calls):

            def call(impl, **passedkwargs):
                cfg = impl.config.Config(realise(impl, spec))
                target = cfg.calls[index]
                before = describe(target)
                out = target.run(**passedkwargs)
                return out, type(out).__name__, before == describe(target)

            compare_case("config.Call.run", call, fixed([], passed))
            done += 1



# --------------------------------------------------------------------------------------
# Suites: stores
# --------------------------------------------------------------------------------------
STREAM_IDS = ["temp", "salinity", "1x", "a b", "", None, "time", "z", "lat", "temp", 5, 0, "_x", "é", [], ["s"], {}]
PACKAGES = ["qartod", "argo", "", None, "axds", 0, "my.pkg"]
TESTS = ["gross_range_test", "spike_test", "rollup", "", None, "9lives", 0, "a test"]
FUNCTION_NAMES = ["gross_range_test", "spike_test", "aggregate", "location_test", None]


def gen_collected_spec(rng, k):
    def axis(kind):
        r = rng.random()
        if r < 0.15:
            return None
        if r < 0.25:
            return np.array([], dtype="float64")
        if r < 0.3:
            return np.ma.masked_all(k, dtype="float64")
        if r < 0.33:
            return np.arange(k + 1, dtype="float64")
        if kind == "t":
            return gen_times_ns(rng, k)
        return np.array([rng.choice(DEPTH_POOL) for _ in range(k)], dtype="float64")

    return {
        "stream_id": rng.choice(STREAM_IDS),
        "package": rng.choice(PACKAGES),
        "test": rng.choice(TESTS),
        "function": rng.choice(FUNCTION_NAMES),
        "results": gen_flag_vector(rng, k) if rng.random() < 0.95 else None,
        "data": np.array(gen_values(rng, k, allow_odd=False), dtype="float64") if rng.random() < 0.9 else None,
        "tinp": axis("t"),
        "zinp": axis("z"),
        "lat": axis("y"),
        "lon": axis("x"),
    }


def gen_times_ns(rng, k):
    step = rng.choice([1, 60, 3600])
    return T0 + (np.arange(k) * step).astype("timedelta64[s]")


def build_collected(impl, spec):
    kwargs = copy.deepcopy(spec)
    name = kwargs["function"]
    kwargs["function"] = None if name is None else getattr(impl.qartod, name)
    return impl.results.CollectedResult(**kwargs)


def build_filter(impl, items):
    if items is None:
        return None
    out = []
    for item in items:
        if isinstance(item, tuple) and item and item[0] == "fn":
            out.append(getattr(impl.qartod, item[1]))
        else:
            out.append(item)
    return out


def gen_filter(rng):
    r = rng.random()
    if r < 0.45:
        return "absent"
    if r < 0.55:
        return None
    if r < 0.6:
        return []
    pool = ["temp", "salinity", "gross_range_test", "spike_test", "rollup", "", None, 5, 0,
            ("fn", "gross_range_test"), ("fn", "spike_test"), ("fn", "aggregate"), "1x"]
    return [rng.choice(pool) for _ in range(rng.randint(1, 3))]


@suite("stores.column_from_collected_result")
def suite_column(rng, n):
    for _ in range(n):
        spec = gen_collected_spec(rng, 2)
        if rng.random() < 0.1:
            spec["stream_id"] = rng.choice(["{}", "%s", "a.b", "x" * 5, " ", "9", "_", 1.5, ("a",), ["a"]])
        by_kw = rng.random() < 0.3
        partial = rng.random() < 0.05

        def call(impl):
            cr = build_collected(impl, spec)
            if partial:
                cr = types.SimpleNamespace(stream_id=spec["stream_id"], package=spec["package"])
            fn = impl.stores.column_from_collected_result
            return _message_of(lambda: fn(cr=cr) if by_kw else fn(cr))

        compare_case("stores.column_from_collected_result", call, lambda impl: ([], {}))


@suite("stores.PandasStore.save")
def suite_save(rng, n):
    for _ in range(n):
        k = rng.randint(0, 6)
        specs = [gen_collected_spec(rng, k if rng.random() < 0.95 else rng.randint(0, 6)) for _ in range(rng.choice([0, 1, 2, 2, 3, 4]))]
        if rng.random() < 0.3 and specs:
            specs.append(dict(specs[0]))  # a duplicate column
        kwargs = {}
        if rng.random() < 0.6:
            kwargs["write_data"] = rng.choice([True, False, 1, 0, None, "yes"])
        if rng.random() < 0.5:
            kwargs["write_axes"] = rng.choice([True, True, False, 1, None])
        include, exclude = gen_filter(rng), gen_filter(rng)
        axes = rng.choice([None, None, None, {"t": "time", "z": "depth", "y": "latitude", "x": "longitude"},
                           {"t": "temp", "z": "z", "y": "lat", "x": "lon"}, {"t": "time"}, {"t": "t", "z": "t", "x": "t", "y": "t"}])
        kwargs = shuffled_kwargs(rng, kwargs)
        positional = rng.random() < 0.2

        def call(impl):
            store = impl.stores.PandasStore([], axes=copy.deepcopy(axes))
            store.collected_results = [build_collected(impl, s) for s in specs]
            kw = dict(kwargs)
            if not isinstance(include, str):
                kw["include"] = build_filter(impl, include)
            if not isinstance(exclude, str):
                kw["exclude"] = build_filter(impl, exclude)
            if positional:
                args = [kw.pop("write_data", False), kw.pop("write_axes", True)]
                df = store.save(*args, **kw)
            else:
                df = store.save(**kw)
            return df, list(df.columns), store.collected_results, store.axes

        compare_case("stores.PandasStore.save", call, lambda impl: ([], {}))


# --------------------------------------------------------------------------------------
# main (suites defined above are registered in SUITES)
# --------------------------------------------------------------------------------------
def main():
    parser = argparse.ArgumentParser()
    parser.add_argument("-n", type=int, default=3000, help="cases per function")
    parser.add_argument("-k", default="", help="only suites whose name contains this")
    parser.add_argument("--seed", type=int, default=20261003)
    opts = parser.parse_args()

    for name, fn in SUITES.items():
        if opts.k and opts.k not in name:
            continue
        rng = random.Random(f"{opts.seed}:{name}")
        before = len(FAILURES)
        try:
            fn(rng, opts.n)
        except Exception:  # noqa: BLE001
            traceback.print_exc()
            FAILURES.append((name, "suite crashed", None, None))
        labels = [l for l in COUNTS if l == name or l.startswith(name + "[")]
        total = sum(COUNTS[l] for l in labels)
        raised = sum(RAISES.get(l, 0) for l in labels)
        status = "ok" if len(FAILURES) == before else f"{len(FAILURES) - before} DIFFERENCES"
        print(f"{name:45s} cases={total:6d} raising={raised:5d}  {status}", flush=True)
        if total < opts.n:
            FAILURES.append((name, f"only {total} cases", None, None))

    if FAILURES:
        print(f"\n{len(FAILURES)} differences")
        for label, shown, old, new in FAILURES[:4]:
            print("-" * 80)
            print(label)
            print("  args:", repr(shown)[:600])
            print("  old :", repr(old)[:900])
            print("  new :", repr(new)[:900])
        return 1
    print("\nall equivalent")
    return 0


if __name__ == "__main__":
    sys.exit(main())
