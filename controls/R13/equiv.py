#!/usr/bin/env python
"""Differential check: refactored worktree functions vs the originals in /repo.

Run as:  PYTHONPATH=<worktree> /venv/bin/python equiv.py [-n CASES] [-k NAME]

The original package is loaded from /repo/ioos_qc under the top-level name ``orig_ioos_qc``
(importlib.util.spec_from_file_location + submodule_search_locations).  Its sources are compiled
with every ``ioos_qc`` word replaced by ``orig_ioos_qc`` so that the original test functions also
use the original helpers (mapdates, great_circle_distance, ...), not the refactored ones.

Each function is called with the same generated arguments (built twice from the same seed so that
no object is shared) and the outcomes are compared: exception type, returned value (type, dtype,
shape, data incl. the values under the mask, mask, nomask-ness, fill_value), log records, the
categories of the warnings raised and the state of the arguments after the call (mutation).
"""

import argparse
import dataclasses
import importlib.abc
import importlib.machinery
import importlib.util
import logging
import random
import re
import sys
import warnings
from collections import OrderedDict, defaultdict
from pathlib import Path

import numpy as np
import pandas as pd

ALIAS = "orig_ioos_qc"
ORIG_ROOT = Path("/repo/ioos_qc")
HERE = Path(__file__).resolve().parent


# --------------------------------------------------------------------------------------
# loading the original package under another name
# --------------------------------------------------------------------------------------
class RenamingLoader(importlib.machinery.SourceFileLoader):
    """Compile the original sources with the package name replaced by the alias."""

    def get_code(self, fullname):
        path = self.get_filename(fullname)
        src = Path(path).read_text()
        src = re.sub(r"\bioos_qc\b", ALIAS, src)
        return compile(src, path, "exec", dont_inherit=True)


class OrigFinder(importlib.abc.MetaPathFinder):
    def find_spec(self, fullname, path, target=None):
        if fullname != ALIAS and not fullname.startswith(ALIAS + "."):
            return None
        base = ORIG_ROOT.joinpath(*fullname.split(".")[1:])
        if base.is_dir():
            filename, search = base / "__init__.py", [str(base)]
        else:
            filename, search = base.with_suffix(".py"), None
        if not filename.exists():
            return None
        return importlib.util.spec_from_file_location(
            fullname,
            str(filename),
            loader=RenamingLoader(fullname, str(filename)),
            submodule_search_locations=search,
        )


sys.meta_path.insert(0, OrigFinder())

import orig_ioos_qc  # noqa: E402
import orig_ioos_qc.argo  # noqa: E402
import orig_ioos_qc.axds  # noqa: E402
import orig_ioos_qc.config_creator.fx_parser  # noqa: E402
import orig_ioos_qc.qartod  # noqa: E402
import orig_ioos_qc.results  # noqa: E402
import orig_ioos_qc.stores  # noqa: E402
import orig_ioos_qc.utils  # noqa: E402

import ioos_qc  # noqa: E402
import ioos_qc.argo  # noqa: E402
import ioos_qc.axds  # noqa: E402
import ioos_qc.config_creator.fx_parser  # noqa: E402
import ioos_qc.qartod  # noqa: E402
import ioos_qc.results  # noqa: E402
import ioos_qc.stores  # noqa: E402
import ioos_qc.utils  # noqa: E402

assert Path(orig_ioos_qc.qartod.__file__).resolve() == ORIG_ROOT / "qartod.py"
assert Path(ioos_qc.qartod.__file__).resolve() == HERE / "ioos_qc" / "qartod.py", ioos_qc.qartod.__file__
assert orig_ioos_qc.qartod.mapdates is orig_ioos_qc.utils.mapdates
assert orig_ioos_qc.qartod.mapdates is not ioos_qc.utils.mapdates

PKG = {"new": ioos_qc, "orig": orig_ioos_qc}


def mod(which, name):
    return sys.modules[("ioos_qc" if which == "new" else ALIAS) + ("." + name if name else "")]


# --------------------------------------------------------------------------------------
# log capture
# --------------------------------------------------------------------------------------
class ListHandler(logging.Handler):
    def __init__(self):
        super().__init__(level=logging.DEBUG)
        self.records = []

    def emit(self, record):
        name = record.name
        if name.startswith(ALIAS):
            name = "ioos_qc" + name[len(ALIAS) :]
        self.records.append((name, record.levelname, record.getMessage()))


HANDLER = ListHandler()
for _root in ("ioos_qc", ALIAS):
    _lg = logging.getLogger(_root)
    _lg.setLevel(logging.DEBUG)
    _lg.addHandler(HANDLER)
    _lg.propagate = False


# --------------------------------------------------------------------------------------
# structural description of a value; two outcomes are equal iff their descriptions are
# --------------------------------------------------------------------------------------
def describe_array(a):
    a = np.asarray(a)
    if a.dtype == object:
        return ("objarr", a.shape, tuple(describe(x) for x in a.ravel().tolist()))
    if a.dtype.kind in "fc":
        # bit pattern (so that nan == nan and -0.0 != 0.0)
        return ("arr", str(a.dtype), a.shape, np.ascontiguousarray(a).tobytes())
    return ("arr", str(a.dtype), a.shape, np.ascontiguousarray(a).tobytes())


# The values under the mask are compared too, except for the collectors (uninitialised memory)
STRICT_MASKED_DATA = True


def describe(v, depth=0):  # noqa: C901, PLR0911, PLR0912
    if depth > 12:
        return ("deep", type(v).__name__)
    if v is np.ma.masked:
        return ("masked-constant",)
    if isinstance(v, np.ma.MaskedArray):
        fill = v._fill_value
        data = v.data
        if not STRICT_MASKED_DATA and v._mask is not np.ma.nomask and v.dtype.names is None:
            # np.ma.masked_all leaves uninitialised memory under the mask
            data = np.array(data, copy=True)
            data[np.ma.getmaskarray(v)] = np.zeros((), dtype=data.dtype)
        return (
            "ma",
            type(v).__name__,
            str(v.dtype),
            v.shape,
            v._mask is np.ma.nomask,
            describe_array(np.ma.getmaskarray(v)),
            describe_array(data),
            None if fill is None else describe_array(fill),
            bool(v._hardmask),
        )
    if isinstance(v, np.ndarray):
        return ("nd", type(v).__name__, describe_array(v))
    if isinstance(v, np.generic):
        return ("npscalar", type(v).__name__, describe_array(v))
    if isinstance(v, pd.DataFrame):
        return (
            "df",
            tuple(map(str, v.columns)),
            tuple(str(t) for t in v.dtypes),
            describe(v.index, depth + 1),
            tuple(describe(v[c].to_numpy(), depth + 1) for c in v.columns),
        )
    if isinstance(v, pd.Series):
        return ("series", str(v.dtype), describe(v.index, depth + 1), describe(v.to_numpy(), depth + 1), str(v.name))
    if isinstance(v, pd.Index):
        return ("index", type(v).__name__, str(v.dtype), describe(v.to_numpy(), depth + 1))
    if isinstance(v, float):
        return ("float", np.float64(v).tobytes())
    if isinstance(v, complex):
        return ("complex", np.complex128(v).tobytes())
    if isinstance(v, (bool, int, str, bytes, type(None))):
        return (type(v).__name__, v)
    if dataclasses.is_dataclass(v) and not isinstance(v, type):
        return (
            "dataclass",
            type(v).__name__,
            tuple((f.name, describe(getattr(v, f.name), depth + 1)) for f in dataclasses.fields(v)),
        )
    if isinstance(v, defaultdict):
        return (
            "defaultdict",
            describe_factory(v.default_factory),
            tuple((describe(k, depth + 1), describe(x, depth + 1)) for k, x in v.items()),
        )
    if isinstance(v, dict):
        return (
            "dict",
            type(v).__name__,
            tuple((describe(k, depth + 1), describe(x, depth + 1)) for k, x in v.items()),
        )
    if isinstance(v, tuple) and hasattr(v, "_fields"):
        return ("namedtuple", type(v).__name__, v._fields, tuple(describe(x, depth + 1) for x in v))
    if isinstance(v, (list, tuple)):
        return (type(v).__name__, tuple(describe(x, depth + 1) for x in v))
    if isinstance(v, (pd.Timestamp, pd.Timedelta)):
        return (type(v).__name__, str(v))
    if callable(v):
        module = getattr(v, "__module__", "") or ""
        if module.startswith(ALIAS):
            module = "ioos_qc" + module[len(ALIAS) :]
        return ("callable", module, getattr(v, "__qualname__", type(v).__name__))
    if hasattr(v, "__dict__"):
        return ("object", type(v).__name__, describe(dict(vars(v)), depth + 1))
    return ("other", type(v).__name__, repr(v))


def describe_factory(f):
    if f is None:
        return None
    code = getattr(f, "__code__", None)
    return (type(f).__name__, getattr(f, "__name__", None), None if code is None else code.co_code)


def call(fn, args, kwargs):
    HANDLER.records = []
    with warnings.catch_warnings(record=True) as caught:
        warnings.simplefilter("always")
        try:
            out = ("ok", describe(fn(*args, **kwargs)))
        except RecursionError:
            raise
        except BaseException as e:  # noqa: BLE001
            out = ("raise", type(e).__name__)
    warned = sorted({w.category.__name__ for w in caught})
    return out, tuple(HANDLER.records), tuple(warned), describe((args, kwargs))


# --------------------------------------------------------------------------------------
# input generators
# --------------------------------------------------------------------------------------
SPECIAL = [float("nan"), None, float("inf"), float("-inf")]
T0 = np.datetime64("2020-01-01T00:00:00")


def rand_values(rng, n, p_special=0.2, lo=-6, hi=6, allow_none=True):
    out = []
    for _ in range(n):
        r = rng.random()
        if r < p_special:
            s = rng.choice(SPECIAL if allow_none else [SPECIAL[0], SPECIAL[2], SPECIAL[3]])
            if rng.random() < 0.7:
                s = rng.choice([float("nan"), None]) if allow_none else float("nan")
            out.append(s)
        elif r < 0.6:
            out.append(float(rng.randint(lo, hi)))
        elif r < 0.8:
            out.append(rng.randint(lo, hi) / 2.0)
        else:
            out.append(rng.uniform(lo, hi))
    return out


def wrap_series(rng, vals, allow_2d=True):
    """Turn a python list of floats / None / nan into one of several containers."""
    has_none = any(v is None for v in vals)
    clean = [np.nan if v is None else v for v in vals]
    kind = rng.choice(["list", "list", "array", "array", "ma", "series", "tuple", "int", "f32", "2d", "objarr"])
    if kind == "list":
        return list(vals)
    if kind == "tuple":
        return tuple(vals)
    if kind == "array":
        return np.array(clean, dtype=np.float64)
    if kind == "objarr":
        return np.array(list(vals), dtype=object)
    if kind == "ma":
        a = np.array(clean, dtype=np.float64)
        m = np.array([rng.random() < 0.25 for _ in clean], dtype=bool)
        if rng.random() < 0.3:
            return np.ma.MaskedArray(a)
        return np.ma.MaskedArray(a, mask=m)
    if kind == "series":
        return pd.Series(clean, dtype="float64")
    if kind == "int":
        if has_none or any(v != v or v in (float("inf"), float("-inf")) for v in clean):
            return list(vals)
        ints = [int(v) for v in clean]
        kinds = ["int64", "int32", "int16"] + (["uint8", "uint16"] if all(v >= 0 for v in ints) else [])
        return np.array(ints, dtype=rng.choice(kinds))
    if kind == "f32":
        return np.array(clean, dtype=np.float32)
    if kind == "2d":
        a = np.array(clean, dtype=np.float64)
        if allow_2d and a.size and a.size % 2 == 0:
            a = a.reshape(2, -1)
            if rng.random() < 0.3:
                a = np.asfortranarray(a)
        return a
    raise AssertionError(kind)


def rand_times(rng, n, like=None):
    """n time stamps in one of several representations."""
    mode = rng.choice(["regular", "regular", "irregular", "dups", "decreasing", "random"])
    step = rng.choice([1, 1, 2, 10, 60, 3600])
    if mode == "regular":
        secs = [i * step for i in range(n)]
    elif mode == "irregular":
        secs, cur = [], 0
        for _ in range(n):
            secs.append(cur)
            cur += rng.choice([1, 2, 3, 5, step])
    elif mode == "dups":
        secs, cur = [], 0
        for _ in range(n):
            secs.append(cur)
            cur += rng.choice([0, 1, step])
    elif mode == "decreasing":
        secs = [-(i * step) for i in range(n)]
    else:
        secs = [rng.randint(0, 50) for _ in range(n)]
    kind = rng.choice(["dt64", "dt64", "dt64s", "epoch", "epoch_arr", "index", "tzseries", "tzindex", "series", "pydt", "str", "nat"])
    arr = T0 + np.array(secs, dtype="timedelta64[s]") if n else np.array([], dtype="datetime64[s]")
    if kind == "dt64":
        out = arr.astype("datetime64[ns]")
    elif kind == "dt64s":
        out = arr.astype("datetime64[s]")
    elif kind == "epoch":
        return [1577836800 + s for s in secs]
    elif kind == "epoch_arr":
        return np.array([1577836800 + s for s in secs], dtype=rng.choice(["int64", "float64"]))
    elif kind == "index":
        return pd.DatetimeIndex(arr.astype("datetime64[ns]"))
    elif kind == "tzindex":
        return pd.DatetimeIndex(arr.astype("datetime64[ns]")).tz_localize("UTC").tz_convert("US/Eastern")
    elif kind == "tzseries":
        return pd.Series(pd.DatetimeIndex(arr.astype("datetime64[ns]")).tz_localize("UTC"))
    elif kind == "series":
        return pd.Series(arr.astype("datetime64[ns]"))
    elif kind == "pydt":
        return [pd.Timestamp(x).to_pydatetime() for x in arr]
    elif kind == "str":
        return [str(x) for x in arr]
    else:
        out = arr.astype("datetime64[ns]")
        if n:
            out = out.copy()
            out[rng.randrange(n)] = np.datetime64("NaT")
    if like is not None and getattr(like, "ndim", 1) == 2 and out.size == like.size:
        out = out.reshape(like.shape)
    return out


def rand_threshold(rng, allow_none=True):
    r = rng.random()
    if allow_none and r < 0.15:
        return None
    if r < 0.2:
        return float("nan")
    if r < 0.5:
        return rng.randint(-2, 6)
    if r < 0.8:
        return rng.randint(0, 8) / 2.0
    return rng.uniform(-1, 6)


def rand_span(rng, allow_none_elem=False):
    r = rng.random()
    a, b = rng.randint(-6, 6), rng.randint(-6, 6)
    if r < 0.02:
        return (a,)
    if r < 0.04:
        return (a, b, 3)
    if r < 0.06:
        return np.array([a, b])
    if r < 0.2:
        return [b / 2.0, a / 2.0]
    if r < 0.25:
        return (float("nan"), b)
    if allow_none_elem and r < 0.3:
        return (None, b)
    if r < 0.6:
        return (a, b)
    return (min(a, b), max(a, b) + rng.choice([0, 0.5, 1]))


def n_len(rng):
    return rng.choice([0, 1, 2, 3, 3, 4, 4, 5, 5, 6, 7, 8])


# ---- qartod ---------------------------------------------------------------------------
class FakeResult:
    def __init__(self, results):
        self.results = results


def gen_flag_vectors(rng):
    n = n_len(rng)
    k = rng.choice([0] + [1, 1, 2, 2, 3, 4] * 4)
    vecs = []
    for _ in range(k):
        m = n if rng.random() < 0.97 else max(0, n + rng.choice([-1, 1]))
        vals = [rng.choice([1, 2, 3, 4, 9, 9, 1, 0, 5]) for _ in range(m)]
        kind = rng.choice(["u8", "ma", "ma_masked", "f", "i64", "2d", "series", "list"])
        if kind == "u8":
            v = np.array(vals, dtype="uint8")
        elif kind == "ma":
            v = np.ma.MaskedArray(np.array(vals, dtype="uint8"))
        elif kind == "ma_masked":
            v = np.ma.MaskedArray(np.array(vals, dtype="uint8"), mask=[rng.random() < 0.3 for _ in vals])
        elif kind == "f":
            v = np.array([float("nan") if rng.random() < 0.1 else float(x) for x in vals], dtype=float)
        elif kind == "i64":
            v = np.array(vals, dtype="int64")
        elif kind == "2d":
            v = np.array(vals, dtype="uint8").reshape(1, -1) if rng.random() < 0.2 else np.array(vals, dtype="uint8")
        elif kind == "series":
            v = pd.Series(vals, dtype="int64")
        else:
            v = vals if rng.random() < 0.2 else np.array(vals, dtype="uint8")
        vecs.append(v)
    return vecs


def gen_aggregate(rng):
    return ([FakeResult(v) for v in gen_flag_vectors(rng)],), {}


def gen_qartod_compare(rng):
    vecs = gen_flag_vectors(rng)
    if rng.random() < 0.05:
        vecs = iter(vecs)
        # iterators cannot be described after the call, use a tuple-producing wrapper instead
        vecs = tuple(vecs)
    return (vecs,), {}


def gen_lonlat(rng, n):
    lon = rand_values(rng, n, p_special=0.2, lo=-200, hi=200)
    lat = rand_values(rng, n, p_special=0.2, lo=-100, hi=100)
    if rng.random() < 0.3:
        # jitter around a point, so that distances are small
        lon = [None if v is None else v / 1000.0 for v in lon]
        lat = [None if v is None else v / 1000.0 for v in lat]
    if rng.random() < 0.3:
        # masks aligned
        for i in range(n):
            if lon[i] is None or lon[i] != lon[i]:
                lat[i] = rng.choice([None, float("nan")])
    return lon, lat


def gen_location_test(rng):
    n = n_len(rng)
    lon, lat = gen_lonlat(rng, n)
    if rng.random() < 0.07:
        lat = lat[:-1] if lat else [1.0]
    allow2d = rng.random() < 0.5
    lon_w = wrap_series(rng, lon, allow_2d=allow2d)
    lat_w = wrap_series(rng, lat, allow_2d=allow2d)
    kwargs = OrderedDict()
    order = rng.sample(["bbox", "range_max", "lat", "lon"], 4)
    r = rng.random()
    for key in order:
        if key == "bbox" and r < 0.6:
            b = rng.random()
            if b < 0.1:
                kwargs["bbox"] = None
            elif b < 0.15:
                kwargs["bbox"] = (-10, -10, 10)
            elif b < 0.2:
                kwargs["bbox"] = np.array([-10, -10, 10, 10])
            elif b < 0.5:
                kwargs["bbox"] = [rng.randint(-180, 0), rng.randint(-90, 0), rng.randint(0, 180), rng.randint(0, 90)]
            else:
                kwargs["bbox"] = (rng.uniform(-1, 0), rng.uniform(-1, 0), rng.uniform(0, 1), float("nan") if rng.random() < 0.1 else rng.uniform(0, 1))
        elif key == "range_max" and rng.random() < 0.6:
            kwargs["range_max"] = rng.choice([None, 0, 10.0, 1000, 111000.0, 5e6, float("nan")])
        elif key == "lat":
            kwargs["lat"] = lat_w
        elif key == "lon":
            kwargs["lon"] = lon_w
    return (), dict(kwargs)


def gen_gross_range_test(rng):
    n = n_len(rng)
    inp = wrap_series(rng, rand_values(rng, n))
    if rng.random() < 0.03:
        inp = rng.choice([5.0, "abc", ["a", "b"], None])
    kwargs = {"inp": inp, "fail_span": rand_span(rng)}
    r = rng.random()
    if r < 0.15:
        kwargs["suspect_span"] = None
    elif r < 0.8:
        if rng.random() < 0.85 and len(kwargs["fail_span"]) == 2 and not isinstance(kwargs["fail_span"], np.ndarray):
            try:
                lo, hi = sorted(kwargs["fail_span"])
                mid = (lo + hi) / 2.0
                kwargs["suspect_span"] = rng.choice(
                    [(lo, hi), (mid, mid), [hi, lo], (mid, hi), (lo, mid), [mid + 0.25, mid - 0.25], (lo, hi + 1), (float("nan"), hi)],
                )
            except TypeError:
                kwargs["suspect_span"] = rand_span(rng)
        else:
            kwargs["suspect_span"] = rand_span(rng)
    keys = list(kwargs)
    rng.shuffle(keys)
    return (), {k: kwargs[k] for k in keys}


PERIODS = [None, None, "month", "dayofyear", "week", "weekofyear", "quarter", "dayofweek", "year", "hour"]


def gen_clim_members(rng):
    members = []
    for _ in range(rng.choice([0, 1, 1, 2, 3])):
        period = rng.choice(PERIODS)
        if period is None:
            a, b = rng.randint(-5, 40), rng.randint(-5, 40)
            tspan = (T0 + np.timedelta64(a, "s"), T0 + np.timedelta64(b, "s"))
            if rng.random() < 0.3:
                tspan = (str(tspan[0]), str(tspan[1]))
            if rng.random() < 0.2:
                tspan = (np.datetime64("2019-12-01"), np.datetime64("2020-02-01"))
        else:
            tspan = (rng.randint(0, 3), rng.randint(1, 60))
        m = {"tspan": tspan, "vspan": (rng.randint(-6, 2), rng.randint(-2, 6))}
        if period is not None:
            m["period"] = period
        if rng.random() < 0.5:
            m["fspan"] = (rng.randint(-8, 0), rng.randint(0, 8))
        if rng.random() < 0.5:
            m["zspan"] = (rng.randint(-1, 3), rng.randint(0, 8))
        if rng.random() < 0.04:
            m["vspan"] = (1, 2, 3)
        members.append(m)
    return members


def build_clim(which, members):
    cc = mod(which, "qartod").ClimatologyConfig()
    for m in members:
        cc.add(**m)
    return cc


def gen_climatology_test(rng, which_holder):
    n = n_len(rng)
    members = gen_clim_members(rng)
    inp = wrap_series(rng, rand_values(rng, n))
    zvals = rand_values(rng, n, p_special=rng.choice([0.0, 0.2, 1.0]), lo=0, hi=8)
    if rng.random() < 0.05:
        zvals = zvals[:-1]
    zinp = wrap_series(rng, zvals, allow_2d=getattr(inp, "ndim", 1) == 2)
    tinp = rand_times(rng, n if rng.random() > 0.05 else max(0, n - 1), like=inp)
    if rng.random() < 0.5 or any(len(m["vspan"]) != 2 for m in members):
        config = members
    else:
        config = ("BUILD", members)
    kwargs = {"config": config, "inp": inp, "tinp": tinp, "zinp": zinp}
    keys = list(kwargs)
    rng.shuffle(keys)
    return (), {k: kwargs[k] for k in keys}


def gen_clim_check(rng, which_holder):
    """ClimatologyConfig.check called directly (inputs prepared as climatology_test would)."""
    n = n_len(rng)
    members = [m for m in gen_clim_members(rng) if len(m["vspan"]) == 2]
    with warnings.catch_warnings():
        warnings.simplefilter("ignore")
        inp = np.ma.masked_invalid(np.array(rand_values(rng, n)).astype(np.float64))
        zinp = np.ma.masked_invalid(
            np.array(rand_values(rng, n, p_special=rng.choice([0.0, 0.2, 1.0]), lo=0, hi=8)).astype(np.float64),
        )
    if rng.random() < 0.15:
        inp = np.ma.MaskedArray(inp.data.copy())  # nomask
    if rng.random() < 0.1:
        zinp = np.ma.MaskedArray(np.nan_to_num(zinp.data.copy()))
    secs = sorted(rng.randint(0, 40) for _ in range(n))
    tinp = pd.DatetimeIndex((T0 + np.array(secs, dtype="timedelta64[s]")).astype("datetime64[ns]")) if n else pd.DatetimeIndex([])
    return ("CHECK", members, tinp, inp, zinp), {}


def gen_spike_test(rng):
    n = n_len(rng)
    kwargs = {"inp": wrap_series(rng, rand_values(rng, n))}
    if rng.random() < 0.85:
        kwargs["suspect_threshold"] = rand_threshold(rng)
    if rng.random() < 0.85:
        kwargs["fail_threshold"] = rand_threshold(rng)
    r = rng.random()
    if r < 0.4:
        kwargs["method"] = "differential"
    elif r < 0.7:
        kwargs["method"] = "average"
    elif r < 0.75:
        kwargs["method"] = rng.choice(["Average", "", None, 3])
    keys = list(kwargs)
    rng.shuffle(keys)
    return (), {k: kwargs[k] for k in keys}


def gen_rate_of_change_test(rng):
    n = n_len(rng)
    inp = wrap_series(rng, rand_values(rng, n))
    tinp = rand_times(rng, n if rng.random() > 0.07 else max(0, n + rng.choice([-1, 1])), like=inp)
    kwargs = {"inp": inp, "tinp": tinp, "threshold": rand_threshold(rng, allow_none=rng.random() < 0.2)}
    keys = list(kwargs)
    rng.shuffle(keys)
    return (), {k: kwargs[k] for k in keys}


def gen_flat_line_test(rng):
    n = n_len(rng)
    vals = rand_values(rng, n, lo=-2, hi=2)
    if rng.random() < 0.5 and n:
        # runs of repeated values
        base = vals[0]
        for i in range(n):
            if rng.random() < 0.3:
                base = vals[i]
            elif rng.random() < 0.8:
                vals[i] = base if rng.random() < 0.8 or base is None else base + 0.25
    inp = wrap_series(rng, vals)
    tinp = rand_times(rng, n if rng.random() > 0.05 else max(0, n + rng.choice([-1, 1])), like=inp)
    kwargs = {
        "inp": inp,
        "tinp": tinp,
        "suspect_threshold": rng.choice([0, 1, 2, 3, 4, 6, 10, 30, 120, 7200, 2.5, "3", -2, None, float("nan")][: rng.choice([12, 12, 12, 15])]),
        "fail_threshold": rng.choice([0, 1, 2, 3, 4, 6, 10, 30, 120, 7200, 4.5, "5", -1, None][: rng.choice([12, 12, 12, 14])]),
    }
    if rng.random() < 0.7:
        kwargs["tolerance"] = rng.choice([0, 0.1, 0.25, 0.5, 1, 2, float("nan"), None][: rng.choice([6, 8])])
    keys = list(kwargs)
    rng.shuffle(keys)
    return (), {k: kwargs[k] for k in keys}


def gen_attenuated_signal_test(rng):
    n = n_len(rng)
    inp = wrap_series(rng, rand_values(rng, n, lo=-3, hi=3))
    mode = rng.choice(["regular", "any"])
    if mode == "regular":
        step = rng.choice([1, 2, 10])
        tinp = (T0 + np.arange(n) * np.timedelta64(step, "s")).astype("datetime64[ns]") if n else np.array([], dtype="datetime64[ns]")
        if getattr(inp, "ndim", 1) == 2:
            tinp = tinp.reshape(inp.shape)
    else:
        tinp = rand_times(rng, n if rng.random() > 0.05 else max(0, n - 1), like=inp)
    kwargs = {
        "inp": inp,
        "tinp": tinp,
        "suspect_threshold": rand_threshold(rng, allow_none=rng.random() < 0.1),
        "fail_threshold": rand_threshold(rng, allow_none=rng.random() < 0.1),
    }
    r = rng.random()
    if r < 0.5:
        kwargs["test_period"] = rng.choice([1, 2, 3, 5, 10, 60, 0, None, 2.5])
    if rng.random() < 0.3:
        kwargs["min_obs"] = rng.choice([None, 1, 2, 3, 10])
    if rng.random() < 0.3:
        kwargs["min_period"] = rng.choice([None, 1, 2, 4, 20])
    r = rng.random()
    if r < 0.45:
        kwargs["check_type"] = "range"
    elif r < 0.8:
        kwargs["check_type"] = "std"
    elif r < 0.85:
        kwargs["check_type"] = rng.choice(["STD", None, "var"])
    keys = list(kwargs)
    rng.shuffle(keys)
    return (), {k: kwargs[k] for k in keys}


def gen_density_inversion_test(rng):
    n = n_len(rng)
    inp = wrap_series(rng, rand_values(rng, n, p_special=0.15))
    zv = rand_values(rng, n if rng.random() > 0.07 else max(0, n + rng.choice([-1, 1])), p_special=0.15, lo=0, hi=10)
    if rng.random() < 0.5:
        zv = sorted(zv, key=lambda v: (v is None or v != v, 0 if v is None or v != v else v))
    zinp = wrap_series(rng, zv, allow_2d=getattr(inp, "ndim", 1) == 2)
    kwargs = {"inp": inp, "zinp": zinp}
    if rng.random() < 0.85:
        kwargs["suspect_threshold"] = rand_threshold(rng)
    if rng.random() < 0.85:
        kwargs["fail_threshold"] = rand_threshold(rng)
    keys = list(kwargs)
    rng.shuffle(keys)
    return (), {k: kwargs[k] for k in keys}


# ---- argo -----------------------------------------------------------------------------
def gen_pressure_increasing_test(rng):
    n = n_len(rng)
    vals = rand_values(rng, n, p_special=rng.choice([0, 0.15]), lo=0, hi=10)
    if rng.random() < 0.4:
        vals = sorted(vals, key=lambda v: (v is None or v != v, 0 if v is None or v != v else v), reverse=rng.random() < 0.5)
    inp = wrap_series(rng, vals)
    if rng.random() < 0.03:
        inp = rng.choice([5.0, "abc", None])
    return (inp,), {}


def gen_speed_test(rng):
    n = n_len(rng)
    lon, lat = gen_lonlat(rng, n)
    allow2d = rng.random() < 0.3
    lon_w = wrap_series(rng, lon, allow_2d=allow2d)
    lat_w = wrap_series(rng, lat, allow_2d=allow2d)
    tinp = rand_times(rng, n if rng.random() > 0.07 else max(0, n + rng.choice([-1, 1])), like=lon_w)
    kwargs = {
        "lon": lon_w,
        "lat": lat_w,
        "tinp": tinp,
        "suspect_threshold": rng.choice([0, 0.5, 1, 100, 5e4, 1e6, float("nan"), None][: rng.choice([7, 8])]),
        "fail_threshold": rng.choice([0, 2, 10, 1000, 2e5, 1e7, float("nan"), None][: rng.choice([7, 8])]),
    }
    keys = list(kwargs)
    rng.shuffle(keys)
    return (), {k: kwargs[k] for k in keys}


# ---- axds -----------------------------------------------------------------------------
def gen_valid_range_test(rng):
    n = n_len(rng)
    r = rng.random()
    kwargs = {}
    if r < 0.6:
        inp = wrap_series(rng, rand_values(rng, n))
        span = rand_span(rng, allow_none_elem=True)
        if rng.random() < 0.4:
            kwargs["dtype"] = rng.choice([np.float64, np.float32, "float64", np.int32, np.dtype("int64"), None, "datetime64[ns]", object])
    elif r < 0.9:
        inp = rand_times(rng, n)
        a, b = rng.randint(-5, 40), rng.randint(-5, 40)
        span = (T0 + np.timedelta64(a, "s"), T0 + np.timedelta64(b, "s"))
        k = rng.random()
        if k < 0.2:
            span = (str(span[0]), str(span[1]))
        elif k < 0.3:
            span = (np.datetime64("NaT"), span[1])
        elif k < 0.4:
            span = (None, span[1])
        elif k < 0.5:
            span = (1577836800 + a, 1577836800 + b)
        if rng.random() < 0.4:
            kwargs["dtype"] = rng.choice(["datetime64[ns]", np.dtype("datetime64[s]"), None, np.float64])
    else:
        inp = rng.choice([["a", "b"], {"a": 1}, None, 5, "2020-01-01", [[1, 2], [3]]])
        span = rand_span(rng)
    kwargs["inp"] = inp
    kwargs["valid_span"] = span
    if rng.random() < 0.5:
        kwargs["start_inclusive"] = rng.choice([True, False, 1, 0, None])
    if rng.random() < 0.5:
        kwargs["end_inclusive"] = rng.choice([True, False, 1, 0, None])
    keys = list(kwargs)
    rng.shuffle(keys)
    return (), {k: kwargs[k] for k in keys}


# ---- utils ----------------------------------------------------------------------------
def gen_mapdates(rng):
    n = n_len(rng)
    r = rng.random()
    if r < 0.7:
        d = rand_times(rng, n)
    elif r < 0.8:
        d = wrap_series(rng, rand_values(rng, n, lo=0, hi=100))
    elif r < 0.85:
        d = rng.choice([None, "2020-01-01", 5, 1.5e9, np.datetime64("2020-01-01"), pd.Timestamp("2020-01-01", tz="UTC"), ["x"], {"a": 1}])
    elif r < 0.9:
        d = pd.Series(pd.to_timedelta([1, 2, 3][: min(n, 3)], unit="s"))
    elif r < 0.95:
        d = np.array(["2020-01-01", "2021-06-01T12:00"][: min(n, 2)], dtype=rng.choice(["datetime64[D]", "datetime64[m]", "datetime64[us]"]))
    else:
        d = rand_times(rng, n)
        if isinstance(d, np.ndarray) and d.size % 2 == 0 and d.size:
            d = d.reshape(2, -1)
    return (d,), {}


def gen_great_circle_distance(rng):
    n = rng.choice([0, 1, 2, 2, 3, 3, 4, 4, 5, 5, 6, 7, 8])
    lon, lat = gen_lonlat(rng, n)
    if rng.random() < 0.05:
        lat = lat[:-1]
    kind = rng.choice(["masked"] * 10 + ["plain"] * 4 + ["ma_nomask"] * 4 + ["list"])
    with warnings.catch_warnings():
        warnings.simplefilter("ignore")
        if kind == "masked":
            a = np.ma.masked_invalid(np.array(lat).astype(np.float64))
            b = np.ma.masked_invalid(np.array(lon).astype(np.float64))
        elif kind == "plain":
            a = np.array(lat).astype(np.float64)
            b = np.array(lon).astype(np.float64)
        elif kind == "ma_nomask":
            a = np.ma.MaskedArray(np.nan_to_num(np.array(lat).astype(np.float64), posinf=1.0, neginf=-1.0))
            b = np.ma.MaskedArray(np.nan_to_num(np.array(lon).astype(np.float64), posinf=1.0, neginf=-1.0))
        else:
            a, b = lat, lon
    return (a, b), {}


def rand_tree(rng, depth=0):
    r = rng.random()
    if depth > 3 or r < 0.25:
        return rng.choice([1, "x", None, 2.5, [1, 2], (), {}, OrderedDict()])
    cls = rng.choice([dict, dict, OrderedDict])
    d = cls()
    for _ in range(rng.randint(0, 3)):
        d[rng.choice(["a", "b", "c", 1, None, ("t",)])] = rand_tree(rng, depth + 1)
    return d


def gen_dict_depth(rng):
    t = rand_tree(rng)
    if rng.random() < 0.05:
        t = defaultdict(dict, {"a": {"b": {}}})
    return (t,), {}


def gen_dict_update(rng):
    d = rand_tree(rng)
    u = rand_tree(rng)
    if not isinstance(u, dict) and rng.random() < 0.8:
        u = {"a": rand_tree(rng, 1), "z": rand_tree(rng, 2)}
    if rng.random() < 0.05:
        d = rng.choice([None, 5, "str", [1]])
    return (d, u), {}


NAME_CHARS = list("abcXYZ019_ .-/:é𝟙٣\n$") + ["", "__", "9z"]


def gen_cf_safe_name(rng):
    r = rng.random()
    if r < 0.9:
        name = "".join(rng.choice(NAME_CHARS) for _ in range(rng.randint(0, 6)))
    else:
        name = rng.choice([None, 5, b"abc", ("a",), 1.5, ["a"]])
    return (name,), {}


# ---- fx_parser ------------------------------------------------------------------------
def rand_expr(rng, depth=0):
    r = rng.random()
    if depth > 3 or r < 0.3:
        return rng.choice(["1", "2.5", "0", "3e2", "PI", "E", "pi", "mean", "min", "max", "std", "-1", "10"] * 4 + ["x", "foo"])
    if r < 0.6:
        return f"{rand_expr(rng, depth + 1)} {rng.choice('+-*/^')} {rand_expr(rng, depth + 1)}"
    if r < 0.7:
        return f"({rand_expr(rng, depth + 1)})"
    if r < 0.8:
        return f"-{rand_expr(rng, depth + 1)}"
    if r < 0.95:
        f = rng.choice(["sin", "cos", "tan", "exp", "abs", "trunc", "round", "sgn"] * 3 + ["bar", "mean"])
        nargs = rng.choice([1] * 8 + [2, 0])
        return f"{f}({', '.join(rand_expr(rng, depth + 1) for _ in range(nargs))})"
    return rng.choice(["", "1 +", "((2)", "2 3", "$"]) if rng.random() < 0.3 else "2"


def rand_stats(rng):
    stats = {"mean": rng.uniform(-5, 5), "min": rng.randint(-5, 0), "max": rng.randint(0, 9), "std": rng.choice([0.0, 1.5, float("nan")])}
    if rng.random() < 0.1:
        del stats[rng.choice(list(stats))]
    return stats


def gen_eval_fx(rng):
    return (rand_expr(rng), rand_stats(rng)), {}


def rand_stack(rng):
    toks = []
    for _ in range(rng.randint(0, 6)):
        toks.append(
            rng.choice(
                ["1", "2", "0.5", "+", "-", "*", "/", "^", "unary -", "PI", "E", "mean", "min", "max", "std", "x1", "", "+-",
                 ("sin", 1), ("round", 2), ("abs", 1), ("sgn", 1), ("trunc", 1), ("foo", 1), ("mean", 0), 3, None, ("cos", 0)],
            ),
        )
    return toks


def postfix_stack(rng, depth=0):
    """A well-formed stack (postfix order: evaluate_stack pops the operator first)."""
    r = rng.random()
    if depth > 3 or r < 0.35:
        return [rng.choice(["1", "2", "0.5", "3e1", "PI", "E", "mean", "min", "max", "std", "7"] * 5 + ["x1", ""])]
    if r < 0.7:
        return postfix_stack(rng, depth + 1) + postfix_stack(rng, depth + 1) + [rng.choice("+-*/^")]
    if r < 0.8:
        return postfix_stack(rng, depth + 1) + ["unary -"]
    name = rng.choice(["sin", "cos", "tan", "exp", "abs", "trunc", "round", "sgn"] * 3 + ["foo"])
    nargs = 2 if name == "round" and rng.random() < 0.5 else 1
    toks = []
    for _ in range(nargs):
        toks += postfix_stack(rng, depth + 1)
    return toks + [(name, nargs)]


def gen_evaluate_stack(rng):
    if rng.random() < 0.65:
        stack = postfix_stack(rng)
        if rng.random() < 0.2:
            stack = rand_stack(rng)[:2] + stack
    else:
        stack = rand_stack(rng)
    return (stack, rand_stats(rng)), {}


# ---- results / stores -------------------------------------------------------------------
def named_function(which, name):
    return getattr(mod(which, "qartod"), name)


def gen_results_spec(rng):
    """A which-independent description of a list of ContextResult / CallResult objects."""
    spec = []
    n = rng.choice([0, 1, 2, 3, 4, 5, 6])
    streams = ["var1", "var2", "v.3", ""]
    tests = ["gross_range_test", "spike_test", "flat_line_test"]
    for _ in range(rng.choice([0] + [1, 1, 2, 3, 4] * 3)):
        if rng.random() < 0.15:
            spec.append(("call", rng.choice(["qartod", "argo"]), rng.choice(tests), [rng.choice([1, 2, 3, 4, 9]) for _ in range(n)], rng.random() < 0.5))
            continue
        mode = rng.choice(["all", "all", "subset", "none", "intidx"])
        if mode == "all":
            subset = [True] * n
        elif mode == "none":
            subset = [False] * n
        else:
            subset = [rng.random() < 0.6 for _ in range(n)]
        k = sum(subset)
        calls = []
        for _ in range(rng.choice([0, 1, 1, 1, 2, 2, 3])):
            calls.append((rng.choice(["qartod", "qartod", "argo"]), rng.choice(tests), [rng.choice([1, 2, 3, 4, 9]) for _ in range(k)], rng.choice(["uint8", "uint8", "int64", "ma"])))
        missing = rng.choice([None] * 27 + ["data", "zinp", "lat"])
        spec.append(
            ("ctx", rng.choice(streams), subset, calls,
             [rng.uniform(0, 10) for _ in range(k)], [i * 10 for i in range(k)], [float(i) for i in range(k)], missing, rng.random() < 0.2),
        )
    return spec


def build_results(which, spec):
    R = mod(which, "results")
    out = []
    for item in spec:
        if item[0] == "call":
            _, package, test, flags, as_ma = item
            res = np.array(flags, dtype="uint8")
            if as_ma:
                res = np.ma.MaskedArray(res)
            out.append(R.CallResult(package=package, test=test, function=named_function(which, test), results=res))
            continue
        _, stream, subset, calls, data, secs, z, missing, ma_inputs = item
        crs = []
        for package, test, flags, kind in calls:
            if kind == "ma":
                res = np.ma.MaskedArray(np.array(flags, dtype="uint8"), mask=[f == 9 for f in flags])
            else:
                res = np.array(flags, dtype=kind)
            crs.append(R.CallResult(package=package, test=test, function=named_function(which, test), results=res))
        fields = {
            "data": np.array(data, dtype="float64"),
            "tinp": (T0 + np.array(secs, dtype="timedelta64[s]")).astype("datetime64[ns]") if secs else np.array([], dtype="datetime64[ns]"),
            "zinp": np.array(z, dtype="float64"),
            "lat": np.array(z, dtype="float64") + 40,
            "lon": np.array(z, dtype="float64") - 70,
        }
        if ma_inputs:
            fields["data"] = np.ma.masked_invalid(fields["data"])
        if missing is not None:
            fields[missing] = None
        out.append(R.ContextResult(stream_id=stream, results=crs, subset_indexes=np.array(subset, dtype=bool), **fields))
    return out


def gen_collect(rng, which_holder):
    return ("RESULTS", gen_results_spec(rng)), {}


def gen_store_save(rng, which_holder):
    spec = gen_results_spec(rng)
    kwargs = {}
    if rng.random() < 0.5:
        kwargs["write_data"] = rng.choice([True, False, 1])
    if rng.random() < 0.5:
        kwargs["write_axes"] = rng.choice([True, False, 1])
    pool = ["var1", "var2", "gross_range_test", "spike_test", "FN:flat_line_test", "FN:spike_test", "nothing", None, ""]
    if rng.random() < 0.4:
        kwargs["include"] = rng.sample(pool, rng.randint(0, 3)) if rng.random() < 0.9 else "var1"
    if rng.random() < 0.4:
        kwargs["exclude"] = rng.sample(pool, rng.randint(0, 3)) if rng.random() < 0.9 else ("spike_test",)
    axes = rng.choice(
        [None] * 6
        + [{"t": "time", "z": "depth", "y": "latitude", "x": "longitude"}] * 3
        + [{"t": "var1", "z": "z", "y": "lat", "x": "lon"}] * 2
        + [{"t": "time"}],
    )
    agg = rng.choice([None, None, "rollup", "qc"])
    return ("STORE", spec, axes, agg), kwargs


# --------------------------------------------------------------------------------------
# drivers: turn a generated (args, kwargs) into a concrete call for one of the two packages
# --------------------------------------------------------------------------------------
def resolve_fn_markers(which, value):
    if isinstance(value, list):
        return [resolve_fn_markers(which, v) for v in value]
    if isinstance(value, str) and value.startswith("FN:"):
        return named_function(which, value[3:])
    return value


def make_call(which, target, args, kwargs):  # noqa: C901
    """Return (callable, args, kwargs) for the package `which`."""
    modname, fname = target
    m = mod(which, modname)
    if args and isinstance(args[0], str) and args[0] == "CHECK":
        _, members, tinp, inp, zinp = args
        cc = build_clim(which, members)
        return cc.check, (tinp, inp, zinp), {}
    if args and isinstance(args[0], str) and args[0] == "RESULTS":
        return getattr(m, fname), (build_results(which, args[1]),), {}
    if args and isinstance(args[0], str) and args[0] == "STORE":
        _, spec, axes, agg = args
        kw = {k: resolve_fn_markers(which, v) for k, v in kwargs.items()}

        def run():
            store = m.PandasStore(build_results(which, spec), axes)
            pre = len(store.collected_results)
            out = None
            if agg is not None:
                out = store.compute_aggregate(name=agg)
            df = store.save(**kw)
            return out, pre, store.collected_results, df

        def run_agg_only():
            store = m.PandasStore(build_results(which, spec), axes)
            out = store.compute_aggregate() if agg is None else store.compute_aggregate(agg)
            return out, store.collected_results

        return (run if fname == "save" else run_agg_only), (), {}
    if fname == "climatology_test":
        kw = dict(kwargs)
        if isinstance(kw["config"], tuple) and kw["config"][0] == "BUILD":
            members = kw["config"][1]
            kw["config"] = build_clim(which, members)
        return getattr(m, fname), args, kw
    return getattr(m, fname), args, kwargs


TARGETS = [
    ("qartod.aggregate", ("qartod", "aggregate"), gen_aggregate),
    ("qartod.qartod_compare", ("qartod", "qartod_compare"), gen_qartod_compare),
    ("qartod.location_test", ("qartod", "location_test"), gen_location_test),
    ("qartod.gross_range_test", ("qartod", "gross_range_test"), gen_gross_range_test),
    ("qartod.ClimatologyConfig.check", ("qartod", "check"), gen_clim_check),
    ("qartod.climatology_test", ("qartod", "climatology_test"), gen_climatology_test),
    ("qartod.spike_test", ("qartod", "spike_test"), gen_spike_test),
    ("qartod.rate_of_change_test", ("qartod", "rate_of_change_test"), gen_rate_of_change_test),
    ("qartod.flat_line_test", ("qartod", "flat_line_test"), gen_flat_line_test),
    ("qartod.attenuated_signal_test", ("qartod", "attenuated_signal_test"), gen_attenuated_signal_test),
    ("qartod.density_inversion_test", ("qartod", "density_inversion_test"), gen_density_inversion_test),
    ("argo.pressure_increasing_test", ("argo", "pressure_increasing_test"), gen_pressure_increasing_test),
    ("argo.speed_test", ("argo", "speed_test"), gen_speed_test),
    ("axds.valid_range_test", ("axds", "valid_range_test"), gen_valid_range_test),
    ("results.collect_results_list", ("results", "collect_results_list"), gen_collect),
    ("results.collect_results_dict", ("results", "collect_results_dict"), gen_collect),
    ("stores.PandasStore.save", ("stores", "save"), gen_store_save),
    ("stores.PandasStore.compute_aggregate", ("stores", "compute_aggregate"), gen_store_save),
    ("utils.mapdates", ("utils", "mapdates"), gen_mapdates),
    ("utils.great_circle_distance", ("utils", "great_circle_distance"), gen_great_circle_distance),
    ("utils.dict_depth", ("utils", "dict_depth"), gen_dict_depth),
    ("utils.dict_update", ("utils", "dict_update"), gen_dict_update),
    ("utils.cf_safe_name", ("utils", "cf_safe_name"), gen_cf_safe_name),
    ("fx_parser.evaluate_stack", ("config_creator.fx_parser", "evaluate_stack"), gen_evaluate_stack),
    ("fx_parser.eval_fx", ("config_creator.fx_parser", "eval_fx"), gen_eval_fx),
]

NEEDS_WHICH = {gen_clim_check, gen_climatology_test, gen_collect, gen_store_save}


def generate(gen, seed):
    rng = random.Random(seed)
    if gen in NEEDS_WHICH:
        return gen(rng, None)
    return gen(rng)


def run_target(label, target, gen, cases, base_seed, verbose=False):
    global STRICT_MASKED_DATA  # noqa: PLW0603
    STRICT_MASKED_DATA = target[0] not in ("results", "stores")
    n_raise = 0
    n_diff = 0
    first = None
    outcomes = defaultdict(int)
    for i in range(cases):
        seed = f"{label}:{base_seed}:{i}"
        results = {}
        for which in ("orig", "new"):
            # the inputs are generated afresh for each side so that nothing is shared
            args, kwargs = generate(gen, seed)
            fn, a, k = make_call(which, target, args, kwargs)
            results[which] = call(fn, a, k)
        if results["orig"] != results["new"]:
            n_diff += 1
            if first is None:
                first = (seed, results)
        out = results["orig"][0]
        if out[0] == "raise":
            n_raise += 1
            outcomes[out[1]] += 1
    status = "OK  " if n_diff == 0 else "DIFF"
    extra = ", ".join(f"{k}={v}" for k, v in sorted(outcomes.items()))
    print(f"{status} {label:40s} cases={cases} raised={n_raise} ({extra}) differences={n_diff}", flush=True)
    if first is not None:
        seed, results = first
        args, kwargs = generate(gen, seed)
        print(f"     first difference: seed={seed!r}")
        print(f"     args={args!r}\n     kwargs={kwargs!r}")
        for part, name in enumerate(("outcome", "logs", "warnings", "arguments after the call")):
            if results["orig"][part] != results["new"][part]:
                print(f"     {name}:\n       orig={results['orig'][part]!r}\n       new ={results['new'][part]!r}")
    return n_diff


def main():
    ap = argparse.ArgumentParser()
    ap.add_argument("-n", "--cases", type=int, default=3000)
    ap.add_argument("-k", "--only", default=None, help="substring of the function label")
    ap.add_argument("--seed", default="0")
    ns = ap.parse_args()
    assert ns.cases >= 1
    total = 0
    for label, target, gen in TARGETS:
        if ns.only and ns.only not in label:
            continue
        total += run_target(label, target, gen, ns.cases, ns.seed)
    if total:
        print(f"FAILED: {total} differing cases")
        return 1
    print("all functions equivalent on the generated inputs")
    return 0


if __name__ == "__main__":
    sys.exit(main())
