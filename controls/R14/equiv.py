#!/usr/bin/env python
"""Differential check: refactored ioos_qc (this worktree) against the ORIGINAL in /repo.

Run as ``PYTHONPATH=<worktree> /venv/bin/python equiv.py`` - exits 0 when no difference was seen.

The original package is loaded from /repo under the top-level name ``orig_ioos_qc`` (with
importlib.util.spec_from_file_location + submodule_search_locations).  Its four refactored modules
(config, results, streams, stores) are compiled from /repo with their absolute imports of each other
re-pointed at ``orig_ioos_qc``; everything they share with the refactoring (qartod, utils ...) is the
single copy of the worktree, so test functions, flags and exception classes are the same objects on
both sides.  Because other jobs patch the files of /repo while they run, the source text is the
committed blob (``git -C /repo show HEAD:<file>``); the working file is only the fallback.

Every case is a function ``case(ns, rng)``: it builds its inputs from a seeded random.Random (so both
sides get equal but separate inputs), calls the function under test out of the namespace ``ns`` and
returns everything observable (result, the inputs after the call).  Outcome (value or exception type)
and the log records are compared.
"""

import dataclasses
import datetime as dt
import importlib
import importlib.abc
import importlib.machinery
import importlib.util
import io
import json
import logging
import os
import random
import re
import subprocess
import sys
import tempfile
import threading
import warnings
from collections import OrderedDict, defaultdict
from functools import partial
from pathlib import Path
from types import SimpleNamespace

import numpy as np
import pandas as pd

warnings.simplefilter("ignore")
np.seterr(all="ignore")

REPO = "/repo"
PKG_DIR = os.path.join(REPO, "ioos_qc")
ORIG = "orig_ioos_qc"
REFACTORED = ("config", "results", "streams", "stores")
N_CASES = int(os.environ.get("EQUIV_CASES", "3000"))


# --------------------------------------------------------------------------------------
# Loading the original
# --------------------------------------------------------------------------------------
def _orig_source(path):
    rel = os.path.relpath(path, REPO)
    try:
        text = subprocess.run(
            ["git", "-C", REPO, "show", f"HEAD:{rel}"],
            capture_output=True,
            check=True,
            text=True,
        ).stdout
    except Exception:  # noqa: BLE001
        with open(path) as f:
            text = f.read()
    return re.sub(r"\bioos_qc\.(" + "|".join(REFACTORED) + r")\b", ORIG + r".\1", text)


class _OrigLoader(importlib.machinery.SourceFileLoader):
    def get_code(self, fullname):  # never the byte code cache: the source is rewritten
        return compile(_orig_source(self.path), self.path, "exec", dont_inherit=True)


class _OrigFinder(importlib.abc.MetaPathFinder):
    def find_spec(self, fullname, path=None, target=None):
        if fullname == ORIG:
            init = os.path.join(PKG_DIR, "__init__.py")
            return importlib.util.spec_from_file_location(
                fullname,
                init,
                loader=_OrigLoader(fullname, init),
                submodule_search_locations=[PKG_DIR],
            )
        if fullname.startswith(ORIG + "."):
            leaf = fullname.split(".", 1)[1]
            if leaf in REFACTORED:
                file = os.path.join(PKG_DIR, leaf + ".py")
                return importlib.util.spec_from_file_location(
                    fullname,
                    file,
                    loader=_OrigLoader(fullname, file),
                )
        return None


sys.meta_path.insert(0, _OrigFinder())


def _namespace(top):
    return SimpleNamespace(
        name=top,
        config=importlib.import_module(top + ".config"),
        results=importlib.import_module(top + ".results"),
        streams=importlib.import_module(top + ".streams"),
        stores=importlib.import_module(top + ".stores"),
    )


NEW = _namespace("ioos_qc")
OLD = _namespace(ORIG)
from ioos_qc import qartod  # noqa: E402  (shared by both sides)

HERE = os.path.dirname(os.path.abspath(__file__))
assert os.path.dirname(os.path.abspath(NEW.config.__file__)) == os.path.join(HERE, "ioos_qc"), NEW.config.__file__
assert os.path.abspath(OLD.config.__file__).startswith(PKG_DIR), OLD.config.__file__
assert OLD.config.CallResult is OLD.results.CallResult
assert OLD.streams.ContextResult is OLD.results.ContextResult
assert OLD.stores.collect_results is OLD.results.collect_results
assert OLD.results.CallResult is not NEW.results.CallResult
assert OLD.results.QartodFlags is NEW.results.QartodFlags


# --------------------------------------------------------------------------------------
# Log capture
# --------------------------------------------------------------------------------------
class _Capture(logging.Handler):
    def __init__(self):
        super().__init__(level=logging.DEBUG)
        self.records = []

    def emit(self, record):
        name = record.name
        if name.startswith("orig_"):
            name = name[len("orig_"):]
        self.records.append((name, record.levelname, record.getMessage()))


CAPTURE = _Capture()
for _top in ("ioos_qc", ORIG):
    _lg = logging.getLogger(_top)
    _lg.setLevel(logging.DEBUG)
    _lg.addHandler(CAPTURE)
    _lg.propagate = False


# --------------------------------------------------------------------------------------
# Comparison
# --------------------------------------------------------------------------------------
class Mismatch(Exception):
    pass


def _fail(path, why, a, b):
    raise Mismatch(f"{path}: {why}\n    new : {a!r}\n    orig: {b!r}")


def _plain_equal(a, b):
    """Bit for bit the same content, dtype and shape already known to be equal."""
    if a.dtype.kind == "O":
        return None  # handled by the caller
    if a.dtype.kind in "mM":
        return np.array_equal(a.view("i8"), b.view("i8"))
    if a.dtype.kind == "f":
        return bool(
            np.all(((a == b) | (np.isnan(a) & np.isnan(b))))
            and np.array_equal(np.signbit(a), np.signbit(b)),
        )
    if a.dtype.kind == "c":
        return bool(np.array_equal(a, b, equal_nan=True))
    return bool(np.array_equal(a, b))


def same(a, b, path="result"):  # noqa: C901, PLR0911, PLR0912, PLR0915
    # masked arrays first (they are ndarrays too)
    if isinstance(a, np.ma.MaskedArray) or isinstance(b, np.ma.MaskedArray):
        if type(a) is not type(b):
            _fail(path, "type", type(a), type(b))
        if a.dtype != b.dtype:
            _fail(path, "dtype", a.dtype, b.dtype)
        if a.shape != b.shape:
            _fail(path, "shape", a.shape, b.shape)
        if (a.mask is np.ma.nomask) != (b.mask is np.ma.nomask):
            _fail(path, "nomask", a.mask, b.mask)
        ma, mb = np.ma.getmaskarray(a), np.ma.getmaskarray(b)
        if not np.array_equal(ma, mb):
            _fail(path, "mask", ma, mb)
        if a.dtype.names is None:
            da, db = np.asarray(a.data)[~ma], np.asarray(b.data)[~mb]
            if da.dtype.kind == "O":
                same(list(da), list(db), path + ".data")
            elif not _plain_equal(da, db):
                _fail(path, "unmasked values", a, b)
        same(
            (a.flags.c_contiguous, a.flags.f_contiguous),
            (b.flags.c_contiguous, b.flags.f_contiguous),
            path + ".layout",
        )
        return
    if isinstance(a, np.ndarray) or isinstance(b, np.ndarray):
        if type(a) is not type(b):
            _fail(path, "type", type(a), type(b))
        if a.dtype != b.dtype:
            _fail(path, "dtype", a.dtype, b.dtype)
        if a.shape != b.shape:
            _fail(path, "shape", a.shape, b.shape)
        if a.dtype.kind == "O":
            same(a.ravel().tolist(), b.ravel().tolist(), path + ".items")
        elif not _plain_equal(a, b):
            _fail(path, "values", a, b)
        fa = (a.flags.c_contiguous, a.flags.f_contiguous, a.flags.writeable)
        fb = (b.flags.c_contiguous, b.flags.f_contiguous, b.flags.writeable)
        if fa != fb:
            _fail(path, "flags (C, F, writeable)", fa, fb)
        return
    if isinstance(a, pd.DataFrame) or isinstance(b, pd.DataFrame):
        if type(a) is not type(b):
            _fail(path, "type", type(a), type(b))
        same(list(a.columns), list(b.columns), path + ".columns")
        try:
            pd.testing.assert_frame_equal(a, b, check_exact=True, check_column_type=True, check_index_type=True)
        except AssertionError as e:
            _fail(path, f"frame: {e}", a, b)
        return
    if isinstance(a, pd.Series) or isinstance(b, pd.Series):
        if type(a) is not type(b):
            _fail(path, "type", type(a), type(b))
        try:
            pd.testing.assert_series_equal(a, b, check_exact=True, check_index_type=True)
        except AssertionError as e:
            _fail(path, f"series: {e}", a, b)
        return
    if isinstance(a, pd.Index) or isinstance(b, pd.Index):
        if type(a) is not type(b):
            _fail(path, "type", type(a), type(b))
        try:
            pd.testing.assert_index_equal(a, b, exact=True, check_exact=True)
        except AssertionError as e:
            _fail(path, f"index: {e}", a, b)
        return
    if isinstance(a, partial) or isinstance(b, partial):
        if type(a) is not type(b):
            _fail(path, "type", type(a), type(b))
        same(a.func, b.func, path + ".func")
        same(a.args, b.args, path + ".args")
        same(a.keywords, b.keywords, path + ".keywords")
        return
    # the classes that exist once per side: by name and by field
    for kind in ("CallResult", "ContextResult"):
        if isinstance(a, getattr(NEW.results, kind)) or isinstance(b, getattr(OLD.results, kind)):
            if not (isinstance(a, getattr(NEW.results, kind)) and isinstance(b, getattr(OLD.results, kind))):
                _fail(path, "type", type(a), type(b))
            for f in a._fields:
                same(getattr(a, f), getattr(b, f), f"{path}.{f}")
            return
    if isinstance(a, NEW.results.CollectedResult) or isinstance(b, OLD.results.CollectedResult):
        if not (isinstance(a, NEW.results.CollectedResult) and isinstance(b, OLD.results.CollectedResult)):
            _fail(path, "type", type(a), type(b))
        for f in dataclasses.fields(a):
            same(getattr(a, f.name), getattr(b, f.name), f"{path}.{f.name}")
        return
    if isinstance(a, NEW.config.Context) or isinstance(b, OLD.config.Context):
        if not (isinstance(a, NEW.config.Context) and isinstance(b, OLD.config.Context)):
            _fail(path, "type", type(a), type(b))
        same(a.window, b.window, path + ".window")
        same(a.region, b.region, path + ".region")
        same(a.attrs, b.attrs, path + ".attrs")
        return
    if isinstance(a, NEW.config.Call) or isinstance(b, OLD.config.Call):
        if not (isinstance(a, NEW.config.Call) and isinstance(b, OLD.config.Call)):
            _fail(path, "type", type(a), type(b))
        for f in ("stream_id", "call", "context", "attrs"):
            same(getattr(a, f), getattr(b, f), f"{path}.{f}")
        return
    if isinstance(a, NEW.config.tw) or isinstance(b, OLD.config.tw):
        if not (isinstance(a, NEW.config.tw) and isinstance(b, OLD.config.tw)):
            _fail(path, "type", type(a), type(b))
        same(tuple(a), tuple(b), path + ".tw")
        return
    if hasattr(a, "wkb") and hasattr(b, "wkb"):  # shapely
        if type(a) is not type(b) or a.wkb != b.wkb:
            _fail(path, "geometry", a, b)
        return
    if isinstance(a, dict) or isinstance(b, dict):
        if type(a) is not type(b):
            _fail(path, "type", type(a), type(b))
        if isinstance(a, defaultdict):
            fa, fb = a.default_factory, b.default_factory
            if (fa is None) != (fb is None):
                _fail(path, "default_factory", fa, fb)
            if fa is not None and getattr(fa, "__name__", None) != getattr(fb, "__name__", None):
                _fail(path, "default_factory", fa, fb)
        ka, kb = list(a.keys()), list(b.keys())
        same(ka, kb, path + ".keys")
        for k in ka:
            same(a[k], b[k], f"{path}[{k!r}]")
        return
    if isinstance(a, (list, tuple)) or isinstance(b, (list, tuple)):
        if type(a) is not type(b):
            _fail(path, "type", type(a), type(b))
        if len(a) != len(b):
            _fail(path, "length", a, b)
        for i, (x, y) in enumerate(zip(a, b)):
            same(x, y, f"{path}[{i}]")
        return
    if type(a) is not type(b):
        _fail(path, "type", type(a), type(b))
    if isinstance(a, (float, np.floating)):
        if not ((a == b) or (a != a and b != b)):  # noqa: PLR0124
            _fail(path, "value", a, b)
        return
    if a is b:
        return
    try:
        ok = bool(a == b)
    except Exception:  # noqa: BLE001
        ok = False
    if not ok:
        if a is pd.NaT and b is pd.NaT:
            return
        if isinstance(a, (io.StringIO,)):
            return
        _fail(path, "value", a, b)


def unchanged(now, before):
    """True when ``now`` still is what the snapshot ``before`` says (a case reports it, both sides must agree)."""
    try:
        same(now, before, "input")
    except Mismatch:
        return False
    return True


def attempt(ns, case, seed):
    rng = random.Random(seed)
    del CAPTURE.records[:]
    try:
        value = ("returned", case(ns, rng))
    except Exception as e:  # noqa: BLE001
        value = ("raised", type(e), getattr(e, "partial", None))
    return {"outcome": value, "logs": list(CAPTURE.records)}


class Partial(Exception):
    """A generator that died: what it had yielded, and the exception."""


def drain(gen):
    """Everything a generator yields; if it raises, re-raise with what was yielded attached."""
    got = []
    try:
        for item in gen:
            got.append(item)
    except Exception as e:  # noqa: BLE001
        try:
            e.partial = got
        except Exception:  # noqa: BLE001
            pass
        raise
    return got


STATS = {}
FAILURES = []


def check(name, case, count=None):
    count = count or N_CASES
    returned = raised = logged = 0
    kinds = defaultdict(int)
    bad = 0
    for seed in range(count):
        got = attempt(NEW, case, seed)
        want = attempt(OLD, case, seed)
        if want["outcome"][0] == "returned":
            returned += 1
        else:
            raised += 1
            kinds[want["outcome"][1].__name__] += 1
        if want["logs"]:
            logged += 1
        try:
            same(got, want, f"{name}[seed={seed}]")
        except Mismatch as m:
            bad += 1
            if bad <= 3:
                print(f"MISMATCH {m}", flush=True)
            FAILURES.append((name, seed))
    STATS[name] = (count, returned, raised, logged)
    print(
        f"{name:45s} cases={count} returned={returned} raised={raised} {dict(kinds)} "
        f"with_logs={logged} mismatches={bad}",
        flush=True,
    )


# --------------------------------------------------------------------------------------
# Generators of inputs
# --------------------------------------------------------------------------------------
DECIMALS = [
    0.1, 0.2, 0.3, 0.1 + 0.2, 2.3, 2.3000000000000003, 2.2999999999999994, 1.0, 0.0, -0.0, 5.0, 10.0,
    1e308, -1e308, 1.7976931348623157e308, 5e-324, 1e-308, 3.0, 7.5, -2.3, 100.0, 0.7, 0.30000000000000004,
]
BOUNDS = [0.1, 0.3, 2.3, 0.0, 1.0, 5.0, 10.0, -2.3, 1e308, -1e308, 100.0, 7.5]
BASE = np.datetime64("2020-01-01T00:00:00", "s")


def numbers(rng, n, kind=None):
    """A series of n numbers: decimals next to / on the bounds, huge values, NaN, None, masked."""
    kind = kind or rng.choice(["float", "float", "float", "int", "masked", "object", "f32", "list"])
    if kind == "int":
        return np.array([rng.choice([0, 1, 5, 10, -3, 100, 7]) for _ in range(n)], dtype=rng.choice(["int64", "int32", "uint8"]))
    vals = [rng.choice(DECIMALS) for _ in range(n)]
    if kind == "float":
        arr = np.array(vals, dtype="float64")
        for i in range(n):
            if rng.random() < 0.15:
                arr[i] = np.nan
        return arr
    if kind == "f32":
        return np.array(vals, dtype="float32")
    if kind == "masked":
        mask = [rng.random() < 0.25 for _ in range(n)]
        return np.ma.array(np.array(vals, dtype="float64"), mask=mask if rng.random() < 0.8 else False)
    if kind == "object":
        return np.array([None if rng.random() < 0.2 else v for v in vals], dtype=object)
    return [None if rng.random() < 0.1 else v for v in vals]  # plain list


def floats(rng, n):
    arr = np.array([rng.choice(DECIMALS) for _ in range(n)], dtype="float64")
    for i in range(n):
        if rng.random() < 0.15:
            arr[i] = np.nan
    return arr


def stamps(rng, n):
    """(datetime64[s] stamps incl. NaT / unsorted / duplicated, step in seconds)."""
    step = rng.choice([1, 60, 3600, 86400, 7])
    style = rng.choice(["sorted", "sorted", "unsorted", "duplicated", "reversed"])
    if style == "duplicated":
        offs = [rng.randrange(0, max(2, n // 2 + 1)) for _ in range(n)]
    else:
        offs = rng.sample(range(0, 12), n) if n <= 12 else list(range(n))
    if style in ("sorted", "duplicated") and rng.random() < 0.7:
        offs = sorted(offs)
    elif style == "reversed":
        offs = sorted(offs, reverse=True)
    arr = BASE + np.array(offs, dtype="int64") * np.timedelta64(step, "s")
    arr = arr.astype("datetime64[s]") if n else np.array([], dtype="datetime64[s]")
    if n and rng.random() < 0.3:
        for i in range(n):
            if rng.random() < 0.25:
                arr[i] = np.datetime64("NaT")
    return arr, step


def time_spelling(rng, arr, for_pandas=False):
    """The same stamps as numpy arrays of several units, pandas objects, tz-aware UTC objects ..."""
    how = rng.choice(
        ["ns", "s", "m", "h", "D", "index", "index_utc", "series", "series_utc", "ms"]
        + ([] if for_pandas else ["epoch", "strings", "pydatetime"]),
    )
    if how in ("ns", "s", "m", "h", "D", "ms"):
        out = arr.astype(f"datetime64[{how}]")
        return pd.Series(out) if for_pandas else out
    if how == "index":
        return pd.DatetimeIndex(arr) if not for_pandas else pd.Series(pd.DatetimeIndex(arr))
    if how == "index_utc":
        idx = pd.DatetimeIndex(arr).tz_localize("UTC")
        return idx if not for_pandas else pd.Series(idx)
    if how == "series":
        return pd.Series(arr.astype("datetime64[ns]"))
    if how == "series_utc":
        return pd.Series(pd.DatetimeIndex(arr).tz_localize("UTC"))
    if how == "epoch":
        if np.isnat(arr).any():
            return arr.astype("datetime64[ns]")
        return arr.astype("int64").astype(rng.choice(["int64", "float64"]))
    if how == "strings":
        if np.isnat(arr).any():
            return arr
        return [str(x) for x in arr]
    return np.array([None if np.isnat(x) else x.astype(dt.datetime) for x in arr], dtype=object)


NAIVE_BOUNDS = ["iso", "space", "date", "ts", "datetime", "np", "npD"]
AWARE_BOUNDS = ["isoz", "ts_utc", "datetime_utc", "isoz"]


BOUND_STEPS = [-1, 0, 1, 2, 3, 4, 5, 6, 8, 10, 12]  # the stamps are BASE + (0..11) steps


def bound_pair(rng, step, n, aware=None):
    """(starting, ending), most of the time in that order."""
    lo, hi = rng.choice(BOUND_STEPS), rng.choice(BOUND_STEPS)
    if rng.random() < 0.8:
        lo, hi = min(lo, hi), max(lo, hi)
    return bound_spelling(rng, step, n, aware, lo), bound_spelling(rng, step, n, aware, hi)


def bound_spelling(rng, step, n, aware=None, k=None):
    """A window bound: None, falsy non-None, strings (several date spellings), stamps, tz-aware ...

    ``aware`` says whether the time axis it will be compared with is tz-aware: mostly spellings that
    can be compared with it are picked, sometimes any.
    """
    if rng.random() < 0.25:
        return None
    if k is None:
        k = rng.choice(BOUND_STEPS)
    stamp = BASE + np.timedelta64(k * step, "s")
    everything = [*NAIVE_BOUNDS, *AWARE_BOUNDS, "falsy", "compact"]
    if aware is None or rng.random() < 0.08:
        how = rng.choice(everything)
    else:
        how = rng.choice(AWARE_BOUNDS if aware else NAIVE_BOUNDS)
        if rng.random() < 0.05:
            how = "falsy"
    ts = pd.Timestamp(stamp)
    if how == "iso":
        return str(stamp)
    if how == "isoz":
        return str(stamp) + "Z"
    if how == "space":
        return str(stamp).replace("T", " ")
    if how == "date":
        return str(stamp.astype("datetime64[D]"))
    if how == "compact":
        return ts.strftime("%Y%m%dT%H%M%S")
    if how == "ts":
        return ts
    if how == "ts_utc":
        return ts.tz_localize("UTC")
    if how == "datetime":
        return ts.to_pydatetime()
    if how == "datetime_utc":
        return ts.tz_localize("UTC").to_pydatetime()
    if how == "np":
        return stamp
    if how == "npD":
        return stamp.astype("datetime64[D]")
    return rng.choice(["", 0])


def span(rng):
    a, b = rng.choice(BOUNDS), rng.choice(BOUNDS)
    if rng.random() < 0.8:
        a, b = min(a, b), max(a, b)
    return rng.choice([[a, b], (a, b)])


def qartod_tests(rng):
    """The tests of one stream: {package: {test: kwargs}} with odd orders, None thresholds, bogus names."""
    pool = []
    g = {"fail_span": span(rng)}
    if rng.random() < 0.6:
        g["suspect_span"] = span(rng) if rng.random() < 0.85 else None
    if rng.random() < 0.3:
        g = dict(reversed(list(g.items())))
    pool.append(("gross_range_test", g))
    pool.append(("spike_test", {"suspect_threshold": rng.choice([None, 0.1, 0.3, 2.3, 1e308]), "fail_threshold": rng.choice([None, 0.3, 2.3, 5.0])}))
    pool.append(("flat_line_test", {"tolerance": rng.choice([0, 0.1, 0.3]), "suspect_threshold": rng.choice([1, 60, 3600]), "fail_threshold": rng.choice([2, 120, 7200])}))
    pool.append(("rate_of_change_test", {"threshold": rng.choice([0.1, 0.3, 2.3, 1e308, 0.0])}))
    pool.append(("location_test", {"bbox": rng.choice([[-180, -90, 180, 90], [0.1, 0.3, 2.3, 5.0], (-10, -10, 10, 10)])}))
    pool.append(("no_such_test", {"a": 1}))
    pool.append(("gross_range_test", None))
    pool.append(("density_inversion_test", {"suspect_threshold": 0.1, "fail_threshold": 0.3}))
    rng.shuffle(pool)
    tests = OrderedDict() if rng.random() < 0.3 else {}
    for name, kwargs in pool[: rng.randrange(1, 4)]:
        tests[name] = kwargs
    packages = {"qartod": tests}
    if rng.random() < 0.1:
        packages["no_such_package"] = {"some_test": {"x": 1}}
    if rng.random() < 0.05:
        packages = {"no_such_package": {"some_test": {"x": 1}}, **packages}
    return packages


GEOJSON_FEATURES = {
    "type": "FeatureCollection",
    "features": [
        {"type": "Feature", "properties": {}, "geometry": {"type": "Polygon", "coordinates": [[[-80, 40], [-70, 40], [-70, 60], [-80, 60], [-80, 40]]]}},
        {"type": "Feature", "properties": {}, "geometry": {"type": "Point", "coordinates": [0.1, 0.3]}},
    ],
}
GEOJSON_GEOMETRY = {"type": "Feature", "geometry": {"type": "Point", "coordinates": [2.3, 0.1]}}


def region_spelling(rng, allow_objects=True):
    how = rng.choice(["features", "features", "geometry", "geometry", "none", "empty", "junk", "nofeatures", "collection", "collection"])
    if rng.random() < 0.03:
        how = "badgeom"
    if how == "features":
        return json.loads(json.dumps(GEOJSON_FEATURES))
    if how == "geometry":
        return json.loads(json.dumps(GEOJSON_GEOMETRY))
    if how == "none":
        return None
    if how == "empty":
        return {}
    if how == "junk":
        return {"type": "nothing", "coordinates": [1, 2]}
    if how == "nofeatures":
        return {"type": "FeatureCollection", "features": []}
    if how == "badgeom":
        return {"geometry": {"type": "Bogus"}}
    if allow_objects:
        from shapely.geometry import GeometryCollection, Point

        return GeometryCollection([Point(1, 2)])
    return None


def window_spelling(rng, ns, step, n, allow_objects=True, aware=None):
    how = rng.choice(["both", "both", "both", "both", "start", "end", "empty", "tw", "nones"])
    r = rng.random()
    if r < 0.02:
        return {"starting": None, "finish": 1}
    if r < 0.03:
        return None
    if how == "both":
        w = dict(zip(("starting", "ending"), bound_pair(rng, step, n, aware)))
        return dict(reversed(list(w.items()))) if rng.random() < 0.3 else w
    if how == "start":
        return {"starting": bound_spelling(rng, step, n, aware)}
    if how == "end":
        return {"ending": bound_spelling(rng, step, n, aware)}
    if how == "empty":
        return {}
    if how == "tw" and allow_objects:
        return ns.config.tw(*bound_pair(rng, step, n, aware))
    return {"starting": None, "ending": None}


def stream_config(rng, ns, labels, step, n, aware=False):
    """A config (several layouts) over the given stream labels plus, sometimes, a missing one."""
    def streams():
        chosen = [lab for lab in labels if rng.random() < 0.8] or list(labels[:1])
        if rng.random() < 0.2:
            chosen.append("missing_stream")
        rng.shuffle(chosen)
        return {lab: qartod_tests(rng) for lab in chosen}

    layout = rng.choice(["contexts", "contexts", "contexts", "streams", "bare"])
    if layout == "bare":
        return streams()
    if layout == "streams":
        ctx = {"streams": streams()}
        if rng.random() < 0.7:
            ctx["window"] = window_spelling(rng, ns, step, n, aware=aware)
        if rng.random() < 0.3:
            ctx["region"] = region_spelling(rng)
        return ctx
    contexts = []
    for _ in range(rng.randrange(1, 4)):
        ctx = {"streams": streams()}
        if rng.random() < 0.8:
            ctx["window"] = window_spelling(rng, ns, step, n, aware=aware)
        if rng.random() < 0.3:
            ctx["region"] = region_spelling(rng)
        if rng.random() < 0.2:
            ctx["attrs"] = {"title": "x"}
        contexts.append(ctx)
    return {"contexts": contexts}


# --------------------------------------------------------------------------------------
# PandasStream
# --------------------------------------------------------------------------------------
ODD_LABELS = [0, 1, 2.5, pd.Timestamp("2020-01-01"), "temp", "salinity", "a b", "", b"raw", -1, 10**12, "été", "9", dt.date(2020, 1, 1)]
HOSTILE_LABELS = [("a", "b"), None, True, np.nan]


def frame_index(rng, n):
    how = rng.choice(["range", "range", "shuffled", "duplicated", "floatnan", "strings", "datetime", "multi", "offset"])
    if how == "range" or n == 0:
        return None
    if how == "shuffled":
        return pd.Index(rng.sample(range(n), n))
    if how == "duplicated":
        return pd.Index([rng.randrange(0, max(1, n // 2 + 1)) for _ in range(n)])
    if how == "floatnan":
        vals = [float(i) for i in range(n)]
        vals[rng.randrange(n)] = np.nan
        return pd.Index(vals)
    if how == "strings":
        return pd.Index([f"r{i}" for i in rng.sample(range(n), n)])
    if how == "datetime":
        arr, _ = stamps(rng, n)
        return pd.DatetimeIndex(arr)
    if how == "multi":
        return pd.MultiIndex.from_arrays([[i // 2 for i in range(n)], [i % 2 for i in range(n)]])
    return pd.RangeIndex(5, 5 + 2 * n, 2)


def make_frame(rng, n):
    """(frame, keyword arguments naming its axis columns, data labels, time step)."""
    index = frame_index(rng, n)
    arr, step = stamps(rng, n)
    columns = OrderedDict()
    kwargs = {}
    names = {"time": "time", "z": "z", "lat": "lat", "lon": "lon", "geom": "geom"}
    for axis in list(names):
        if rng.random() < 0.3:
            names[axis] = rng.choice(["t", "depth", 7, 3.5, "y", "x", b"ax", ("ax", axis) if rng.random() < 0.05 else "ax"]) if rng.random() < 0.8 else names[axis]
            kwargs[axis] = names[axis]
        elif rng.random() < 0.1:
            kwargs[axis] = rng.choice([None, "", 0])
    aware = False
    if rng.random() < 0.85:
        t = time_spelling(rng, arr, for_pandas=True)
        aware = t.dt.tz is not None
        columns[names["time"]] = t.to_numpy() if rng.random() < 0.5 and not aware else t.array
    if rng.random() < 0.6:
        columns[names["z"]] = floats(rng, n)
    if rng.random() < 0.6:
        columns[names["lat"]] = np.array([rng.choice([-91.0, -90.0, 0.1, 0.3, 45.0, 90.0, np.nan]) for _ in range(n)], dtype="float64")
        if rng.random() < 0.9:
            columns[names["lon"]] = np.array([rng.choice([-181.0, -180.0, 2.3, 0.1, 179.9, 180.0, np.nan]) for _ in range(n)], dtype="float64")
    if rng.random() < 0.1:
        columns[names["geom"]] = [None] * n
    labels = []
    for _ in range(rng.randrange(1, 4)):
        label = rng.choice(ODD_LABELS) if rng.random() < 0.5 else rng.choice(["temp", "salinity", "pressure"])
        if rng.random() < 0.02:
            label = rng.choice(HOSTILE_LABELS)
        if label in columns or label in labels:
            continue
        labels.append(label)
        vals = numbers(rng, n, kind=rng.choice(["float", "float", "int", "object", "f32"]))
        columns[label] = vals
    items = list(columns.items())
    if rng.random() < 0.5:
        rng.shuffle(items)
    df = pd.DataFrame({i: v for i, (_, v) in enumerate(items)}, index=index)
    if items:
        names_now = [k for k, _ in items]
        if all(isinstance(k, str) for k in names_now):
            df.columns = names_now
        else:
            df.columns = pd.Index(names_now, dtype=object, tupleize_cols=False)
    return df, kwargs, labels, step, aware


def case_pandas_init(ns, rng):
    n = rng.randrange(0, 4)
    how = rng.random()
    if how < 0.7:
        df, kwargs, _, _, _ = make_frame(rng, n)
    elif how < 0.8:
        df, kwargs = {"time": [1], "z": [2], 0: [1]}, {}
    elif how < 0.9:
        df, kwargs = ["time", "lat", 3], {}
    else:
        df, kwargs = pd.DataFrame({"time": [1.0], "lon": [2.0]}), {}
    for axis in ("time", "z", "lat", "lon", "geom"):
        r = rng.random()
        if r < 0.15:
            kwargs[axis] = rng.choice([None, "", 0, 0.0, False, (), "time", "z", "lon", "nope", 7, ("ax", axis)])
        elif r < 0.2:
            kwargs[axis] = rng.choice([["unhashable"], {"a": 1}, np.array([1, 2]), np.array([]), pd.Series([1, 2])])
    if rng.random() < 0.05:
        kwargs["bogus"] = 1
    stream = ns.streams.PandasStream(df, **kwargs)
    state = dict(vars(stream))
    same_df = state.pop("df") is df
    return state, same_df, stream.time_column, stream.axis_columns


def case_pandas_run(ns, rng):
    n = rng.randrange(0, 9)
    df, kwargs, labels, step, aware = make_frame(rng, n)
    before = df.copy(deep=True)
    cfg = stream_config(rng, ns, labels, step, n, aware)
    config = ns.config.Config(cfg)
    stream = ns.streams.PandasStream(df, **kwargs)
    out = drain(stream.run(config))
    return out, df, unchanged(df, before), dict((k, v) for k, v in vars(stream).items() if k != "df")


# --------------------------------------------------------------------------------------
# NumpyStream
# --------------------------------------------------------------------------------------
def make_numpy_inputs(rng, n):
    arr, step = stamps(rng, n)
    shape2d = None
    how = rng.choice(["array", "array", "array", "dict", "dict", "none", "list", "2d", "2dF", "masked"])
    kwargs = {}
    labels = ["_stream"]
    if how == "array":
        kwargs["inp"] = numbers(rng, n, kind=rng.choice(["float", "int", "object", "f32"]))
    elif how == "masked":
        kwargs["inp"] = numbers(rng, n, kind="masked")
    elif how == "dict":
        labels = rng.sample(["temp", "salinity", 0, ("a", "b"), "_stream"], rng.randrange(0, 4))
        kwargs["inp"] = {lab: numbers(rng, n, kind=rng.choice(["float", "int", "masked"])) for lab in labels}
        if rng.random() < 0.04 and labels:
            kwargs["inp"][labels[-1]] = numbers(rng, n + 1, kind="float")  # a stream of another length
        labels = labels or ["temp"]
    elif how == "none":
        kwargs["inp"] = None
    elif how == "list":
        kwargs["inp"] = [1.0, 2.0][:n]
    else:
        rows = rng.choice([1, 2, 3])
        cols = rng.choice([1, 2, 3])
        n = rows * cols
        arr, step = stamps(rng, n)
        base = floats(rng, n).reshape(rows, cols)
        kwargs["inp"] = np.asfortranarray(base) if how == "2dF" else base
        shape2d = (rows, cols)
    # without an input of its own (the deprecated "inp in the config" way) there is no row mask for axes
    axes_wanted = 1.0 if how != "none" else 0.05
    if rng.random() < 0.8 * axes_wanted * (0.08 if shape2d else 1.0):
        t = time_spelling(rng, arr)
        if shape2d and rng.random() < 0.5 and isinstance(t, np.ndarray):
            t = t.reshape(shape2d)
        kwargs["time"] = t
    if rng.random() < 0.5 * axes_wanted:
        z = floats(rng, n)
        kwargs["z"] = z.reshape(shape2d) if shape2d else z
    if rng.random() < 0.6 * axes_wanted:
        lat = np.array([rng.choice([-91.0, -90.0, 0.1, 0.3, 45.0, 90.0, np.nan]) for _ in range(n)], dtype="float64")
        lon = np.array([rng.choice([-181.0, -180.0, 2.3, 0.1, 179.9, 180.0, np.nan]) for _ in range(n)], dtype="float64")
        if shape2d:
            lat, lon = lat.reshape(shape2d), lon.reshape(shape2d)
            if rng.random() < 0.5:
                lat, lon = np.asfortranarray(lat), np.asfortranarray(lon)
        if rng.random() < 0.2:
            lat = np.ma.array(lat, mask=[rng.random() < 0.3 for _ in range(n)] if not shape2d else False)
        kwargs["lat"] = lat
        if rng.random() < 0.9:
            kwargs["lon"] = lon
    if rng.random() < 0.05:
        kwargs["geom"] = None
    return kwargs, labels, step, n


def snapshot(kwargs):
    import copy

    return copy.deepcopy(kwargs)


def case_numpy_run(ns, rng):
    n = rng.randrange(0, 9)
    kwargs, labels, step, n = make_numpy_inputs(rng, n)
    cfg = stream_config(rng, ns, labels, step, n)
    if kwargs.get("inp") is None and rng.random() < 0.8:
        # the deprecated way: the input sits in the config of the call
        target = cfg
        for ctx in (cfg.get("contexts") or [cfg]):
            for packages in (ctx.get("streams") or ctx).values():
                for tests in packages.values():
                    for name, kw in tests.items():
                        if isinstance(kw, dict) and rng.random() < 0.7:
                            kw["inp"] = rng.choice([[0.1, 0.3, 2.3][:n], list(floats(rng, n))])
        del target
    before = snapshot(kwargs)
    config = ns.config.Config(cfg)
    stream = ns.streams.NumpyStream(**kwargs)
    out = drain(stream.run(config))
    return out, unchanged(kwargs, before), kwargs, stream.inp, stream.tinp


# --------------------------------------------------------------------------------------
# collect_results_list / collect_results_dict
# --------------------------------------------------------------------------------------
def _f1(inp):
    return inp


def _f2(inp):
    return inp


def synthetic_results(ns, rng):
    """ContextResults the way streams build them (and some ways they do not), plus bare CallResults."""
    n = rng.randrange(0, 9)
    two_d = rng.random() < 0.1 and n >= 2
    shape = (2, n // 2) if two_d else (n,)
    size = int(np.prod(shape))
    out = []
    arr, _ = stamps(rng, size)
    full = {
        "data": floats(rng, size),
        "tinp": arr.astype("datetime64[ns]"),
        "zinp": floats(rng, size),
        "lat": floats(rng, size),
        "lon": floats(rng, size),
    }
    # a stream either has an axis in every context or in none; without all of them only full subsets collect
    everything = rng.random() < 0.6
    given = {name: everything or name == "data" or rng.random() < 0.7 for name in full}
    for _ in range(rng.randrange(0, 5)):
        if rng.random() < 0.15:
            res = np.ma.array([rng.choice([1, 2, 3, 4, 9]) for _ in range(size)], dtype="uint8")
            out.append(ns.results.CallResult(package=rng.choice(["qartod", "axds"]), test=rng.choice(["t1", "t2"]), function=_f1, results=res))
            continue
        how = rng.random()
        if how < 0.35:
            idx = np.ones(shape, dtype=bool)
        elif how < 0.45:
            idx = np.zeros(shape, dtype=bool)
        else:
            idx = np.array([rng.random() < 0.6 for _ in range(size)], dtype=bool).reshape(shape)
        if two_d and rng.random() < 0.5:
            idx = np.asfortranarray(idx)
        if rng.random() < 0.1:
            idx = np.ma.array(idx, mask=False)
        if rng.random() < 0.1:
            idx.setflags(write=False)
        k = int(np.asarray(idx).sum())
        flat = np.flatnonzero(np.asarray(idx).ravel())
        calls = []
        for _ in range(rng.randrange(0, 4)):
            length = k if rng.random() < 0.98 else k + 1
            flags = np.ma.array(
                [rng.choice([1, 2, 3, 4, 9]) for _ in range(length)],
                mask=[rng.random() < 0.2 for _ in range(length)] if rng.random() < 0.5 else False,
                dtype=rng.choice(["uint8", "uint8", "uint8", "int64", "float64"]),
            )
            if rng.random() < 0.1:
                flags = np.asarray(flags.filled(9))
            if idx.all() and two_d and rng.random() < 0.5 and length == k:
                flags = flags.reshape(shape)
            calls.append(ns.results.CallResult(package=rng.choice(["qartod", "axds"]), test=rng.choice(["t1", "t2", "t3"]), function=rng.choice([_f1, _f2]), results=flags))
        fields = {}
        for name, values in full.items():
            r = rng.random()
            if not given[name] and r < 0.97:
                part = np.empty(0, dtype=values.dtype)  # the axis was not given
            elif r < 0.9:
                part = values.ravel()[flat].copy()
                if idx.all() and two_d and rng.random() < 0.5:
                    part = part.reshape(shape)
            elif r < 0.91:
                part = None
            elif r < 0.96:
                part = values.ravel()[flat].copy()
                part.setflags(write=False)
            else:
                part = np.ma.array(values.ravel()[flat].copy(), mask=False)
            fields[name] = part
        if rng.random() < 0.01:
            fields.pop("lat")
        out.append(
            ns.results.ContextResult(
                stream_id=rng.choice(["temp", "salinity", None, 0, ""]),
                results=calls,
                subset_indexes=idx,
                **fields,
            ),
        )
    if rng.random() < 0.03:
        out.append("not a result")
    return out


def case_collect_list(ns, rng):
    results = synthetic_results(ns, rng)
    out = ns.results.collect_results_list(iter(results) if rng.random() < 0.3 else results)
    shared = [[(i, name) for i, r in enumerate(results) if hasattr(r, "data") for name in ("data", "tinp", "zinp", "lat", "lon") if getattr(c, name) is getattr(r, name, None) and getattr(c, name) is not None] for c in out]
    return out, results, shared


def case_collect_dict(ns, rng):
    results = synthetic_results(ns, rng)
    out = ns.results.collect_results_dict(iter(results) if rng.random() < 0.3 else results)
    return out, results, type(out).__name__, [type(v).__name__ for v in out.values()]


def case_collect_list_streams(ns, rng):
    n = rng.randrange(0, 9)
    kwargs, labels, step, n = make_numpy_inputs(rng, n)
    cfg = stream_config(rng, ns, labels, step, n)
    results = drain(ns.streams.NumpyStream(**kwargs).run(ns.config.Config(cfg)))
    return ns.results.collect_results_list(results), results


def case_collect_dict_streams(ns, rng):
    n = rng.randrange(0, 9)
    kwargs, labels, step, n = make_numpy_inputs(rng, n)
    cfg = stream_config(rng, ns, labels, step, n)
    results = drain(ns.streams.NumpyStream(**kwargs).run(ns.config.Config(cfg)))
    return ns.results.collect_results_dict(results), results


# --------------------------------------------------------------------------------------
# PandasStore / column names
# --------------------------------------------------------------------------------------
NAME_PARTS = [None, "", "temp", "salinity", "qartod", "gross_range_test", "9lives", "_x", "a b", "a.b", "été", "x-y", 0, 7, 2.5, "rollup", "T", " "]


def case_column_name(ns, rng):
    cr = ns.results.CollectedResult(
        stream_id=rng.choice(NAME_PARTS),
        package=rng.choice(NAME_PARTS),
        test=rng.choice(NAME_PARTS),
        function=_f1,
    )
    return ns.stores.column_from_collected_result(cr)


def store_results(ns, rng, tries=6):
    """Results for a store (something to store, if that can be had in a few tries)."""
    for _ in range(tries - 1):
        try:
            results, labels = _store_results(ns, rng)
            ns.results.collect_results_list(snapshot(results))
        except Exception:  # noqa: BLE001, S112
            continue
        if any(getattr(r, "results", None) is not None and len(r.results) for r in results):
            return results, labels
    return _store_results(ns, rng)


def _store_results(ns, rng):
    """Results for a store: out of a stream most of the time, synthetic otherwise."""
    how = rng.random()
    if how < 0.45:
        n = rng.randrange(0, 9)
        df, kwargs, labels, step, aware = make_frame(rng, n)
        cfg = stream_config(rng, ns, labels, step, n, aware)
        return drain(ns.streams.PandasStream(df, **kwargs).run(ns.config.Config(cfg))), labels
    if how < 0.8:
        n = rng.randrange(0, 9)
        kwargs, labels, step, n = make_numpy_inputs(rng, n)
        if isinstance(kwargs.get("inp"), np.ndarray) and kwargs["inp"].ndim == 2 and rng.random() < 0.8:
            kwargs["inp"] = np.asarray(kwargs["inp"]).ravel()
            for k in ("time", "z", "lat", "lon"):
                if isinstance(kwargs.get(k), np.ndarray):
                    kwargs[k] = kwargs[k].ravel()
        cfg = stream_config(rng, ns, labels, step, n)
        return drain(ns.streams.NumpyStream(**kwargs).run(ns.config.Config(cfg))), labels
    return synthetic_results(ns, rng), ["temp", "salinity"]


def selection(rng, labels):
    if rng.random() < 0.45:
        return None
    pool = [
        qartod.gross_range_test, qartod.spike_test, qartod.flat_line_test, qartod.location_test, qartod.aggregate,
        "gross_range_test", "spike_test", "rate_of_change_test", "location_test", "rollup", "t1", "t2", "", None, _f1,
        *labels, "temp",
    ]
    return [rng.choice(pool) for _ in range(rng.randrange(0, 4))]


AXES_VARIANTS = [
    None, None, None, {},
    {"t": "time", "z": "z", "y": "lat", "x": "lon"},
    {"t": "t", "z": "depth", "y": "y", "x": "x"},
    {"t": "time", "z": "time", "y": "lat", "x": "lat"},
    {"t": "temp", "z": "z", "y": "lat", "x": "lon"},
    {"t": "time", "z": "z"},
    {"t": 0, "z": 1, "y": 2, "x": 3},
    {"t": "temp.qartod.gross_range_test", "z": "z", "y": "lat", "x": "lon"},
]


def case_store_save(ns, rng):
    results, labels = store_results(ns, rng)
    axes = rng.choice(AXES_VARIANTS)
    store = ns.stores.PandasStore(iter(results) if rng.random() < 0.3 else results, axes)
    if rng.random() < 0.3:
        store.compute_aggregate(**({"name": rng.choice(["rollup", "qc_rollup", "9", ""])} if rng.random() < 0.5 else {}))
    before = len(store.collected_results)
    kwargs = {}
    if rng.random() < 0.5:
        kwargs["write_data"] = rng.choice([True, False, 1, 0, None])
    if rng.random() < 0.6:
        kwargs["write_axes"] = rng.choice([True, True, False, 1, 0, None, "yes"])
    if rng.random() < 0.6:
        kwargs["include"] = selection(rng, labels)
    if rng.random() < 0.6:
        kwargs["exclude"] = selection(rng, labels)
    frame = store.save(**kwargs)
    again = store.save(**kwargs) if rng.random() < 0.2 else None
    return frame, again, before, len(store.collected_results), store.stream_ids, store.axes


def case_store_aggregate(ns, rng):
    results, labels = store_results(ns, rng)
    store = ns.stores.PandasStore(results, rng.choice(AXES_VARIANTS))
    held = store.collected_results
    calls = rng.randrange(1, 3)
    returned = []
    for _ in range(calls):
        r = rng.random()
        if r < 0.5:
            returned.append(store.compute_aggregate())
        elif r < 0.8:
            returned.append(store.compute_aggregate(name=rng.choice(["rollup", "qc_rollup", "", None, 5])))
        else:
            returned.append(store.compute_aggregate(rng.choice(["agg", "rollup"])))
    return returned, store.collected_results, held is store.collected_results, store.stream_ids, [c.hash_key for c in store.collected_results]


# --------------------------------------------------------------------------------------
# Call.run
# --------------------------------------------------------------------------------------
def fn_kwonly(inp, *, scale=2):
    return np.ma.array(inp) * scale


def fn_varkw(inp, **kw):
    return sorted(kw)


def fn_raises(inp, tinp=None):
    msg = f"boom {len(inp)}"
    raise ValueError(msg)


def fn_posonly(inp, /, x=1):
    return x


def fn_args(*args, inp=None):
    return inp


def fn_echo(inp, tinp=None, zinp=None, lat=None, lon=None, extra="e"):
    return {"inp": inp, "tinp": tinp, "zinp": zinp, "lat": lat, "lon": lon, "extra": extra}


def fn_mutates(inp, fail_span=None):
    inp[:] = 0
    if fail_span is not None:
        fail_span.append(1)
    return inp


def fn_keyerror(inp):
    raise KeyError("k")


def fn_exit(inp):
    raise SystemExit(3)


class fn_object:  # noqa: N801
    __name__ = "fn_object"

    def __call__(self, inp, k=1):
        return k


LOCAL_FUNCS = [fn_kwonly, fn_varkw, fn_raises, fn_posonly, fn_args, fn_echo, fn_mutates, fn_keyerror, fn_object()]


def case_call_run(ns, rng):  # noqa: C901
    n = rng.randrange(0, 9)
    arr, step = stamps(rng, n)
    passed = {}
    if rng.random() < 0.9:
        passed["inp"] = numbers(rng, n)
    if rng.random() < 0.7:
        passed["tinp"] = time_spelling(rng, arr)
    if rng.random() < 0.4:
        passed["zinp"] = floats(rng, n)
    if rng.random() < 0.5:
        shape = rng.choice([(n,), (n,), (n, 1), (1, n), (2, n)])
        size = int(np.prod(shape))
        lat = np.array([rng.choice([-91.0, -90.0, 0.1, 0.3, 45.0, 90.0, np.nan]) for _ in range(size)]).reshape(shape)
        lon = np.array([rng.choice([-181.0, -180.0, 2.3, 0.1, 179.9, 180.0, np.nan]) for _ in range(size)]).reshape(shape)
        if rng.random() < 0.5:
            lat, lon = np.asfortranarray(lat), np.asfortranarray(lon)
        if rng.random() < 0.3 and len(shape) == 2:
            lat, lon = lat.T, lon.T
        passed["lat"], passed["lon"] = lat, lon
    if rng.random() < 0.2:
        passed["unused"] = rng.choice([1, "x", None])
    if rng.random() < 0.03:
        passed["lock"] = threading.Lock()  # can not be deep-copied

    if rng.random() < 0.65:
        name, kwargs = rng.choice(
            [
                ("gross_range_test", {"fail_span": span(rng), **({"suspect_span": span(rng)} if rng.random() < 0.6 else {})}),
                ("gross_range_test", {"suspect_span": span(rng), "fail_span": span(rng)}),
                ("gross_range_test", {"fail_span": span(rng), "suspect_span": None}),
                ("gross_range_test", {}),
                ("spike_test", {"suspect_threshold": rng.choice([None, 0.1, 0.3, 2.3]), "fail_threshold": rng.choice([None, 0.3, 2.3, 1e308])}),
                ("spike_test", {"fail_threshold": 2.3, "method": rng.choice(["average", "differential", "bogus"])}),
                ("flat_line_test", {"tolerance": rng.choice([0, 0.1, 0.3]), "suspect_threshold": rng.choice([1, 60, 3600]), "fail_threshold": rng.choice([2, 120, 7200])}),
                ("rate_of_change_test", {"threshold": rng.choice([0.1, 0.3, 2.3, 1e308])}),
                ("location_test", {"bbox": rng.choice([[-180, -90, 180, 90], [0.1, 0.3, 2.3, 5.0]]), **({"range_max": rng.choice([None, 1e308, 0.1, 100000.0])} if rng.random() < 0.5 else {})}),
                ("location_test", {}),
                ("density_inversion_test", {"suspect_threshold": 0.1, "fail_threshold": 0.3}),
                ("attenuated_signal_test", {"suspect_threshold": 0.3, "fail_threshold": 0.1, "check_type": rng.choice(["std", "range"])}),
                ("aggregate", {}),
            ],
        )
        func = getattr(qartod, name)
    else:
        func = rng.choice(LOCAL_FUNCS)
        kwargs = rng.choice([{}, {"scale": 3}, {"x": 5}, {"extra": "cfg", "unknown": 1}, {"fail_span": [1, 2]}, {"k": 7}, {"tinp": "from config"}])
    if rng.random() < 0.15:
        kwargs = {**kwargs, "inp": [0.1, 0.3, 2.3][:n]}  # also configured: the passed one wins
    if rng.random() < 0.1:
        passed = {**passed, **{k: v for k, v in kwargs.items() if k != "inp"}}  # override at run time
    if rng.random() < 0.05:
        func = fn_exit  # not an Exception: must get through
    kw_before = snapshot(kwargs)
    call = ns.config.Call(stream_id=rng.choice(["temp", None, 0]), call=partial(func, (), **kwargs), context=ns.config.Context())
    try:
        out = call.run(**passed)
    except SystemExit:
        out = "SystemExit"
    again = None
    if rng.random() < 0.1:
        try:
            again = call.run(**passed)
        except SystemExit:
            again = "SystemExit"
    passed.pop("lock", None)
    return out, again, type(out).__name__, passed, call.kwargs, kw_before


# --------------------------------------------------------------------------------------
# Config / ContextConfig
# --------------------------------------------------------------------------------------
YAML_TEMPLATES = [
    """
streams:
  temp:
    qartod:
      gross_range_test:
        suspect_span: [{a}, {b}]
        fail_span: [{c}, {d}]
""",
    """
window:
  starting: {t0}
  ending: {t1}
streams:
  temp:
    qartod:
      gross_range_test:
        fail_span: [{a}, {b}]
      spike_test:
        suspect_threshold: {c}
        fail_threshold: {d}
  salinity:
    qartod:
      rate_of_change_test:
        threshold: {a}
""",
    """
contexts:
  - window:
      starting: {t0}
      ending: {t1}
    region: null
    streams:
      temp:
        qartod:
          gross_range_test:
            fail_span: [{a}, {b}]
  - window:
      starting: {t1}
    attrs:
      title: second
    streams:
      7:
        qartod:
          flat_line_test:
            tolerance: {a}
            suspect_threshold: {c}
            fail_threshold: {d}
          no_such_test:
      salinity:
        nopackage:
          some_test:
            x: 1
""",
    """
qartod:
  gross_range_test:
    suspect_span: [{a}, {b}]
    fail_span:
      - {c}
      - {d}
  location_test:
    bbox: [-80, 40, -70, 60]
""",
    """
temp:
  qartod:
    gross_range_test:
      fail_span: [{a}, {b}]
salinity:
  qartod:
    spike_test:
      suspect_threshold: {c}
      fail_threshold: {d}
""",
    """
region:
  type: Feature
  geometry:
    type: Point
    coordinates: [{a}, {b}]
window:
  ending: {t1}
streams:
  temp:
    qartod:
      location_test:
        bbox: [{a}, {b}, {c}, {d}]
""",
    "just a sentence",
    "- a\n- list\n",
    "",
    "streams: 5",
    "streams:\n  temp: 5\n",
    "streams:\n  temp:\n    qartod: 5\n",
    "contexts: 5",
    "contexts:\n  - 5\n",
]
NUMBER_SPELLINGS = ["3.", "2.e1", ".5", "007", "1", "0.1", "0.3", "2.3", "1e308", "1.0e+308", "-.5", "+3", "1_000", "0x10", "0o7", ".inf", "-.inf", ".nan", "3.0", "1e3", "1E3", "null", "~", '"3"', "true", "12:30"]
DATE_SPELLINGS = [
    "2020-01-01T00:00:00Z", "2020-01-01T00:00:00", "2020-01-01 00:00:00", "2020-01-01", "'2020-01-01T00:00:00Z'", '"2020-01-03"',
    "2020-01-01T00:00:00+00:00", "2020-01-01T00:00:00.000Z", "2020-1-1", "20200101", "null", "2020-01-01t00:00:00z", "2020-01-01T05:00:00-05:00", "",
]


def config_dict(rng, ns, allow_objects=True, layout=None):  # noqa: C901
    """A config as python data in one of the layouts (and some that are none)."""
    layout = layout or rng.choice(["contexts", "contexts", "streams", "streams", "streams", "depth4", "depth4", "qc", "qc", "junk"])
    labels = rng.sample(["temp", "salinity", 0, ("a", "b") if allow_objects else "a_b", "x.y"], rng.randrange(1, 4))

    def streams():
        s = {lab: qartod_tests(rng) for lab in labels}
        if rng.random() < 0.05:
            s["odd"] = {}
        if rng.random() < 0.05:
            s["odder"] = {"qartod": {}}
        return OrderedDict(s) if rng.random() < 0.3 else s

    def context():
        ctx = {}
        keys = ["streams", "window", "region", "attrs"]
        rng.shuffle(keys)
        for key in keys:
            if key == "streams":
                ctx["streams"] = streams()
            elif key == "window" and rng.random() < 0.7:
                ctx["window"] = window_spelling(rng, ns, 3600, 5, allow_objects)
            elif key == "region" and rng.random() < 0.6:
                ctx["region"] = region_spelling(rng, allow_objects)
            elif key == "attrs" and rng.random() < 0.3:
                ctx["attrs"] = rng.choice([{"title": "x"}, {}, None])
        return ctx

    if layout == "contexts":
        cfg = {"contexts": [context() for _ in range(rng.randrange(0, 4))]}
        if rng.random() < 0.2:
            cfg["streams"] = streams()  # "contexts" wins
    elif layout == "streams":
        cfg = context()
        if rng.random() < 0.05:
            del cfg["streams"]
    elif layout == "depth4":
        cfg = streams()
    elif layout == "qc":
        cfg = qartod_tests(rng)
        if rng.random() < 0.2:
            cfg = {"qartod": {"gross_range_test": {"fail_span": [1, 2], "nested": {"deep": {"deeper": 1}}}}}
    else:
        cfg = rng.choice([{}, {"a": 1}, {"streams": None}, {"contexts": None}, {"streams": {"temp": None}}, {"contexts": [None]}, {"qartod": None}, {"a": {"b": {"c": {"d": {"e": 1}}}}}])
    if rng.random() < 0.3:
        cfg = OrderedDict(cfg)
    return cfg


class HasCalls:
    def __init__(self, calls):
        self.calls = calls


def config_source(rng, ns, tmpdir):  # noqa: C901, PLR0911, PLR0912
    how = rng.choice(["dict", "dict", "dict", "json", "yaml", "yaml", "stringio", "file", "calls", "config", "contextconfig", "junk", "hascalls"])
    if how == "dict":
        return config_dict(rng, ns)
    if how == "json":
        cfg = config_dict(rng, ns, allow_objects=False)
        try:
            return json.dumps(cfg, default=str)
        except TypeError:
            return json.dumps({"streams": {"temp": qartod_tests(rng)}}, default=str)
    if how in ("yaml", "stringio", "file"):
        text = rng.choice(YAML_TEMPLATES[:6] if rng.random() < 0.85 else YAML_TEMPLATES).format(
            a=rng.choice(NUMBER_SPELLINGS), b=rng.choice(NUMBER_SPELLINGS), c=rng.choice(NUMBER_SPELLINGS), d=rng.choice(NUMBER_SPELLINGS),
            t0=rng.choice(DATE_SPELLINGS), t1=rng.choice(DATE_SPELLINGS),
        )
        if how == "yaml":
            return text
        if how == "stringio":
            return io.StringIO(text)
        path = os.path.join(tmpdir, f"cfg_{rng.randrange(10**9)}.{rng.choice(['yaml', 'json', 'txt'])}")
        with open(path, "w") as f:
            f.write(text)
        return Path(path) if rng.random() < 0.5 else path
    if how in ("calls", "hascalls", "config", "contextconfig"):
        inner = ns.config.Config({"streams": {"temp": qartod_tests(rng), "salinity": qartod_tests(rng)}, "window": window_spelling(rng, ns, 60, 4) if rng.random() < 0.5 else {}}) if rng.random() < 0.9 else ns.config.Config({"streams": {}})
        if how == "config":
            return inner
        if how == "contextconfig":
            cc = ns.config.ContextConfig({"streams": {"temp": qartod_tests(rng)}})
            return rng.choice([cc, [cc, cc], [cc, inner, 5]])
        if how == "hascalls":
            return rng.choice([HasCalls(inner.calls), [HasCalls(inner.calls), inner.calls[0] if inner.calls else 1], HasCalls([])])
        calls = list(inner.calls)
        return rng.choice([calls, tuple(calls), calls[:1], calls[0] if calls else [], [*calls, "x", None], []])
    return rng.choice([None, 5, 2.5, [], (), [1, 2], b"bytes", "/no/such/file.yaml", Path("/no/such/file.nc"), object(), io.BytesIO(b"a: 1")])


TMPDIR = tempfile.mkdtemp(prefix="equiv_cfg_")


def describe_config(cfg):
    return {
        "type": type(cfg).__name__,
        "config": getattr(cfg, "config", "<unset>"),
        "config_type": type(getattr(cfg, "config", None)).__name__,
        "calls": list(cfg.calls),
        "contexts": [(k, v) for k, v in cfg.contexts.items()],
        "stream_ids": cfg.stream_ids,
        "reprs": [repr(c) for c in cfg.calls],
        "attrs": sorted(k for k in vars(cfg)),
    }


def case_config_init(ns, rng):
    source = config_source(rng, ns, TMPDIR)
    src_calls = getattr(source, "calls", None)
    kwargs = {}
    if rng.random() < 0.3:
        kwargs["default_stream_key"] = rng.choice(["_stream", "temp", 0, None])
    if rng.random() < 0.1:
        kwargs["version"] = rng.choice([1, None, "2"])
    cfg = ns.config.Config(source, **kwargs)
    aliased = src_calls is not None and cfg.calls is src_calls
    return describe_config(cfg), aliased, source if isinstance(source, dict) else None


def case_contextconfig_init(ns, rng):
    how = rng.random()
    if how < 0.8:
        source = config_dict(rng, ns, layout="streams")
    elif how < 0.88:
        source = config_dict(rng, ns)
    else:
        source = config_source(rng, ns, TMPDIR)
    cc = ns.config.ContextConfig(source)
    return {
        "config": cc.config,
        "config_is_source": cc.config is source,
        "calls": list(cc.calls),
        "attrs": cc.attrs,
        "region": cc.region,
        "window": cc.window,
        "context": cc.context,
        "str": str(cc),
        "names": sorted(vars(cc)),
        "calls_share_context": all(c.context is cc.context for c in cc.calls),
        "attrs_distinct": len({id(c.attrs) for c in cc.calls}) == len(cc.calls),
    }, source if isinstance(source, dict) else None


# --------------------------------------------------------------------------------------
# QcConfig.run
# --------------------------------------------------------------------------------------
def case_qcconfig_run(ns, rng):  # noqa: C901
    n = rng.randrange(0, 9)
    arr, step = stamps(rng, n)
    layout = rng.random()
    if layout < 0.8:
        cfg = qartod_tests(rng)
    elif layout < 0.9:
        cfg = {"streams": {"_stream": qartod_tests(rng), "other": qartod_tests(rng)}, "window": window_spelling(rng, ns, step, n)}
    else:
        cfg = {"contexts": [{"streams": {"_stream": qartod_tests(rng)}, "window": window_spelling(rng, ns, step, n)}, {"streams": {"_stream": qartod_tests(rng)}}]}
    key = {}
    if rng.random() < 0.2:
        key["default_stream_key"] = rng.choice(["_stream", "other", "mine"])
    qc = ns.config.QcConfig(cfg, **key)
    passed = {}
    if rng.random() < 0.92:
        passed["inp"] = numbers(rng, n, kind=rng.choice(["float", "float", "float", "int", "object", "f32", "list", "list"]) if rng.random() < 0.95 else "masked")
        if rng.random() < 0.1:
            passed["inp"] = pd.Series(floats(rng, n))
        if rng.random() < 0.05:
            passed["inp"] = tuple(floats(rng, n).tolist())
    if rng.random() < 0.75:
        t = time_spelling(rng, arr)
        passed[rng.choice(["tinp", "tinp", "tinp", "time"])] = t
        if rng.random() < 0.05:
            passed["time"] = arr  # both spellings: tinp wins, even when it is missing
    if rng.random() < 0.4:
        z = floats(rng, n)
        passed[rng.choice(["zinp", "zinp", "z"])] = z if rng.random() < 0.7 else z.tolist()
    if rng.random() < 0.5:
        lat = [rng.choice([-91.0, -90.0, 0.1, 0.3, 45.0, 90.0]) for _ in range(n)]
        lon = [rng.choice([-181.0, -180.0, 2.3, 0.1, 179.9, 180.0]) for _ in range(n)]
        how = rng.choice(["list", "list", "array", "array", "array", "none"])
        if rng.random() < 0.08:
            how = "F"
        if how == "array":
            lat, lon = np.array(lat), np.array(lon)
        elif how == "F" and n:
            lat, lon = np.asfortranarray(np.array(lat).reshape(1, n)), np.asfortranarray(np.array(lon).reshape(1, n))
        elif how == "none":
            lat = None
        passed["lat"], passed["lon"] = lat, lon
    if rng.random() < 0.05:
        passed["geom"] = rng.choice([None, [1, 2]])
    if rng.random() < 0.03:
        passed["bogus"] = 1
    if rng.random() < 0.03:
        passed["inp"] = [[1.0, 2.0], [3.0]]  # ragged
    before = snapshot(passed)
    out = qc.run(**passed)
    return out, unchanged(passed, before), type(out).__name__, [type(v).__name__ for v in out.values()] if isinstance(out, dict) else None, passed


# --------------------------------------------------------------------------------------
def main():
    head = subprocess.run(["git", "-C", REPO, "rev-parse", "HEAD"], capture_output=True, text=True).stdout.strip()
    print(f"original: {PKG_DIR} at {head or 'working files'}; refactored: {os.path.dirname(NEW.config.__file__)}")
    for leaf in REFACTORED:
        working = open(os.path.join(PKG_DIR, leaf + ".py")).read()
        committed = _orig_source(os.path.join(PKG_DIR, leaf + ".py"))
        rewritten = re.sub(r"\bioos_qc\.(" + "|".join(REFACTORED) + r")\b", ORIG + r".\1", working)
        if rewritten != committed:
            print(f"note: the working file {leaf}.py of /repo differs from its committed blob; the committed blob is the original")

    check("ioos_qc.streams.PandasStream.__init__", case_pandas_init)
    check("ioos_qc.streams.PandasStream.run", case_pandas_run)
    check("ioos_qc.streams.NumpyStream.run", case_numpy_run)
    check("ioos_qc.results.collect_results_list", case_collect_list)
    check("ioos_qc.results.collect_results_list/streams", case_collect_list_streams, max(N_CASES // 3, 1))
    check("ioos_qc.results.collect_results_dict", case_collect_dict)
    check("ioos_qc.results.collect_results_dict/streams", case_collect_dict_streams, max(N_CASES // 3, 1))
    check("ioos_qc.stores.column_from_collected_result", case_column_name)
    check("ioos_qc.stores.PandasStore.save", case_store_save)
    check("ioos_qc.stores.PandasStore.compute_aggregate", case_store_aggregate)
    check("ioos_qc.config.Call.run", case_call_run)
    check("ioos_qc.config.Config.__init__", case_config_init)
    check("ioos_qc.config.ContextConfig.__init__", case_contextconfig_init)
    check("ioos_qc.config.QcConfig.run", case_qcconfig_run)

    import shutil

    shutil.rmtree(TMPDIR, ignore_errors=True)
    if FAILURES:
        print(f"FAILED: {len(FAILURES)} mismatching cases, e.g. {FAILURES[:10]}")
        return 1
    print("all equivalent")
    return 0


if __name__ == "__main__":
    sys.exit(main())
