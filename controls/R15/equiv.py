#!/usr/bin/env python
"""Differential check: refactored ioos_qc.qartod (this worktree) vs. the ORIGINAL.

Run as:  PYTHONPATH=<worktree> /venv/bin/python equiv.py [N_PER_FUNCTION]

The refactored package is imported normally (``ioos_qc`` from PYTHONPATH).  The ORIGINAL
package is loaded under the top-level name ``orig_ioos_qc`` with
importlib.util.spec_from_file_location(..., submodule_search_locations=[...]).

Where the ORIGINAL comes from:
  * $EQUIV_ORIG (a directory holding the package dir ``ioos_qc``) when set, otherwise
  * /repo/ioos_qc when its files are byte-identical to the committed base of this
    worktree (git HEAD), otherwise
  * the committed base (git HEAD:ioos_qc of this worktree, the same commit /repo has
    checked out) extracted to a temp dir.  This fallback exists because /repo's working
    tree may carry uncommitted edits of other people, which are not the original.

Every function is run on >= N (default 3000) generated inputs.  Compared: returned value
(type, dtype, shape, data incl. data below the mask, mask, nomask-ness, fill_value),
exception type, warnings (category + text), log records, and mutation of arguments.
Exit status 0 iff no difference was found.
"""

from __future__ import annotations

import copy
import datetime as dt
import importlib
import importlib.util
import logging
import os
import subprocess
import sys
import tempfile
import types
import warnings
from pathlib import Path

import numpy as np
import pandas as pd

HERE = Path(__file__).resolve().parent
N_PER_FUNCTION = int(sys.argv[1]) if len(sys.argv) > 1 else 3000
SEED = int(os.environ.get("EQUIV_SEED", "20261003"))


# --------------------------------------------------------------------------------------
# loading the two packages
# --------------------------------------------------------------------------------------
def _head_files():
    names = subprocess.run(
        ["git", "-C", str(HERE), "ls-tree", "-r", "--name-only", "HEAD", "ioos_qc"],
        check=True,
        capture_output=True,
        text=True,
    ).stdout.split()
    out = {}
    for n in names:
        out[n] = subprocess.run(
            ["git", "-C", str(HERE), "show", f"HEAD:{n}"],
            check=True,
            capture_output=True,
        ).stdout
    return out


def _orig_root() -> Path:
    env = os.environ.get("EQUIV_ORIG")
    if env:
        return Path(env)
    head = _head_files()
    repo = Path("/repo")
    same = True
    for name, blob in head.items():
        f = repo / name
        if not f.is_file() or f.read_bytes() != blob:
            same = False
            break
    if same:
        return repo
    tmp = Path(tempfile.mkdtemp(prefix="equiv_orig_"))
    for name, blob in head.items():
        f = tmp / name
        f.parent.mkdir(parents=True, exist_ok=True)
        f.write_bytes(blob)
    print(f"note: /repo/ioos_qc differs from the committed base; using HEAD:ioos_qc extracted to {tmp}")
    return tmp


def _load_original(root: Path):
    """Load <root>/ioos_qc as top-level package ``orig_ioos_qc`` (with its own submodules)."""
    pkg_dir = root / "ioos_qc"
    saved = {k: sys.modules.pop(k) for k in list(sys.modules) if k == "ioos_qc" or k.startswith("ioos_qc.")}
    try:
        spec = importlib.util.spec_from_file_location(
            "ioos_qc",
            pkg_dir / "__init__.py",
            submodule_search_locations=[str(pkg_dir)],
        )
        pkg = importlib.util.module_from_spec(spec)
        # while it is being executed the original must see itself as ``ioos_qc`` because
        # its modules use absolute imports (``from ioos_qc.utils import ...``)
        sys.modules["ioos_qc"] = pkg
        spec.loader.exec_module(pkg)
        importlib.import_module("ioos_qc.qartod")
        mine = {k: sys.modules.pop(k) for k in list(sys.modules) if k == "ioos_qc" or k.startswith("ioos_qc.")}
    finally:
        for k in list(sys.modules):
            if k == "ioos_qc" or k.startswith("ioos_qc."):
                del sys.modules[k]
        sys.modules.update(saved)
    for k, v in mine.items():
        sys.modules["orig_" + k] = v
    return mine["ioos_qc"], mine["ioos_qc.qartod"]


ORIG_ROOT = _orig_root()
orig_pkg, O = _load_original(ORIG_ROOT)
import ioos_qc.qartod as R  # noqa: E402  (the refactored module, from PYTHONPATH)

assert Path(R.__file__).resolve() == (HERE / "ioos_qc" / "qartod.py").resolve(), R.__file__
assert Path(O.__file__).resolve() != Path(R.__file__).resolve()
assert sys.modules["orig_ioos_qc.qartod"] is O
assert O.great_circle_distance is not R.great_circle_distance  # the original uses its own utils
print(f"refactored: {R.__file__}\noriginal:   {O.__file__}")


# --------------------------------------------------------------------------------------
# comparing outcomes
# --------------------------------------------------------------------------------------
class _ListHandler(logging.Handler):
    def __init__(self) -> None:
        super().__init__(level=0)
        self.records = []

    def emit(self, record) -> None:
        self.records.append((record.name, record.levelno, record.getMessage()))


def _isnat(x) -> bool:
    try:
        return x is pd.NaT or bool(np.isnat(x))
    except (TypeError, ValueError):
        return False


def same(a, b, path="") -> str | None:
    """None when a and b are indistinguishable, otherwise a description of the difference."""
    ta, tb = type(a), type(b)
    if ta.__name__ != tb.__name__:
        return f"{path}: type {ta.__name__} vs {tb.__name__}"
    if isinstance(a, np.ma.MaskedArray):
        if a.dtype != b.dtype:
            return f"{path}: dtype {a.dtype} vs {b.dtype}"
        if a.shape != b.shape:
            return f"{path}: shape {a.shape} vs {b.shape}"
        if (a._mask is np.ma.nomask) != (b._mask is np.ma.nomask):
            return f"{path}: nomask-ness differs"
        if np.shape(a.mask) != np.shape(b.mask):
            return f"{path}: mask shape"
        if not np.array_equal(np.ma.getmaskarray(a), np.ma.getmaskarray(b)):
            return f"{path}: mask {np.ma.getmaskarray(a)} vs {np.ma.getmaskarray(b)}"
        da, db = np.asarray(a.data), np.asarray(b.data)
        if not _arr_equal(da, db):
            return f"{path}: data {da!r} vs {db!r}"

        def fv(x):
            try:
                return ("ok", repr(x.fill_value))
            except Exception as e:  # noqa: BLE001
                return ("exc", type(e).__name__)

        if fv(a) != fv(b):
            return f"{path}: fill_value {fv(a)} vs {fv(b)}"
        if a._hardmask != b._hardmask:
            return f"{path}: hardmask"
        return None
    if isinstance(a, np.ndarray):
        if a.dtype != b.dtype:
            return f"{path}: dtype {a.dtype} vs {b.dtype}"
        if a.shape != b.shape:
            return f"{path}: shape {a.shape} vs {b.shape}"
        if not _arr_equal(a, b):
            return f"{path}: values {a!r} vs {b!r}"
        return None
    if isinstance(a, (pd.Series, pd.Index)):
        if not a.equals(b) or a.dtype != b.dtype:
            return f"{path}: pandas object differs"
        return None
    if isinstance(a, tuple) and hasattr(a, "_fields"):
        if a._fields != b._fields:
            return f"{path}: fields"
        return same(tuple(a), tuple(b), path + "<nt>")
    if isinstance(a, (list, tuple)):
        if len(a) != len(b):
            return f"{path}: len {len(a)} vs {len(b)}"
        for i, (x, y) in enumerate(zip(a, b)):
            d = same(x, y, f"{path}[{i}]")
            if d:
                return d
        return None
    if isinstance(a, dict):
        if list(a) != list(b):
            return f"{path}: keys"
        for k in a:
            d = same(a[k], b[k], f"{path}[{k!r}]")
            if d:
                return d
        return None
    if hasattr(a, "_members") and ta.__name__ == "ClimatologyConfig":
        return same(list(a._members), list(b._members), path + "._members")
    if isinstance(a, types.SimpleNamespace):
        return same(vars(a), vars(b), path + ".ns")
    if isinstance(a, types.GeneratorType) or ta.__name__ in ("list_iterator", "map"):
        return None
    if _isnat(a) or _isnat(b):
        return None if (_isnat(a) and _isnat(b)) else f"{path}: NaT vs value"
    if isinstance(a, float) or isinstance(a, np.floating):
        if (a != a) and (b != b):
            return None
        if a == b and np.signbit(a) == np.signbit(b):
            return None
        return f"{path}: {a!r} vs {b!r}"
    try:
        eq = a == b
        if isinstance(eq, (bool, np.bool_)) and eq:
            return None
    except Exception:  # noqa: BLE001
        pass
    if repr(a) == repr(b):
        return None
    return f"{path}: {a!r} vs {b!r}"


def _arr_equal(a, b) -> bool:
    if a.dtype.kind in "fc":
        return bool(np.array_equal(a, b, equal_nan=True)) and bool(np.array_equal(np.signbit(a), np.signbit(b)))
    if a.dtype.kind in "mM":
        return bool(np.array_equal(a.view("i8"), b.view("i8")))
    if a.dtype.kind == "O":
        if a.shape != b.shape:
            return False
        return all(same(x, y) is None for x, y in zip(a.ravel().tolist(), b.ravel().tolist()))
    return bool(np.array_equal(a, b))


def call(fn, args, kwargs):
    handler = _ListHandler()
    logger = logging.getLogger("ioos_qc")
    logger.addHandler(handler)
    old_level = logger.level
    logger.setLevel(1)
    try:
        with warnings.catch_warnings(record=True) as wlist:
            warnings.simplefilter("always")
            try:
                out = ("ok", fn(*args, **kwargs))
            except Exception as e:  # noqa: BLE001
                ctx = type(e.__context__).__name__ if e.__context__ is not None else None
                out = ("exc", type(e).__name__, str(e), ctx)
        warns = sorted({(w.category.__name__, str(w.message)) for w in wlist})
    finally:
        logger.removeHandler(handler)
        logger.setLevel(old_level)
    return out, warns, handler.records


class Stats:
    def __init__(self) -> None:
        self.n = 0
        self.exc = {}
        self.msg_diffs = 0
        self.texts = {}
        self.flags = {}
        self.failures = []


def _count_flags(stats, res) -> None:
    """Histogram of the flag values seen in successful results (coverage information only)."""
    if isinstance(res, list) and res and isinstance(res[0], np.ndarray):
        res = res[0]
    if isinstance(res, np.ndarray) and res.dtype.kind in "iu":
        for v in np.unique(np.asarray(res)).tolist():
            stats.flags[v] = stats.flags.get(v, 0) + 1


def _snap(x):
    """Deep copy for the mutation check; one-shot iterators are kept as they are."""
    if type(x) is tuple:
        return tuple(_snap(i) for i in x)
    if type(x) is list:
        return [_snap(i) for i in x]
    if type(x) is dict:
        return {k: _snap(v) for k, v in x.items()}
    try:
        return copy.deepcopy(x)
    except TypeError:
        return x


def compare_case(name, stats, make):
    """``make(mod)`` -> (fn, args, kwargs, post) built freshly for module ``mod`` (O or R)."""
    outs = []
    for mod in (O, R):
        fn, args, kwargs, post = make(mod)
        before = _snap((args, kwargs))
        res, warns, logs = call(fn, args, kwargs)
        mutated = same(before, (args, kwargs), "args")
        extra = post(res, args, kwargs) if post else None
        outs.append((res, warns, logs, mutated, extra))
    (ro, wo, lo, mo, eo), (rr, wr, lr, mr, er) = outs
    stats.n += 1
    problem = None
    if ro[0] != rr[0]:
        problem = f"outcome {ro[:3]!r} vs {rr[:3]!r}"
    elif ro[0] == "exc":
        stats.exc[ro[1]] = stats.exc.get(ro[1], 0) + 1
        stats.texts[ro[2][:70]] = stats.texts.get(ro[2][:70], 0) + 1
        if ro[1] != rr[1]:
            problem = f"exception type {ro[1]}({ro[2]}) vs {rr[1]}({rr[2]})"
        elif ro[3] != rr[3]:
            problem = f"exception context {ro[3]} vs {rr[3]}"
        elif ro[2] != rr[2]:
            stats.msg_diffs += 1
            # the text of an error is only allowed to differ for index errors raised by numpy
            if ro[1] not in ("IndexError",):
                problem = f"exception text {ro[2]!r} vs {rr[2]!r}"
    else:
        problem = same(ro[1], rr[1], "result")
        _count_flags(stats, ro[1])
    if problem is None and wo != wr:
        problem = f"warnings {wo} vs {wr}"
    if problem is None and lo != lr:
        problem = f"logs {lo} vs {lr}"
    if problem is None and (mo is None) != (mr is None):
        problem = f"argument mutation {mo} vs {mr}"
    if problem is None and eo is not None:
        problem = same(eo, er, "post")
    if problem is not None:
        fn, args, kwargs, _ = make(R)
        stats.failures.append(f"{name}: {problem}\n    args={args!r}\n    kwargs={kwargs!r}")
    return problem is None


# --------------------------------------------------------------------------------------
# generators
# --------------------------------------------------------------------------------------
NAN = float("nan")
INF = float("inf")
NUMS = [
    0.0, -0.0, 0.1, 0.2, 0.3, 0.1 + 0.2, 0.30000000000000004, 0.7, 1.0, 1, 2, 2.3, 2.3000000000000003,
    2.2999999999999998, 3, 4.5, 5, -5, -0.1, -2.3, 10, 10.000000000000002, 9.999999999999998, 20, 50, 100,
    -100, 179.9, 180, 180.00000000000003, -180, 90, -90, 90.00000000000001, 1e-9, 5e-324, 1e15, 1e16 + 2,
    1e308, -1e308, 1.7976931348623157e308, -1.7976931348623157e308, 8.98846567431158e307,
]  # fmt: skip
BAD = [NAN, NAN, None, INF, -INF]
THRESH = [0, 0.1, 0.3, 0.30000000000000004, 1, 2, 2.3, 3, 5, 10, 100, 1e308, -1, 0.0, 1e-9, NAN, INF, 0.5, 2.0, 7]


def pick(rng, seq):
    return seq[int(rng.integers(len(seq)))]


def gen_values(rng, n, p_bad=0.2, allow_none=True):
    out = []
    for _ in range(n):
        if rng.random() < p_bad:
            v = pick(rng, BAD)
            if v is None and not allow_none:
                v = NAN
        elif rng.random() < 0.25 and out:
            v = out[-1] if not isinstance(out[-1], type(None)) else 1.0  # repeats (flat lines)
        elif rng.random() < 0.2:
            v = float(np.round(rng.normal(0, 3), int(rng.integers(0, 3))))
        else:
            v = pick(rng, NUMS)
        out.append(v)
    return out


def wrap_values(rng, vals, shape=None):
    """Return the values in one of many containers."""
    n = len(vals)
    has_none = any(v is None for v in vals)
    kind = int(rng.integers(0, 14))
    fl = [NAN if v is None else float(v) for v in vals]
    if shape is not None:
        arr = np.array(fl, dtype=np.float64).reshape(shape)
        k = int(rng.integers(0, 6))
        if k == 0:
            return np.asfortranarray(arr)
        if k == 1:
            return arr.tolist()
        if k == 2:
            return np.ma.masked_array(arr, mask=rng.random(arr.shape) < 0.2)
        if k == 3 and arr.ndim == 2:
            return np.ascontiguousarray(arr.T).T  # F-ordered, not owning in C order
        if k == 4 and arr.ndim >= 1:
            big = np.zeros(tuple(2 * s for s in arr.shape))
            view = big[tuple(slice(None, None, 2) for _ in arr.shape)]
            view[...] = arr
            return view  # non contiguous
        return arr
    if kind == 0:
        return list(vals)
    if kind == 1:
        return tuple(vals)
    if kind == 2:
        return np.array(fl, dtype=np.float64)
    if kind == 3:
        with np.errstate(over="ignore"), warnings.catch_warnings():
            warnings.simplefilter("ignore")
            return np.array(fl, dtype=np.float32)
    if kind == 4:
        return np.array(vals, dtype=object)
    if kind == 5:
        return np.ma.masked_array(np.array(fl), mask=rng.random(n) < 0.25)
    if kind == 6:
        return np.ma.masked_invalid(np.array(fl))
    if kind == 7:
        return pd.Series(fl, dtype="float64")
    if kind == 8:
        return pd.Series(fl, index=np.arange(n)[::-1] * 3, dtype="float64")
    if kind == 9 and not has_none and all(v == v and abs(v) < 1e15 for v in fl):
        return np.array([int(v) for v in fl], dtype=np.int64)
    if kind == 10 and not has_none and all(v == v and 0 <= v < 200 for v in fl):
        return np.array([int(v) for v in fl], dtype=np.uint8)
    if kind == 11:
        return np.array(fl)[::-1][::-1]  # a view
    if kind == 12:
        return [str(v) if v is not None else "nan" for v in vals] if rng.random() < 0.5 else list(fl)
    return list(fl)


T0 = np.datetime64("2020-03-01T00:00:00", "ns")
STEPS_S = [0, 1, 1, 1, 2, 5, 10, 30, 60, 60, 600, 3600, 3600, 86400, 86400 * 7, 0.5, 1.5, 0.999999999, 59.9, 1e-9]
UNITS = ["ns", "us", "ms", "s", "m", "h", "D"]


def gen_times(rng, n, force_plain=False):
    """n time stamps in a random representation; returns the object to pass as tinp."""
    mode = int(rng.integers(0, 6))
    if mode == 0:  # regular
        step = pick(rng, [1, 1, 10, 60, 3600, 86400, 0.5, 30])
        offs = np.arange(n) * step
    elif mode == 1:
        offs = np.cumsum([pick(rng, STEPS_S) for _ in range(n)])
    elif mode == 2:  # coarse so that coarse units keep differences
        offs = np.cumsum([pick(rng, [3600, 86400, 86400 * 2, 60, 7200]) for _ in range(n)])
    elif mode == 3:  # duplicates
        offs = np.sort(rng.integers(0, 4, n)) * pick(rng, [1, 60, 86400])
    elif mode == 4:  # unsorted
        offs = rng.permutation(np.arange(n)) * pick(rng, [1, 10, 3600, 86400])
    else:  # far apart / around year ends (week numbers!)
        offs = np.cumsum([pick(rng, [86400 * 30, 86400 * 180, 86400 * 366, 86400 * 3]) for _ in range(n)])
    base = T0 + np.timedelta64(int(pick(rng, [0, 0, -86400 * 62, 86400 * 300, 86400 * 305, 12 * 3600])), "s")
    ns = (np.asarray(offs, dtype=np.float64) * 1e9).round().astype("int64")
    stamps = base + ns.astype("timedelta64[ns]")
    stamps = np.asarray(stamps, dtype="datetime64[ns]").reshape(n)
    if rng.random() < 0.12 and n:
        k = int(rng.integers(0, n))
        stamps = stamps.copy()
        stamps[k] = np.datetime64("NaT")
        if rng.random() < 0.3:
            stamps[int(rng.integers(0, n))] = np.datetime64("NaT")
    if rng.random() < 0.05:  # wrong length
        stamps = stamps[:-1] if (n and rng.random() < 0.5) else np.concatenate([stamps, stamps[:1] if n else [T0]])
    rep = int(rng.integers(0, 16)) if not force_plain else int(rng.integers(0, 2))
    has_nat = bool(np.isnat(stamps).any())
    if rep == 0:
        return stamps
    if rep == 1:
        return stamps.astype(f"datetime64[{pick(rng, UNITS)}]")
    if rep == 2:
        return pd.DatetimeIndex(stamps)
    if rep == 3:
        return pd.DatetimeIndex(stamps).tz_localize("UTC")
    if rep == 4:
        return pd.Series(pd.DatetimeIndex(stamps).tz_localize("UTC"))
    if rep == 5:
        return pd.Series(stamps)
    if rep == 6:
        return pd.DatetimeIndex(stamps).tz_localize("UTC").tz_convert("US/Eastern")
    if rep == 7:
        return [pd.Timestamp(s) for s in stamps]
    if rep == 8 and not has_nat:
        return [pd.Timestamp(s).to_pydatetime() for s in stamps]
    if rep == 9:
        return [pd.Timestamp(s, tz="UTC") for s in stamps] if not has_nat else list(stamps)
    if rep == 10 and not has_nat:  # epoch seconds
        secs = stamps.astype("int64") / 1e9
        return secs if rng.random() < 0.5 else secs.tolist()
    if rep == 11 and not has_nat:
        return (stamps.astype("int64") // 10**9).astype("int64")
    if rep == 12:
        return [str(s) for s in stamps]
    if rep == 13:
        return stamps.astype(f"datetime64[{pick(rng, ['s', 'm', 'h', 'D'])}]")
    if rep == 14:
        return pd.DatetimeIndex(stamps.astype("datetime64[s]"))
    return np.ma.masked_array(stamps, mask=np.zeros(stamps.shape, bool)) if rng.random() < 0.3 else stamps


def shuffled_kwargs(rng, kwargs):
    keys = list(kwargs)
    order = rng.permutation(len(keys))
    return {keys[i]: kwargs[keys[i]] for i in order}


def gen_span(rng, pool=None, p_bad=0.06):
    pool = pool or NUMS
    r = rng.random()
    if r < p_bad:
        return pick(
            rng,
            [(1,), (1, 2, 3), "ab", None, [None, 1], (1, "a"), np.array([1, 2]), (NAN, 1), (1, NAN), (NAN, NAN), 5, [], ((1, 2), (3, 4))],
        )
    a, b = pick(rng, pool), pick(rng, pool)
    if rng.random() < 0.7 and a > b:
        a, b = b, a
    return (a, b) if rng.random() < 0.6 else [a, b]


# ---- individual functions ------------------------------------------------------------
def case_gross_range(rng):
    n = int(rng.integers(0, 9))
    vals = gen_values(rng, n)
    if rng.random() < 0.15:
        shape = pick(rng, [(2, 2), (2, 3), (1, 4), (2, 1, 2), (0, 3), ()])
        m = int(np.prod(shape))
        inp = wrap_values(rng, gen_values(rng, m), shape=shape)
    elif rng.random() < 0.03:
        inp = pick(rng, [5, 2.3, NAN, None, "abc", ["a", "b"], [[1, 2], [3]], {"a": 1}])
    else:
        inp = wrap_values(rng, vals)
    pool = [v for v in vals if v is not None and v == v and abs(v) != INF] or NUMS
    pool = pool + [0.1, 0.3, 2.3, 10, -5, 1e308, -1e308]
    fail_span = gen_span(rng, pool)
    if rng.random() < 0.35:
        suspect_span = None
        kwargs = {"inp": inp, "fail_span": fail_span}
        if rng.random() < 0.5:
            kwargs["suspect_span"] = None
    else:
        suspect_span = gen_span(rng, pool)
        if rng.random() < 0.8 and isinstance(fail_span, (tuple, list)) and len(fail_span) == 2:
            try:
                lo, hi = sorted(fail_span)
                cands = [v for v in pool if lo <= v <= hi] or [lo, hi]
                suspect_span = (pick(rng, cands), pick(rng, cands))
            except TypeError:
                pass
        kwargs = {"inp": inp, "fail_span": fail_span, "suspect_span": suspect_span}
    kwargs = shuffled_kwargs(rng, kwargs)
    if rng.random() < 0.3:
        args = (kwargs.pop("inp"), kwargs.pop("fail_span"))
    else:
        args = ()
    return lambda mod: (mod.gross_range_test, copy.deepcopy(args), copy.deepcopy(kwargs), None)


def case_location(rng):
    r = rng.random()
    lonpool = [-180, 180, 180.00000000000003, -180.00000000000003, 0, 0.1, 0.3, -70.5, 179.9, 200, -200, 1e308, 45, 10, 10.000000000000002]
    latpool = [-90, 90, 90.00000000000001, 0, 0.1, 0.3, 41.5, 89.9, 100, -100, -1e308, 45, 20, 19.999999999999996]

    tight = rng.random() < 0.4
    if tight:
        lonpool = [-70.5, -70.4, -70.45, -70.5, -70.0, 0.1, 0.3]
        latpool = [41.5, 41.6, 41.55, 41.5, 42.0, 0.1, 0.3]
    bad_at = rng.random(64) < 0.2
    calls = [0]

    def coords(n, pool):
        calls[0] += 1
        out = []
        for i in range(n):
            # the second call (lat) is bad where the first one (lon) was bad half of the time
            if calls[0] == 2 and i < 64 and bad_at[i]:
                bad = rng.random() < 0.6
            elif calls[0] == 1 and i < 64:
                bad = bool(bad_at[i])
            else:
                bad = rng.random() < 0.1
            out.append(pick(rng, BAD) if bad else pick(rng, pool))
        return out

    if r < 0.35:  # N-D / Fortran / strided
        shape = pick(rng, [(2, 2), (2, 3), (3, 2), (1, 4), (2, 1, 2), (2, 2, 2), (0, 3), (), (4, 1)])
        m = int(np.prod(shape))
        lon = wrap_values(rng, coords(m, lonpool), shape=shape)
        shape2 = shape if rng.random() < 0.9 else pick(rng, [(m,), shape[::-1]])
        lat = wrap_values(rng, coords(m, latpool), shape=shape2)
    else:
        n = int(rng.integers(0, 9))
        lon = wrap_values(rng, coords(n, lonpool))
        n2 = n if rng.random() < 0.92 else int(rng.integers(0, 9))
        lat = wrap_values(rng, coords(n2, latpool))
    kwargs = {"lon": lon, "lat": lat}
    r = rng.random()
    if r < 0.45:
        a, b = sorted([pick(rng, lonpool[:12]), pick(rng, lonpool[:12])])
        c, d = sorted([pick(rng, latpool[:12]), pick(rng, latpool[:12])])
        bb = (a, c, b, d)
        if rng.random() < 0.2:
            bb = (b, d, a, c)
        kwargs["bbox"] = bb if rng.random() < 0.5 else list(bb)
    elif r < 0.55:
        kwargs["bbox"] = pick(
            rng,
            [None, (1, 2, 3), "abcd", (0, "a", 1, 2), (-180, -90, 180), np.array([-180, -90, 180, 90]), (NAN, NAN, NAN, NAN), (-INF, -INF, INF, INF), (None, 0, 1, 2), (-180, -90, [1, 2, 3], 90)],
        )
    if rng.random() < (0.7 if tight else 0.3):
        kwargs["range_max"] = pick(rng, [None, 0, 1, 1000, 111194.9, 1e5, 1e7, 1e308, NAN, 2.3, 15725.0, 8000, 9000.5, 12000])
    kwargs = shuffled_kwargs(rng, kwargs)
    if rng.random() < 0.3:
        args = (kwargs.pop("lon"), kwargs.pop("lat"))
    else:
        args = ()
    return lambda mod: (mod.location_test, copy.deepcopy(args), copy.deepcopy(kwargs), None)


def case_spike(rng):
    n = int(rng.integers(0, 9))
    if rng.random() < 0.1:
        shape = pick(rng, [(2, 2), (2, 3), (2, 1, 2), (0, 3), ()])
        inp = wrap_values(rng, gen_values(rng, int(np.prod(shape))), shape=shape)
    elif rng.random() < 0.02:
        inp = pick(rng, [5, NAN, None, "abc", ["a", "b"]])
    else:
        inp = wrap_values(rng, gen_values(rng, n))
    kwargs = {"inp": inp}
    for k in ("suspect_threshold", "fail_threshold"):
        r = rng.random()
        if r < 0.2:
            pass
        elif r < 0.3:
            kwargs[k] = None
        elif r < 0.33:
            kwargs[k] = pick(rng, ["a", [1, 2], np.array([1.0, 2.0, 3.0]), np.array([0.3]), np.array(2.3), np.full(n, 0.3), np.ma.masked_array([0.3], mask=[True]), np.array([[0.3]])])
        else:
            kwargs[k] = pick(rng, THRESH)
    r = rng.random()
    if r < 0.4:
        kwargs["method"] = "differential"
    elif r < 0.6:
        kwargs["method"] = "average"
    elif r < 0.65:
        kwargs["method"] = pick(rng, ["Average", "", None, 1, ("average",), "diff{}erential", ["average"]])
    kwargs = shuffled_kwargs(rng, kwargs)
    args = (kwargs.pop("inp"),) if rng.random() < 0.3 else ()
    return lambda mod: (mod.spike_test, copy.deepcopy(args), copy.deepcopy(kwargs), None)


def case_roc(rng):
    n = int(rng.integers(0, 9))
    if rng.random() < 0.08:
        shape = pick(rng, [(2, 2), (2, 3), (2, 1, 2), (0, 3)])
        m = int(np.prod(shape))
        inp = wrap_values(rng, gen_values(rng, m), shape=shape)
        tinp = gen_times(rng, m, force_plain=True)
        if isinstance(tinp, np.ndarray) and tinp.size == m and rng.random() < 0.7:
            tinp = tinp.reshape(shape)
            if rng.random() < 0.5:
                tinp = np.asfortranarray(tinp)
    else:
        inp = wrap_values(rng, gen_values(rng, n))
        tinp = gen_times(rng, n)
    r = rng.random()
    if r < 0.04:
        thr = pick(rng, [None, "a", [1, 2], np.array([0.01]), np.full(n, 0.01), np.array(0.01), np.array([[0.01]]), [0.01]])
    else:
        thr = pick(rng, THRESH + [0.01, 0.001, 1 / 3600, 1 / 86400, 2.3 / 60, 0.1 / 10, 0.05, 1e-5])
    kwargs = shuffled_kwargs(rng, {"inp": inp, "tinp": tinp, "threshold": thr})
    args = (kwargs.pop("inp"), kwargs.pop("tinp")) if rng.random() < 0.3 else ()
    return lambda mod: (mod.rate_of_change_test, copy.deepcopy(args), copy.deepcopy(kwargs), None)


def case_flat_line(rng):
    n = int(rng.integers(0, 9))
    if rng.random() < 0.08:
        shape = pick(rng, [(2, 2), (2, 3), (2, 1, 2), (0, 3), (3, 2)])
        m = int(np.prod(shape))
        inp = wrap_values(rng, gen_values(rng, m, p_bad=0.1), shape=shape)
        tinp = gen_times(rng, m, force_plain=True)
        if isinstance(tinp, np.ndarray) and tinp.size == m and rng.random() < 0.7:
            tinp = tinp.reshape(shape)
    else:
        inp = wrap_values(rng, gen_values(rng, n, p_bad=0.12))
        tinp = gen_times(rng, n)
    tpool = [0, 1, 2, 3, 5, 10, 20, 30, 60, 61, 119, 120, 600, 3600, 7200, 86400, 172800, 1.5, 2.9, "3", 3.0, 1e6]
    if rng.random() < 0.06:
        tinp = gen_times(rng, pick(rng, [0, 1, 2, 3, n + 2]))  # the time axis is not checked against inp
    kwargs = {"inp": inp, "tinp": tinp}
    for k in ("suspect_threshold", "fail_threshold"):
        r = rng.random()
        if r < 0.04:
            kwargs[k] = pick(rng, [None, NAN, INF, -1, -60, "a", [1]])
        else:
            kwargs[k] = pick(rng, tpool)
    if rng.random() < 0.5:
        # regularly sampled series with long flat stretches and thresholds of a few samples
        n = int(rng.integers(3, 9))
        step = pick(rng, [1, 10, 60, 3600, 86400])
        level, vals = pick(rng, [0.1, 0.3, 2.3, 1e308, 5]), []
        for _ in range(n):
            r = rng.random()
            if r < 0.15:
                level = pick(rng, NUMS)
            elif r < 0.3:
                level = level + pick(rng, [0.1, -0.1, 1e-9, 0.05])
            vals.append(NAN if rng.random() < 0.08 else level)
        kwargs["inp"] = wrap_values(rng, vals)
        stamps = T0 + (np.arange(n) * step).astype("timedelta64[s]")
        unit = pick(rng, ["ns", "s", "ms"] + (["m"] if step >= 60 else []) + (["h"] if step >= 3600 else []) + (["D"] if step >= 86400 else []))
        stamps = stamps.astype(f"datetime64[{unit}]")
        kwargs["tinp"] = pick(rng, [stamps, pd.DatetimeIndex(stamps), pd.DatetimeIndex(stamps).tz_localize("UTC"), (np.arange(n) * step).tolist(), pd.Series(stamps)])
        k1 = int(rng.integers(1, 4))
        kwargs["suspect_threshold"] = step * k1
        kwargs["fail_threshold"] = step * (k1 + int(rng.integers(0, 3)))
    r = rng.random()
    if r < 0.25:
        pass
    elif r < 0.3:
        kwargs["tolerance"] = pick(rng, [None, "a", np.array([[0.5]]), np.array([0.5]), [1, 2], NAN, INF, -1, np.array([[0.5], [0.5]]), np.array(0.5), [0.5], np.full(max(n - 2, 0), 0.5), np.full(n, 0.5)])
    else:
        kwargs["tolerance"] = pick(rng, [0, 0.1, 0.3, 0.30000000000000004, 1e-9, 1, 2.3, 0.01, 10, 1e308, 5e-324, 0.20000000000000018, 0.2])
    kwargs = shuffled_kwargs(rng, kwargs)
    args = (kwargs.pop("inp"), kwargs.pop("tinp")) if rng.random() < 0.3 else ()
    return lambda mod: (mod.flat_line_test, copy.deepcopy(args), copy.deepcopy(kwargs), None)


def case_attenuated(rng):
    n = int(rng.integers(0, 9))
    if rng.random() < 0.08:
        shape = pick(rng, [(2, 2), (2, 3), (0, 3), (), (1, 3)])
        m = int(np.prod(shape))
        inp = wrap_values(rng, gen_values(rng, m, p_bad=0.1), shape=shape)
        tinp = gen_times(rng, m, force_plain=True)
        if isinstance(tinp, np.ndarray) and tinp.size == m and rng.random() < 0.7:
            tinp = tinp.reshape(shape)
    else:
        inp = wrap_values(rng, gen_values(rng, n, p_bad=0.15))
        tinp = gen_times(rng, n)
    kwargs = {"inp": inp, "tinp": tinp}
    for k in ("suspect_threshold", "fail_threshold"):
        kwargs[k] = pick(rng, THRESH) if rng.random() > 0.04 else pick(rng, [None, "a", [1, 2], np.array([0.3]), np.full(n, 0.3), np.array(0.3), [0.3]])
    r = rng.random()
    if r < 0.55:
        kwargs["test_period"] = pick(rng, [1, 2, 5, 10, 60, 61, 3600, 86400, 1, 2, 5, 10, 60, 61, 3600, 86400, 20, 30, 120, 0, None, 1.5, "10", 172800, 0.5, -5, True, np.int64(30), (60,)])
        r2 = rng.random()
        if r2 < 0.3:
            kwargs["min_obs"] = pick(rng, [None, 0, 1, 2, 3, 5, 100, 2.0, -1, "a"])
        if r2 > 0.2 and rng.random() < 0.5:
            kwargs["min_period"] = pick(rng, [None, 0, 1, 2, 10, 60, 120, 3600, 86400, 1.5, -5])
    elif r < 0.65:
        kwargs["min_obs"] = 2
        kwargs["min_period"] = 60
    r = rng.random()
    if r < 0.35:
        kwargs["check_type"] = "range"
    elif r < 0.5:
        kwargs["check_type"] = "std"
    elif r < 0.55:
        kwargs["check_type"] = pick(rng, ["Std", "", None, ["std"], "ra{}nge", ("range",), 1])
    kwargs = shuffled_kwargs(rng, kwargs)
    args = (kwargs.pop("inp"), kwargs.pop("tinp")) if rng.random() < 0.3 else ()
    if rng.random() < 0.03:
        kwargs["extra"] = 1
    return lambda mod: (mod.attenuated_signal_test, copy.deepcopy(args), copy.deepcopy(kwargs), None)


# ---- climatology ---------------------------------------------------------------------
PERIODS = ["year", "week", "weekofyear", "dayofyear", "dayofweek", "quarter", "month", "hour", "day"]
DATES = [
    "2020-01-01", "2020-03-01", "2020-03-01T00:00:10", "2020-03-02", "2020-04-01", "2021-01-01", "2019-12-30",
    "2020-12-28", "2020-12-31T23:59:59", "2020-03-01T00:01:00", "2020-03-08", "2020-06-01", "2022-01-01",
]  # fmt: skip


def gen_date(rng):
    s = pick(rng, DATES)
    k = int(rng.integers(0, 8))
    if k == 0:
        return pd.Timestamp(s)
    if k == 1:
        return np.datetime64(s)
    if k == 2:
        return pd.Timestamp(s).to_pydatetime()
    if k == 3 and rng.random() < 0.08:
        return pd.Timestamp(s, tz="UTC")
    if k == 4 and rng.random() < 0.1:
        return pick(rng, ["NaT", None, "not a date", 1583020800, pd.NaT])
    return s


def gen_member(rng, zpool):
    d = {}
    r = rng.random()
    if r < 0.5:
        a, b = gen_date(rng), gen_date(rng)
        d["tspan"] = (a, b) if rng.random() < 0.7 else [a, b]
    else:
        p = pick(rng, PERIODS) if rng.random() > 0.05 else pick(rng, ["bogus", "", 1, None, "tz_localize", ["week"]])
        if p is not None:
            d["period"] = p
        rngs = {
            "year": [2019, 2020, 2021, 2022],
            "week": [1, 9, 10, 11, 14, 52, 53],
            "weekofyear": [1, 9, 10, 11, 14, 52, 53],
            "dayofyear": [1, 60, 61, 62, 100, 366],
            "dayofweek": [0, 1, 5, 6],
            "quarter": [1, 2, 4],
            "month": [1, 3, 4, 12],
            "hour": [0, 1, 12, 23],
            "day": [1, 2, 28, 31],
        }.get(p if isinstance(p, str) else "", [0, 1, 10, 60, 2020])
        a, b = pick(rng, rngs), pick(rng, rngs)
        if rng.random() < 0.1:
            a = float(a) + 0.5
        d["tspan"] = (a, b) if rng.random() < 0.7 else [a, b]
    if rng.random() < 0.03:
        d["tspan"] = pick(rng, [(1,), "ab", None, (1, 2, 3), ("2020-01-01", 5), (None, None)])
    if rng.random() < 0.5:  # a member that is likely to apply to the generated data
        if "period" not in d:
            d["tspan"] = pick(rng, [("2019-01-01", "2022-06-01"), ("2020-03-01", "2020-03-01T00:00:30"), (pd.Timestamp("2020-01-01"), np.datetime64("2021-01-01"))])
        elif isinstance(d["period"], str) and d["period"] in PERIODS:
            d["tspan"] = (0, 3000)
        lo, hi = sorted([pick(rng, NUMS[:30]), pick(rng, NUMS[:30])])
        d["vspan"] = (lo, hi)
        if rng.random() < 0.6:
            d["fspan"] = (min(lo, pick(rng, [-5, -100, 0, 0.1])), max(hi, pick(rng, [5, 10, 100, 2.3, 1e308])))
    else:
        d["vspan"] = gen_span(rng, p_bad=0.03)
        if rng.random() < 0.5:
            d["fspan"] = gen_span(rng, p_bad=0.03) if rng.random() > 0.1 else None
    if rng.random() < 0.45:
        d["zspan"] = gen_span(rng, zpool, p_bad=0.03) if rng.random() > 0.1 else None
    if rng.random() < 0.006:
        d["bogus_key"] = 1
    if rng.random() < 0.006:
        d.pop("vspan")
    return shuffled_kwargs(rng, d)


ZPOOL = [0, 0.0, 5, 10, 10.000000000000002, 20, 50, 100, 0.1, 0.3, 2.3, -5, 1e308, 1000]


def build_config(mod, members, as_object):
    if not as_object:
        return copy.deepcopy(members)
    c = mod.ClimatologyConfig()
    for m in members:
        c.add(**copy.deepcopy(m))
    return c


def case_climatology(rng):
    n = int(rng.integers(0, 9))
    shape = None
    if rng.random() < 0.1:
        shape = pick(rng, [(2, 2), (2, 3), (2, 1, 2), (0, 3), ()])
        n = int(np.prod(shape))
    inp = wrap_values(rng, gen_values(rng, n), shape=shape)
    zvals = [pick(rng, BAD) if rng.random() < 0.2 else pick(rng, ZPOOL) for _ in range(n)]
    r = rng.random()
    if r < 0.15:
        zinp = [NAN] * n if rng.random() < 0.5 else np.ma.masked_all(shape if shape is not None else (n,))
    elif r < 0.2:
        zinp = wrap_values(rng, zvals[:-1] if n else [1.0])
    else:
        zinp = wrap_values(rng, zvals, shape=shape)
    tinp = gen_times(rng, n, force_plain=shape is not None)
    if shape is not None and isinstance(tinp, np.ndarray) and tinp.size == n and rng.random() < 0.7:
        tinp = tinp.reshape(shape)
    if shape is None and rng.random() < 0.15:
        # the lengths of the three inputs are not checked against each other: mix 0 / 1 / n
        tinp = gen_times(rng, pick(rng, [0, 1, 1, n]))
        zinp = wrap_values(rng, [pick(rng, ZPOOL + [NAN]) for _ in range(pick(rng, [0, 1, 1, n]))])
        if rng.random() < 0.4:
            inp = wrap_values(rng, gen_values(rng, pick(rng, [0, 1])))
    members = [gen_member(rng, ZPOOL) for _ in range(int(rng.integers(0, 4)))]
    as_object = rng.random() < 0.4
    if rng.random() < 0.02:
        members = pick(rng, [None, 5, "abc", [1, 2], {"tspan": (1, 2)}])
        as_object = False
    kw = shuffled_kwargs(rng, {"inp": inp, "tinp": tinp, "zinp": zinp})
    positional = rng.random() < 0.4

    def make(mod):
        # building the config object may itself fail; do that inside the compared call
        def fn(**k):
            cfg = build_config(mod, members, as_object)
            k = copy.deepcopy(k)
            if positional:
                return mod.climatology_test(cfg, k.pop("inp"), k.pop("tinp"), **k)
            return mod.climatology_test(config=cfg, **k)

        return fn, (), copy.deepcopy(kw), None

    return make


def case_cc_add(rng):
    pre = [gen_member(rng, ZPOOL) for _ in range(int(rng.integers(0, 2)))]
    m = gen_member(rng, ZPOOL)
    positional = rng.random() < 0.3

    def make(mod):
        def fn(**k):
            c = mod.ClimatologyConfig()
            for p in pre:
                try:
                    c.add(**copy.deepcopy(p))
                except Exception:  # noqa: BLE001, S110
                    pass
            if positional and "tspan" in k and "vspan" in k:
                ret = c.add(k.pop("tspan"), k.pop("vspan"), **k)
            else:
                ret = c.add(**k)
            return [ret, list(c.members), [type(x).__name__ for x in c.members], [[type(f).__name__ for f in x] for x in c.members]]

        return fn, (), copy.deepcopy(m), None

    return make


def case_cc_convert(rng):
    members = [gen_member(rng, ZPOOL) for _ in range(int(rng.integers(0, 4)))]
    r = rng.random()
    kind = "obj" if r < 0.3 else ("gen" if r < 0.4 else ("tuple" if r < 0.5 else "list"))
    if rng.random() < 0.05:
        members = pick(rng, [None, 5, "abc", [1, 2], {"tspan": (1, 2)}, [None]])
        kind = "list"

    def make(mod):
        def fn():
            if kind == "obj":
                c = build_config(mod, [m for m in members if _addable(mod, m)], True)
                out = mod.ClimatologyConfig.convert(c)
                return [out is c, list(out.members)]
            if kind == "gen":
                src = (copy.deepcopy(m) for m in members)
            elif kind == "tuple":
                src = tuple(copy.deepcopy(members))
            else:
                src = copy.deepcopy(members)
            out = mod.ClimatologyConfig.convert(src)
            return [type(out).__name__, isinstance(out, mod.ClimatologyConfig), list(out.members)]

        return fn, (), {}, None

    return make


def _addable(mod, m) -> bool:
    try:
        mod.ClimatologyConfig().add(**copy.deepcopy(m))
    except Exception:  # noqa: BLE001
        return False
    return True


def case_cc_check(rng):
    """ClimatologyConfig.check called directly, also with input climatology_test would never pass."""
    n = int(rng.integers(0, 9))
    vals = gen_values(rng, n, allow_none=False)
    fl = np.array([float(v) for v in vals], dtype=np.float64)
    r = rng.random()
    if r < 0.75:
        inp = np.ma.masked_invalid(fl)
    elif r < 0.85:
        inp = np.ma.masked_array(fl)  # nomask
    elif r < 0.9:
        inp = np.ma.masked_array(fl, mask=rng.random(n) < 0.3)
    elif r < 0.95:
        inp = np.ma.masked_invalid(fl.astype(np.float32))
    else:
        inp = np.ma.masked_invalid(np.resize(fl, (2, max(n // 2, 1))))  # 2-D
    zn = n if rng.random() < 0.85 else pick(rng, [0, 1, 1, int(rng.integers(0, 9))])
    zv = np.array([NAN if rng.random() < 0.2 else float(pick(rng, ZPOOL)) for _ in range(zn)], dtype=np.float64)
    r = rng.random()
    if r < 0.7:
        zinp = np.ma.masked_invalid(zv)
    elif r < 0.8:
        zinp = np.ma.masked_all((zn,))
    elif r < 0.9:
        zinp = np.ma.masked_array(zv)
    else:
        zinp = np.ma.masked_invalid(np.full(zn, NAN))
    t = gen_times(rng, n if rng.random() < 0.88 else pick(rng, [0, 1, 1, 2]), force_plain=True)
    r = rng.random()
    if isinstance(t, np.ndarray) and r < 0.85:
        tinp = pd.DatetimeIndex(t.ravel())
        if r < 0.05:
            tinp = tinp.tz_localize("UTC")
    else:
        tinp = pd.DatetimeIndex(np.asarray(t).ravel()) if isinstance(t, np.ndarray) else t
    members = [gen_member(rng, ZPOOL) for _ in range(int(rng.integers(0, 4)))]
    manual = rng.random() < 0.15

    def make(mod):
        def fn(tinp, inp, zinp):
            if manual:
                mem = mod.ClimatologyConfig.mem
                sp = mod.span
                ms = [
                    mem(sp(1, 60), None, sp(0, 5), None, "dayofyear"),
                    mem(sp(pd.Timestamp("2020-01-01"), pd.Timestamp("2021-01-01")), sp(-1, 9), sp(0, 5), sp(0, 20), None),
                    mem(sp(9, 10), np.nan, sp(0, 5), np.ma.masked, "week"),
                    mem(sp(1, 3), None, sp(0.1, 2.3), None, "no_such_period"),
                ]
                c = mod.ClimatologyConfig(ms[: int(len(members)) + 1])
            else:
                c = build_config(mod, [m for m in members if _addable(mod, m)], True)
            before = list(c.members)
            out = c.check(tinp, inp, zinp)
            return [out, same(before, list(c.members)) is None]

        return fn, (copy.deepcopy(tinp), copy.deepcopy(inp), copy.deepcopy(zinp)), {}, None

    return make


# ---- qartod_compare / aggregate ----------------------------------------------------
FLAGV = [1, 2, 3, 4, 9, 1, 1, 4, 9, 2, 0, 5, 7, 255]


def gen_flag_vectors(rng):
    n = int(rng.integers(0, 9))
    k = int(rng.integers(1, 5)) if rng.random() > 0.04 else 0
    vecs = []
    for _ in range(k):
        m = n if rng.random() < 0.95 else int(rng.integers(0, 9))
        vals = [pick(rng, FLAGV) for _ in range(m)]
        kind = int(rng.integers(0, 12))
        if kind == 0:
            v = np.array(vals, dtype=np.uint8)
        elif kind == 1:
            v = np.ma.masked_array(np.array(vals, dtype=np.uint8), mask=rng.random(m) < 0.25)
        elif kind == 2:
            v = np.ma.masked_array(np.array(vals, dtype=np.uint8))
        elif kind == 3:
            v = np.array(vals, dtype=np.float64)
            if m and rng.random() < 0.5:
                v[int(rng.integers(0, m))] = NAN
        elif kind == 4:
            v = np.array(vals, dtype=np.int64)
        elif kind == 5:
            v = pd.Series(vals, dtype="int64")
        elif kind == 6:
            v = np.ma.masked_all((m,), dtype=np.uint8)
        elif kind == 7 and rng.random() < 0.15:
            v = pick(rng, [list(vals), np.array(vals, dtype=np.uint8).reshape(1, -1), np.array(3), None, np.array(vals, dtype=object)])
        elif kind == 8:
            v = np.ma.masked_array(np.array(vals, dtype=np.float64), mask=rng.random(m) < 0.25, fill_value=9)
        elif kind == 9:
            v = np.array([str(x) for x in vals]) if rng.random() < 0.1 else np.array(vals, dtype=np.int8)
        else:
            v = np.ma.masked_array(np.array(vals, dtype=np.uint8), mask=np.zeros(m, bool))
        vecs.append(v)
    return vecs


def _container(rng, vecs):
    r = rng.random()
    if r < 0.6:
        return "list"
    if r < 0.75:
        return "tuple"
    if r < 0.85:
        return "gen"
    if r < 0.95:
        return "2d"
    return "iter"


def _pack(kind, vecs):
    vecs = copy.deepcopy(vecs)
    if kind == "tuple":
        return tuple(vecs)
    if kind == "gen":
        return (v for v in vecs)
    if kind == "iter":
        return iter(vecs)
    if kind == "2d":
        try:
            arr = np.array([np.asarray(v) for v in vecs])
        except Exception:  # noqa: BLE001
            return vecs
        return arr if arr.ndim == 2 else vecs
    return vecs


def case_qartod_compare(rng):
    vecs = gen_flag_vectors(rng)
    kind = _container(rng, vecs)
    kw = rng.random() < 0.3

    def make(mod):
        packed = _pack(kind, vecs)
        if kw:
            return mod.qartod_compare, (), {"vectors": packed}, None
        return mod.qartod_compare, (packed,), {}, None

    return make


class _Res:
    __slots__ = ("results", "name")

    def __init__(self, results, name="x") -> None:
        self.results = results
        self.name = name

    def __repr__(self) -> str:
        return f"_Res({self.results!r})"

    def __eq__(self, other):
        return same(self.results, other.results) is None

    __hash__ = None


def case_aggregate(rng):
    vecs = gen_flag_vectors(rng)
    kind = _container(rng, vecs)
    if kind == "2d":
        kind = "list"
    style = int(rng.integers(0, 40))

    def make(mod):
        vs = copy.deepcopy(vecs)
        if style == 0:
            items = [types.SimpleNamespace(results=v) for v in vs]
        elif style == 1 and vs:
            items = [_Res(v) for v in vs[:-1]] + [object()]  # AttributeError
        elif style == 2:
            items = [{"results": v} for v in vs]  # AttributeError unless empty
        else:
            items = [_Res(v) for v in vs]
        if kind == "tuple":
            items = tuple(items)
        elif kind == "gen":
            items = (i for i in items)
        elif kind == "iter":
            items = iter(items)
        if style == 3:
            items = pick(np.random.default_rng(len(vs)), [None, 5])
        meta = (mod.aggregate.standard_name, mod.aggregate.long_name, mod.aggregate.aggregate)

        def fn(results):
            return [mod.aggregate(results), meta]

        return fn, (items,), {}, None

    return make


CASES = {
    "rate_of_change_test": case_roc,
    "gross_range_test": case_gross_range,
    "spike_test": case_spike,
    "flat_line_test": case_flat_line,
    "location_test": case_location,
    "ClimatologyConfig.add": case_cc_add,
    "ClimatologyConfig.convert": case_cc_convert,
    "ClimatologyConfig.check": case_cc_check,
    "climatology_test": case_climatology,
    "qartod_compare": case_qartod_compare,
    "aggregate": case_aggregate,
    "attenuated_signal_test": case_attenuated,
}


def fixed_cases():
    """Hand written inputs that must be covered whatever the random draw."""
    t5 = np.array(["2020-03-01T00:00:00", "2020-03-01T00:00:10", "2020-03-01T00:00:20", "2020-03-01T00:00:30", "2020-03-01T00:00:40"], dtype="datetime64[ns]")
    out = []

    def add(name, fname, *a, **k):
        out.append((name, lambda mod: (_resolve(mod, fname), copy.deepcopy(a), copy.deepcopy(k), None)))

    for unit in ["s", "m", "h", "D", "ns"]:
        tt = np.array(["2020-03-01T00", "2020-03-02T12", "2020-03-04T00", "NaT", "2020-03-01T00"], dtype=f"datetime64[{unit}]")
        add("rate_of_change_test", "rate_of_change_test", [1, 2.3, 2.4, 5, 7], tt, 0.1 / 86400)
        add("flat_line_test", "flat_line_test", [1, 1, 1, 1, 1.05], tt, 86400, 172800, 0.1)
        add("attenuated_signal_test", "attenuated_signal_test", [1, 1, 1, 1, 1.05], tt, 0.1, 0.01, test_period=86400)
        add("attenuated_signal_test", "attenuated_signal_test", [1, 1, 1, 1, 1.05], tt[:3], 0.1, 0.01, test_period=86400, check_type="range")
    for tz in (pd.DatetimeIndex(t5).tz_localize("UTC"), pd.Series(pd.DatetimeIndex(t5).tz_localize("UTC")), pd.DatetimeIndex(t5)[::-1], pd.DatetimeIndex(t5[[0, 0, 1, 1, 2]])):
        add("rate_of_change_test", "rate_of_change_test", [0.1, 0.3, 2.3, 1e308, -1e308], tz, 0.02)
        add("flat_line_test", "flat_line_test", [0.1, 0.1, 0.1, 0.1 + 1e-17, 0.3], tz, 20, 30, 0.2)
        add("attenuated_signal_test", "attenuated_signal_test", [0.1, 0.3, 2.3, 1e308, -1e308], tz, 2, 1, test_period=20, min_period=10)
        add("climatology_test", "climatology_test", [{"tspan": ("2020-01-01", "2021-01-01"), "vspan": (0.1, 2.3), "fspan": (0, 1e308)}], [0.1, 0.3, 2.3, 1e308, -1e308], tz, [1, 2, 3, 4, 5])
        add("climatology_test", "climatology_test", [{"tspan": (9, 9), "period": "week", "vspan": (0.1, 2.3), "zspan": (2, 4)}], [0.1, 0.3, 2.3, 1e308, NAN], tz, [1, 2, NAN, 4, 5])
    add("gross_range_test", "gross_range_test", [0.1, 0.3, 2.3, 1e308, -1e308, INF, -INF, NAN, None], (0.1, 2.3), (0.3, 0.3))
    add("gross_range_test", "gross_range_test", [0.1, 0.3, 2.3], (2.3, 0.1), (0.30000000000000004, 0.1))
    add("gross_range_test", "gross_range_test", [0.1, 0.3, 2.3], (0.1, 2.3), (0.0, 2.3))
    add("spike_test", "spike_test", [0.1, 0.3, 0.1, 1e308, -1e308, 1e308, NAN, 3], 0.2, 0.20000000000000004)
    add("spike_test", "spike_test", [0.1, 0.3, 0.1, 1e308, -1e308, 1e308, NAN, 3], 0.2, 0.20000000000000004, "differential")
    f = np.asfortranarray(np.array([[-180.0, 0.1, 200.0], [NAN, INF, -INF]]))
    g = np.asfortranarray(np.array([[-90.0, 0.3, 20.0], [NAN, 5, -INF]]))
    add("location_test", "location_test", f, g)
    add("location_test", "location_test", f, g.copy(order="C"), (-180, -90, 180, 90), 1000)
    add("location_test", "location_test", f.T, g.T, range_max=5e6)
    add("location_test", "location_test", [-INF, INF, 5], [-INF, INF, NAN], bbox=None)
    return out


def _resolve(mod, fname):
    obj = mod
    for part in fname.split("."):
        obj = getattr(obj, part)
    return obj


def main() -> int:
    warnings.simplefilter("ignore")
    total_fail = 0
    only = os.environ.get("EQUIV_ONLY")
    fixed = fixed_cases()
    for idx, (name, gen) in enumerate(CASES.items()):
        if only and only != name:
            continue
        rng = np.random.default_rng(SEED + idx)
        stats = Stats()
        for fname, make in fixed:
            if fname == name:
                compare_case(name, stats, make)
        while stats.n < N_PER_FUNCTION + len([1 for f, _ in fixed if f == name]):
            compare_case(name, stats, gen(rng))
        ok = stats.n - len(stats.failures)
        nexc = sum(stats.exc.values())
        print(
            f"{name:28s} cases={stats.n:5d} identical={ok:5d} raised={nexc:5d} "
            f"{dict(sorted(stats.exc.items()))} (index-error text differs: {stats.msg_diffs})",
        )
        print(f"{'':28s} results containing flag value: {dict(sorted(stats.flags.items()))}")
        if os.environ.get("EQUIV_VERBOSE"):
            for text, cnt in sorted(stats.texts.items(), key=lambda kv: -kv[1])[:25]:
                print(f"{'':30s}{cnt:5d} x {text}")
        for f in stats.failures[:5]:
            print("  MISMATCH " + f)
        total_fail += len(stats.failures)
    if total_fail:
        print(f"FAILED: {total_fail} mismatching case(s)")
        return 1
    print("OK: refactored and original behave identically on all generated inputs")
    return 0


if __name__ == "__main__":
    sys.exit(main())
