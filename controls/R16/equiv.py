"""Differential check: refactored worktree functions vs. the ORIGINAL ones in /repo.

Run as:  PYTHONPATH=<worktree> /venv/bin/python equiv.py
Exits 0 when every generated input gives the same outcome (value incl. dtype / mask,
exception type, log messages, warnings, argument mutation) in both implementations.
"""
import copy
import datetime as pydt
import importlib
import importlib.util
import logging
import math
import os
import random
import re
import sys
import warnings
from collections import OrderedDict, defaultdict

import numpy as np
import pandas as pd

ORIG_ROOT = os.environ.get("EQUIV_ORIG", "/repo/ioos_qc")
N_PER_FUNCTION = int(os.environ.get("EQUIV_N", "3000"))
SUBMODULES = ["utils", "qartod", "argo", "axds", "config_creator.fx_parser", "config_creator.config_creator"]


def load_original(alias="ioos_qc_orig", root=ORIG_ROOT):
    """Load /repo's package under another top-level name.

    The sources use absolute imports (``from ioos_qc.utils import ...``), so while the
    original is imported the name ``ioos_qc`` points at it too; afterwards every module
    is re-registered below ``alias`` and ``ioos_qc`` is free for the worktree.
    """
    assert not any(k == "ioos_qc" or k.startswith("ioos_qc.") for k in sys.modules)
    spec = importlib.util.spec_from_file_location(alias, root + "/__init__.py", submodule_search_locations=[root])
    pkg = importlib.util.module_from_spec(spec)
    sys.modules[alias] = pkg
    sys.modules["ioos_qc"] = pkg
    spec.loader.exec_module(pkg)
    for sub in SUBMODULES:
        importlib.import_module("ioos_qc." + sub)
    for key in [k for k in sys.modules if k == "ioos_qc" or k.startswith("ioos_qc.")]:
        mod = sys.modules.pop(key)
        sys.modules[alias + key[len("ioos_qc"):]] = mod
    return pkg


load_original()
O = {sub: sys.modules["ioos_qc_orig." + sub] for sub in SUBMODULES}
N = {sub: importlib.import_module("ioos_qc." + sub) for sub in SUBMODULES}
for sub in SUBMODULES:
    assert O[sub].__file__.startswith(ORIG_ROOT), O[sub].__file__
    assert not N[sub].__file__.startswith(ORIG_ROOT), N[sub].__file__
    assert O[sub] is not N[sub]
# the original functions must use the original helpers
assert O["argo"].mapdates is O["utils"].mapdates and N["argo"].mapdates is N["utils"].mapdates
assert O["utils"].mapdates is not N["utils"].mapdates

import pyparsing  # noqa: E402

RNG = random.Random(20261003)
NPR = np.random.RandomState(20261003)


# --------------------------------------------------------------------------- comparison
class LogCapture(logging.Handler):
    def __init__(self):
        super().__init__(level=logging.DEBUG)
        self.records = []

    def emit(self, record):
        self.records.append((record.name, record.levelname, record.getMessage()))


_CAPTURE = LogCapture()
_root = logging.getLogger("ioos_qc")
_root.addHandler(_CAPTURE)
_root.setLevel(logging.DEBUG)
_root.propagate = False

_ADDR = re.compile(r" at 0x[0-9a-fA-F]+")


def describe(x, depth=0):
    """A structure that is equal for two values iff they are indistinguishable for our purposes."""
    if depth > 12:
        return ("deep", type(x).__name__)
    if x is np.ma.masked:
        return ("ma.masked",)
    if isinstance(x, np.ma.MaskedArray):
        mask = np.ma.getmaskarray(x)
        raw = np.asarray(x.data)
        return (
            "marray",
            type(x).__name__,
            str(x.dtype),
            x.shape,
            x.mask is np.ma.nomask,
            mask.tobytes(),
            describe_raw(raw),
            repr(x.fill_value),
            bool(x.flags.c_contiguous),
        )
    if isinstance(x, np.ndarray):
        return ("ndarray", type(x).__name__, str(x.dtype), x.shape, describe_raw(x))
    if isinstance(x, np.generic):
        return ("npscalar", type(x).__name__, str(x.dtype), describe_raw(np.asarray(x)))
    if isinstance(x, float):
        return ("float", "nan" if math.isnan(x) else x.hex())
    if isinstance(x, (bool, int, str, bytes, type(None), complex)):
        return (type(x).__name__, x)
    if isinstance(x, (pd.Series, pd.Index)):
        return ("pandas", type(x).__name__, str(x.dtype), describe(np.asarray(x), depth + 1), describe(list(x.index) if isinstance(x, pd.Series) else None, depth + 1))
    if isinstance(x, dict):
        return ("dict", type(x).__name__, [(describe(k, depth + 1), describe(v, depth + 1)) for k, v in x.items()])
    if isinstance(x, (list, tuple)):
        return (type(x).__name__, [describe(v, depth + 1) for v in x])
    if isinstance(x, pyparsing.ParseResults):
        return ("ParseResults", describe(x.asList(), depth + 1))
    if isinstance(x, (pydt.datetime, pydt.date, pd.Timestamp)):
        return (type(x).__name__, repr(x))
    return ("object", type(x).__name__, _ADDR.sub("", repr(x)))


def describe_raw(arr):
    if arr.dtype == object:
        return ("objarr", [describe(v, 5) for v in arr.ravel().tolist()])
    # exact bits in row-major logical order
    return np.ascontiguousarray(arr).tobytes()


class Outcome:
    def __init__(self, kind, value, logs, warns, args_after, extra=None):
        self.kind, self.value, self.logs, self.warns, self.args_after, self.extra = kind, value, logs, warns, args_after, extra

    def key(self, compare_messages=True):
        value = self.value
        if self.kind == "raise" and not compare_messages and value[0].startswith("Parse"):
            # pyparsing quotes the grammar (incl. the text of the number regex) in its messages
            value = value[0]
        return (self.kind, value, tuple(self.logs), tuple(self.warns), self.args_after, self.extra)


def run(func, args, kwargs, post=None):
    args = copy.deepcopy(args)
    kwargs = copy.deepcopy(kwargs)
    del _CAPTURE.records[:]
    with warnings.catch_warnings(record=True) as caught:
        warnings.simplefilter("always")
        old_err = np.geterr()
        try:
            result = func(*args, **kwargs)
            kind, value = "return", describe(result)
            aliased = tuple(result is a for a in args)
        except RecursionError:
            raise
        except BaseException as exc:  # noqa: BLE001
            if isinstance(exc, (KeyboardInterrupt, SystemExit)):
                raise
            result = None
            kind, value = "raise", (type(exc).__name__, _ADDR.sub("", str(exc)))
            aliased = ()
        assert np.geterr() == old_err, "numpy error state leaked"
    warns = sorted({(w.category.__name__, _ADDR.sub("", str(w.message))) for w in caught})
    extra = (aliased, post(result) if post is not None else None)
    return Outcome(kind, value, list(_CAPTURE.records), warns, describe([args, kwargs]), extra)


class Checker:
    def __init__(self):
        self.failures = 0
        self.counts = OrderedDict()
        self.kinds = defaultdict(lambda: defaultdict(int))

    def check(self, name, forig, fnew, args=(), kwargs=None, post_orig=None, post_new=None, compare_messages=True):
        kwargs = kwargs or {}
        a = run(forig, args, kwargs, post_orig)
        b = run(fnew, args, kwargs, post_new)
        self.counts[name] = self.counts.get(name, 0) + 1
        self.kinds[name][a.kind if a.kind == "return" else a.value[0]] += 1
        if a.key(compare_messages) != b.key(compare_messages):
            self.failures += 1
            if self.failures <= 15:
                print(f"MISMATCH in {name}: args={_short(args)} kwargs={_short(kwargs)}")
                for label, o in (("orig", a), ("new ", b)):
                    print(f"   {label}: {o.kind} {_short(o.value)} logs={o.logs} warns={_short(o.warns)} extra={_short(o.extra)}")
                if a.args_after != b.args_after:
                    print("   (arguments differ after the call)")
        return a


def _short(x, n=400):
    s = repr(x)
    return s if len(s) <= n else s[:n] + "..."


CHK = Checker()

# --------------------------------------------------------------------------- generators
DECIMALS = [0.1, 0.2, 0.3, 0.1 + 0.2, 2.3, 2.3 - 2.0, 1.1, 3.3, 0.7, 1e-9, 1e308, -1e308, 1.7976931348623157e308,
            5e-324, 0.0, -0.0, 1.0, 2.0, 10.0, -1.0, 100.0, 1e16, 1e16 + 2, 123456789.125]


def rnd_number():
    r = RNG.random()
    if r < 0.35:
        return RNG.choice(DECIMALS)
    if r < 0.6:
        return float(RNG.randint(-5, 5))
    if r < 0.8:
        return round(RNG.uniform(-10, 10), RNG.choice([1, 2, 6]))
    if r < 0.9:
        return RNG.uniform(-1e3, 1e3)
    return RNG.choice([float("nan"), float("inf"), float("-inf")])


def rnd_series(n=None, allow_none=True, allow_nan=True):
    n = RNG.randint(0, 8) if n is None else n
    out = []
    for _ in range(n):
        r = RNG.random()
        if allow_none and r < 0.06:
            out.append(None)
        elif allow_nan and r < 0.15:
            out.append(float("nan"))
        else:
            v = rnd_number()
            if not allow_nan and isinstance(v, float) and not math.isfinite(v):
                v = 1.0
            out.append(v)
    return out


def as_container(values, kinds=None):
    """Present a list of numbers (with None / NaN) in one of many containers."""
    kind = RNG.choice(kinds or ["list", "tuple", "array", "array", "masked", "series", "f32", "int", "objarr"])
    if kind == "list":
        return list(values)
    if kind == "tuple":
        return tuple(values)
    clean = [np.nan if v is None else v for v in values]
    if kind == "array":
        return np.array(clean, dtype=np.float64)
    if kind == "masked":
        arr = np.ma.masked_invalid(np.array(clean, dtype=np.float64))
        if len(clean) and RNG.random() < 0.5:
            arr[RNG.randrange(len(clean))] = np.ma.masked
        return arr
    if kind == "series":
        return pd.Series(clean, dtype="float64")
    if kind == "f32":
        with np.errstate(over="ignore"):
            return np.array(clean, dtype=np.float64).astype(np.float32)
    if kind == "int":
        ints = [0 if (v is None or not math.isfinite(v)) else int(max(-100, min(100, v))) for v in values]
        return np.array(ints, dtype=np.int64).astype(RNG.choice([np.int8, np.uint8, np.int32, np.int64, np.uint16]))
    if kind == "objarr":
        return np.array(list(values), dtype=object)
    raise AssertionError(kind)


def nd_variant(arr):
    """Reshape a 1-D float array into an N-D one, possibly Fortran ordered or a strided view."""
    arr = np.asarray(arr)
    n = arr.size
    shapes = [s for s in [(n,), (1, n), (n, 1), (2, n // 2), (n // 2, 2), (2, 2, n // 4)] if int(np.prod(s)) == n]
    shape = RNG.choice(shapes)
    out = arr.reshape(shape)
    r = RNG.random()
    if r < 0.35:
        out = np.asfortranarray(out)
    elif r < 0.5 and out.ndim == 2:
        out = np.ascontiguousarray(out.T).T  # F-contiguous view
    elif r < 0.6:
        big = np.repeat(out, 2, axis=-1)
        out = big[..., ::2]  # non-contiguous view
    return out


BASE_TIMES = ["2020-01-01T00:00:00", "1970-01-01T00:00:00", "1999-12-31T23:59:59", "2262-04-11T00:00:00", "1969-07-20T20:17:40"]


def rnd_time_array(n, unit=None):
    """datetime64 stamps: irregular steps, possibly unsorted / duplicated / NaT."""
    unit = unit or RNG.choice(["s", "m", "h", "D", "ns", "ms", "us"])
    base = np.datetime64(RNG.choice(BASE_TIMES[:3]), unit)
    steps = [RNG.choice([0, 1, 1, 2, 3, 10, 60, 3600, 86400, 7]) for _ in range(n)]
    stamps = base + np.cumsum(np.array(steps, dtype="int64")).astype(f"timedelta64[{unit}]") if n else np.array([], dtype=f"datetime64[{unit}]")
    stamps = np.asarray(stamps, dtype=f"datetime64[{unit}]")
    if n and RNG.random() < 0.3:
        stamps = stamps[NPR.permutation(n)]
    if n and RNG.random() < 0.3:
        stamps[RNG.randrange(n)] = np.datetime64("NaT")
    if n > 1 and RNG.random() < 0.3:
        stamps[RNG.randrange(n)] = stamps[RNG.randrange(n)]
    return stamps


def rnd_time_input(n):
    """Time axis in one of the many spellings that mapdates understands (or not)."""
    kind = RNG.choice(["dt64", "dt64", "dt64", "index", "index_utc", "index_tz", "series", "series_utc", "series_tz",
                       "epoch_list", "epoch_arr", "epoch_float", "str_list", "pydt_list", "ts_list", "objarr",
                       "series_float", "series_obj", "masked_dt", "epoch_nan"])
    stamps = rnd_time_array(n)
    if kind == "dt64":
        return stamps
    ns = stamps.astype("datetime64[ns]")
    if kind == "index":
        return pd.DatetimeIndex(RNG.choice([stamps, ns]))
    if kind == "index_utc":
        return pd.DatetimeIndex(ns, tz="UTC")
    if kind == "index_tz":
        return pd.DatetimeIndex(ns, tz="UTC").tz_convert(RNG.choice(["US/Eastern", "Asia/Tokyo", "Europe/Berlin"]))
    if kind == "series":
        return pd.Series(RNG.choice([stamps, ns]))
    if kind == "series_utc":
        return pd.Series(pd.DatetimeIndex(ns, tz="UTC"))
    if kind == "series_tz":
        return pd.Series(pd.DatetimeIndex(ns, tz="UTC").tz_convert("US/Pacific"), index=list(range(n, 2 * n)))
    secs = [None if np.isnat(s) else int(s.astype("datetime64[s]").astype("int64")) for s in stamps]
    if kind == "epoch_list":
        return secs
    if kind == "epoch_arr":
        return np.array([0 if s is None else s for s in secs], dtype=np.int64).astype(RNG.choice([np.int64, np.int32, np.uint32]))
    if kind == "epoch_float":
        return np.array([np.nan if s is None else s + RNG.choice([0.0, 0.5, 0.25]) for s in secs], dtype=np.float64)
    if kind == "epoch_nan":
        return [float("nan") if s is None else float(s) for s in secs]
    if kind == "str_list":
        fmt = RNG.choice(["iso", "date", "space", "bad"])
        out = []
        for s in ns:
            if np.isnat(s):
                out.append(RNG.choice(["NaT", None, "nat"]))
            elif fmt == "iso":
                out.append(str(s))
            elif fmt == "date":
                out.append(str(s.astype("datetime64[D]")))
            elif fmt == "space":
                out.append(str(s.astype("datetime64[s]")).replace("T", " "))
            else:
                out.append(RNG.choice(["yesterday", "2020-13-45", "", "12 o'clock"]))
        return out
    if kind == "pydt_list":
        return [None if np.isnat(s) else s.astype("datetime64[us]").astype(object) for s in stamps]
    if kind == "ts_list":
        return [pd.NaT if np.isnat(s) else pd.Timestamp(s) for s in ns]
    if kind == "objarr":
        return np.array([pd.NaT if np.isnat(s) else pd.Timestamp(s) for s in ns], dtype=object)
    if kind == "series_float":
        return pd.Series([np.nan if s is None else float(s) for s in secs], dtype="float64")
    if kind == "series_obj":
        return pd.Series([None if s is None else str(np.datetime64(s, "s")) for s in secs], dtype=object)
    if kind == "masked_dt":
        return np.ma.masked_array(ns, mask=[RNG.random() < 0.2 for _ in range(n)])
    raise AssertionError(kind)


# --------------------------------------------------------------------------- utils
def cases_mapdates():
    fo, fn_ = O["utils"].mapdates, N["utils"].mapdates
    specials = [
        None, 0, 1.5, "2020-01-01", "garbage", [], (), [None], [float("nan")], np.array([]), np.array([], dtype="datetime64[s]"),
        np.datetime64("2020-01-01"), np.datetime64("NaT"), np.datetime64("2020-01-01T00", "h"), pd.Timestamp("2020-01-01"),
        pd.Timestamp("2020-01-01", tz="UTC"), pd.NaT, pydt.datetime(2020, 1, 1), pydt.date(2020, 1, 1),
        pd.DatetimeIndex([], tz="UTC"), pd.Series([], dtype="datetime64[ns, UTC]"), pd.Series([], dtype="float64"),
        np.array([1, 2, 3], dtype="timedelta64[s]"), np.array(["a", "b"]), np.array([[0, 1], [2, 3]]),
        np.array(["2020-01-01", "2021-01-01"], dtype="datetime64[D]").reshape(2, 1),
        np.asfortranarray(np.array([["2020-01-01", "2021-01-01"], ["NaT", "2019-05-05"]], dtype="datetime64[m]")),
        pd.Series(pd.Categorical(["a", "b"])), pd.Series([True, False]), pd.Index([1, 2, 3]), pd.Index(["x"]),
        pd.period_range("2020-01", periods=3, freq="M"), pd.Series(pd.period_range("2020-01", periods=3, freq="D")),
        pd.timedelta_range("1s", periods=3), [1e30], [-1e30], np.array([2**62], dtype=np.int64), {"a": 1}, {1, 2},
        np.array(["0001-01-01", "9999-01-01"], dtype="datetime64[D]"), pd.DatetimeIndex(["2020-01-01"]).as_unit("s"),
        pd.Series(pd.DatetimeIndex(["2020-01-01", "NaT"], tz="UTC").as_unit("s")), [pd.Timestamp("2020-01-01", tz="UTC")],
        [pydt.datetime(2020, 1, 1, tzinfo=pydt.timezone.utc)], np.ma.masked, np.float64("nan"), True, b"2020",
    ]
    for x in specials:
        CHK.check("utils.mapdates", fo, fn_, (x,))
    while CHK.counts["utils.mapdates"] < N_PER_FUNCTION:
        x = rnd_time_input(RNG.randint(0, 8))
        if isinstance(x, np.ndarray) and not isinstance(x, np.ma.MaskedArray) and x.size >= 2 and RNG.random() < 0.3:
            x = nd_variant(x)
        CHK.check("utils.mapdates", fo, fn_, (x,))


def cases_isnan():
    fo, fn_ = O["utils"].isnan, N["utils"].isnan
    marr = np.ma.masked_array([1.0, 2.0], mask=[True, False])
    pool = [None, np.nan, float("nan"), np.float64("nan"), np.float32("nan"), np.ma.masked, marr[0], marr[1], 0, 0.0, 1, "", "nan",
            [], [None], (np.nan,), np.array(np.nan), np.array([np.nan]), np.datetime64("NaT"), pd.NaT, pd.NA, math.nan, -np.nan,
            np.ma.masked_array(1.0, mask=True), np.ma.masked_array([1.0], mask=[True]), False, True, np.inf, complex("nan"), {}, object]
    while CHK.counts.get("utils.isnan", 0) < N_PER_FUNCTION:
        v = RNG.choice(pool) if RNG.random() < 0.7 else RNG.choice([rnd_number(), as_container(rnd_series()), np.ma.masked_invalid([rnd_number()])[0]])
        CHK.check("utils.isnan", fo, fn_, (v,))


def cases_isfixedlength():
    fo, fn_ = O["utils"].isfixedlength, N["utils"].isfixedlength

    class MyList(list):
        pass

    class MyTuple(tuple):
        def __format__(self, spec):
            return "custom-format"

    lengths = [0, 1, 2, 3, 8, -1, 2.0, 2.5, None, "2", True, np.int64(2), np.float64(3), float("nan"), np.array(2), np.array([2]), np.array([2, 3]), [2]]
    while CHK.counts.get("utils.isfixedlength", 0) < N_PER_FUNCTION:
        n = RNG.randint(0, 8)
        items = rnd_series(n)
        lst = RNG.choice([list(items), tuple(items), MyList(items), MyTuple(items), np.array(items, dtype=object), set(map(str, items)), dict.fromkeys(range(n)),
                          "abc", None, 5, iter(items), pd.Series(items, dtype=object), range(n), [[1, 2], (3,)], ("{len(lst)}", "%s", "{}")])
        length = RNG.choice(lengths + [n, n, n])
        if RNG.random() < 0.5:
            CHK.check("utils.isfixedlength", fo, fn_, (lst, length))
        else:
            CHK.check("utils.isfixedlength", fo, fn_, (), {"length": length, "lst": lst})


def rnd_tree(depth, kinds=(dict, OrderedDict)):
    if depth <= 0 or RNG.random() < 0.25:
        return RNG.choice([1, "x", None, 2.5, [], [{"a": {"b": 1}}], ({"z": 1},), {}, OrderedDict(), float("nan"), True])
    cls = RNG.choice(kinds)
    d = cls()
    for _ in range(RNG.randint(0, 4)):
        key = RNG.choice(["a", "b", "c", "d", 1, 2, None, ("t", 1), 1.0, True])
        d[key] = rnd_tree(depth - 1, kinds)
    return d


def cases_dict_depth():
    fo, fn_ = O["utils"].dict_depth, N["utils"].dict_depth

    class Falsy(dict):
        def __bool__(self):
            return False

    class Truthy(dict):
        def __bool__(self):
            return True

    deep = {}
    cur = deep
    for _ in range(120):
        cur["k"] = {}
        cur = cur["k"]
    for x in [deep, Falsy(a={"b": {}}), Truthy(), Truthy(a=1), defaultdict(dict, a={"b": 1}), None, [], "dict", 0, {1: {2: {3: {}}}, 4: {}}]:
        CHK.check("utils.dict_depth", fo, fn_, (x,))
    while CHK.counts["utils.dict_depth"] < N_PER_FUNCTION:
        CHK.check("utils.dict_depth", fo, fn_, (rnd_tree(RNG.randint(0, 5), (dict, OrderedDict, Falsy, Truthy)),))


def cases_dict_update():
    fo, fn_ = O["utils"].dict_update, N["utils"].dict_update
    from collections.abc import Mapping

    class MappingProxyType(Mapping):
        """Read-only mapping (types.MappingProxyType cannot be deep-copied)."""

        def __init__(self, data):
            self._data = data

        def __getitem__(self, key):
            return self._data[key]

        def __iter__(self):
            return iter(self._data)

        def __len__(self):
            return len(self._data)

        def __repr__(self):
            return f"RO({self._data!r})"

    specials = [
        ({}, {}), ({"a": 1}, {}), (None, {"a": 1, "b": {"c": 2}}), (5, {"a": {"b": 1}, "c": 2}), ("str", {}), ([], {"a": 1}),
        ({"a": 1}, None), ({"a": 1}, [("a", 2)]), ({"a": 1}, 5), (MappingProxyType({"a": 1}), {"a": 2}), (MappingProxyType({"a": {"x": 1}}), {"b": {}}),
        ({"a": MappingProxyType({"x": 1})}, {"a": {"x": 2}}), ({"a": {"x": 1}}, {"a": MappingProxyType({"y": 2})}),
        (defaultdict(dict), {"a": {"b": 1}}), (defaultdict(list, a=[1]), {"a": {"b": 1}, "z": 3}), (OrderedDict(a=1), OrderedDict(b=OrderedDict(c=1))),
        ({"a": [1, 2]}, {"a": {"b": 1}}), ({"a": {"b": 1}}, {"a": [1, 2]}), ({"a": "s"}, {"a": {"k": "v"}}), ({"a": None}, {"a": {"k": {"j": 1}}}),
    ]
    for d, u in specials:
        CHK.check("utils.dict_update", fo, fn_, (d, u))
    while CHK.counts["utils.dict_update"] < N_PER_FUNCTION:
        d = rnd_tree(RNG.randint(0, 4))
        u = rnd_tree(RNG.randint(1, 4))
        if RNG.random() < 0.1:
            u = MappingProxyType(u) if isinstance(u, dict) else u
        if RNG.random() < 0.5:
            CHK.check("utils.dict_update", fo, fn_, (d, u))
        else:
            CHK.check("utils.dict_update", fo, fn_, (), {"u": u, "d": d})


def cases_cf_safe_name():
    fo, fn_ = O["utils"].cf_safe_name, N["utils"].cf_safe_name

    class Loud(str):
        def __str__(self):
            return "LOUD"

        def __format__(self, spec):
            return "FORMATTED"

    alphabet = list("abcXYZ019_ -.$%/\\\n\t\r^[]{}()*+?|") + ["é", "ß", "٣", "１", "²", "Ⅷ", "_", "__", " ", " ", "\x00", "\x7f", "\U0001f600", "ı", "K", "ſ", "०", "퟿", "中"]
    specials = ["", "_", "0", "9abc", "_abc", "abc", "a b", "1", "٣abc", "１23", "²x", "\nabc", "a\n", "^x", "é", "v_", "0_0", " 0", "-1", "a-b.c/d",
                Loud("9 lives"), Loud("ok name"), None, 5, 5.5, b"bytes", ["a"], ("a", "b"), (1,), (), {"a": 1}, np.float32(0.1), np.float64(0.1), np.str_("7 up"),
                np.bytes_(b"x"), pydt.date(2020, 1, 1), np.datetime64("2020-01-01"), object(), float("nan"), True, "{}", "%s", "{name}"]
    for x in specials:
        CHK.check("utils.cf_safe_name", fo, fn_, (x,))
    while CHK.counts["utils.cf_safe_name"] < N_PER_FUNCTION:
        r = RNG.random()
        if r < 0.85:
            x = "".join(RNG.choice(alphabet) for _ in range(RNG.randint(0, 10)))
        elif r < 0.95:
            x = "".join(chr(RNG.randint(0, 0x2FF)) for _ in range(RNG.randint(1, 6)))
        else:
            with np.errstate(over="ignore"):
                x = RNG.choice([rnd_number(), tuple(rnd_series(2)), np.float32(rnd_number())])
        CHK.check("utils.cf_safe_name", fo, fn_, (x,))


def cases_great_circle_distance():
    fo, fn_ = O["utils"].great_circle_distance, N["utils"].great_circle_distance
    specials = [([], []), ([1.0], [2.0]), ([1.0, 2.0], [3.0, 4.0]), (np.array([]), np.array([])), (np.array([1.0]), np.array([1.0])),
                (np.array([0.0, 0.0]), np.array([0.0, 180.0])), (np.array([90.0, -90.0]), np.array([0.0, 0.0])),
                (np.array([0.0, 95.0]), np.array([0.0, 0.0])), (np.array([0, 1]), np.array([0, 1])), (np.array([[0.0, 1.0], [2.0, 3.0]]), np.array([[0.0, 1.0], [2.0, 3.0]])),
                (np.array([0.0, 1.0, 2.0]), np.array([0.0, 1.0])), (np.array([0.0, 1.0]), np.array([0.0, 1.0, 2.0])), (None, None),
                (pd.Series([0.0, 1.0]), pd.Series([0.0, 1.0])), (np.array([1e308, 0.0]), np.array([0.0, 1e308]))]
    for la, lo in specials:
        CHK.check("utils.great_circle_distance", fo, fn_, (la, lo))
    coords = [0.0, -0.0, 0.1, 0.3, 2.3, 45.0, 89.9999, 90.0, -90.0, 179.9, 180.0, -180.0, 181.0, 360.0, 1e-12, 33.3, -71.06, 42.36]
    while CHK.counts["utils.great_circle_distance"] < N_PER_FUNCTION:
        n = RNG.randint(0, 8)
        lat = [RNG.choice(coords + [float("nan")]) if RNG.random() < 0.6 else RNG.uniform(-90, 90) for _ in range(n)]
        lon = [RNG.choice(coords + [float("nan"), float("inf")]) if RNG.random() < 0.6 else RNG.uniform(-180, 180) for _ in range(n)]
        kind = RNG.choice(["array", "masked", "masked", "masked_extra", "f32"])
        if kind == "array":
            la, lo = np.array(lat, dtype=float), np.array(lon, dtype=float)
        elif kind == "f32":
            la, lo = np.array(lat, dtype=np.float32), np.array(lon, dtype=np.float32)
        else:
            la, lo = np.ma.masked_invalid(np.array(lat, dtype=float)), np.ma.masked_invalid(np.array(lon, dtype=float))
            if kind == "masked_extra" and n:
                la[RNG.randrange(n)] = np.ma.masked
        if RNG.random() < 0.05 and n:
            lo = lo[:-1]
        CHK.check("utils.great_circle_distance", fo, fn_, (la, lo))


# --------------------------------------------------------------------------- fx parser
NUMBER_SPELLINGS = ["3", "3.", "2.e1", ".5", "007", "0", "00", "1e5", "1E5", "1e+5", "1E-5", "1e", "1e+", "1.e", "1.e5", "1.5e3", "1.5E+03", "+3", "-3", "--3", "+-3",
                    "-+-3", "3.5.2", "1e5.5", "٣", "１２", "٣.٥", "1e٣", "²", "1_000", "0x10", "1e-", "inf", "nan", "1 e5", "1. 5", "1 .5", "- 3", "3.e", "3.E1", "3.e+1",
                    "3.e-1", "12345678901234567890", "1e308", "1e309", "1e-400", "0.1", "0.30000000000000004", "2.3", ".", "..", "3..", "-.5", "+.5", "5.", "5.-", "5.+1",
                    "1e1e1", "1E1E1", "1ee1", "e1", "E", "e", "pi", "PI", "Pi", "pI", "pie", "e2", "2e", "2pi", "2E", "2 E", "1.0e0", "0e0", "0.e0", "1e+05", "1e05", "1e 5"]
IDENTS = ["mean", "min", "max", "std", "PI", "E", "pi", "e", "foo", "x1", "a_b", "a$", "Mean", "MIN", "sinx", "exp", "expo", "_a", "abs"]
FUNCS = ["sin", "cos", "tan", "exp", "abs", "trunc", "round", "sgn", "foo", "mean", "SIN", "PI"]


def rnd_expr(depth=3):
    r = RNG.random()
    if depth <= 0 or r < 0.3:
        r2 = RNG.random()
        if r2 < 0.5:
            return RNG.choice(NUMBER_SPELLINGS[:30] + ["1", "2", "0.5", "10", "3.25"])
        if r2 < 0.85:
            return RNG.choice(IDENTS)
        return RNG.choice(NUMBER_SPELLINGS)
    if r < 0.55:
        op = RNG.choice(["+", "-", "*", "/", "^", "+", "-", "*"])
        sp = RNG.choice(["", " ", "  "])
        return rnd_expr(depth - 1) + sp + op + sp + rnd_expr(depth - 1)
    if r < 0.7:
        return "(" + RNG.choice(["", " "]) + rnd_expr(depth - 1) + RNG.choice(["", " "]) + ")"
    if r < 0.8:
        return RNG.choice(["-", "+", "--", "-+", "- "]) + rnd_expr(depth - 1)
    if RNG.random() < 0.15:
        # the only two-argument function: the digits have to be an integer, i.e. a statistic
        return "round(" + rnd_expr(depth - 1) + RNG.choice([", ", ","]) + RNG.choice(["mean", "min", "max", "std", "2", "-max"]) + ")"
    nargs = RNG.choice([1, 1, 1, 2, 0, 3])
    return RNG.choice(FUNCS) + RNG.choice(["", " "]) + "(" + RNG.choice([", ", ","]).join(rnd_expr(depth - 1) for _ in range(nargs)) + ")"


def mutate(text):
    if not text or RNG.random() < 0.5:
        return text
    i = RNG.randrange(len(text))
    r = RNG.random()
    if r < 0.4:
        return text[:i] + text[i + 1:]
    if r < 0.8:
        return text[:i] + RNG.choice(list("()+-*/^., eE0123456789_$٣")) + text[i:]
    return text[:i]


def rnd_stats():
    r = RNG.random()
    if r < 0.6:
        return {"mean": rnd_number(), "min": rnd_number(), "max": rnd_number(), "std": abs(rnd_number())}
    if r < 0.64:
        return {"mean": 1, "min": 0, "max": 2}
    if r < 0.7:
        return {"mean": RNG.randint(-3, 3), "min": np.int64(RNG.randint(-3, 3)), "max": RNG.randint(0, 4), "std": True}
    if r < 0.8:
        return {"mean": np.float32(1.5), "min": np.int64(-3), "max": np.array([1.0, 2.0]), "std": None}
    if r < 0.9:
        return {"mean": "1", "min": None, "max": [1], "std": 2 + 1j}
    return RNG.choice([{}, None, [1, 2, 3, 4], defaultdict(float)])


def stack_state(mod):
    def post(_result):
        return describe(list(mod.exprStack))
    return post


def cases_fx():
    ofx, nfx = O["config_creator.fx_parser"], N["config_creator.fx_parser"]

    def parse_with(mod):
        def parse(text, parse_all=True):
            before = len(mod.exprStack)
            result = mod.BNF().parseString(text, parseAll=parse_all)
            return result.asList(), list(mod.exprStack[before:])
        return parse

    po, pn = parse_with(ofx), parse_with(nfx)

    def texts():
        for t in NUMBER_SPELLINGS:
            yield t
            yield "2*" + t
            yield t + "+1"
            yield "sin(" + t + ")"
            yield "(" + t + ")"
            yield " " + t + " "
            yield "mean " + t
        for t in ["", " ", "()", "(", ")", "1+", "+", "sin", "sin()", "sin(1,)", "sin(,1)", "round(1.234, 2)", "round(2.5)", "2^3^2", "-2^2", "2^-2", "(1)(2)",
                  "1 2", "mean+std*3", "mean - std * 3", "max/0", "0/0", "1/(1-1)", "10^400", "10.0^400", "(-8)^(1/3)", "trunc(1e400)", "trunc(0/1)", "sgn(-1e-13)", "sgn(1e-11)",
                  "abs(-3)", "abs(mean)", "exp(1000)", "sin(mean, 2)", "foo(1)", "foo", "PI()", "pi(1)", "E(1)", "e^2", "E^PI", "2E", "1,2", "sin(1)cos(2)", "((((1))))",
                  "mean(1)", "min(1,2)", "max()", "std ( 3 )", "a$b", "$a", "_", "1 + + 2", "1 - - 2", "1 +- 2", "*1", "1*", "1//2", "1**2", "sin((1)", "\t1\n+\n2", "1;2", "0x1F"]:
            yield t

    for t in texts():
        CHK.check("fx_parser.BNF", po, pn, (t,), compare_messages=False)
        CHK.check("fx_parser.BNF", po, pn, (t, False), compare_messages=False)
    while CHK.counts["fx_parser.BNF"] < N_PER_FUNCTION:
        t = mutate(rnd_expr(RNG.randint(0, 4)))
        CHK.check("fx_parser.BNF", po, pn, (t, RNG.random() < 0.85), compare_messages=False)
    assert ofx.exprStack == nfx.exprStack and ofx.exprStack is not nfx.exprStack

    # eval_fx: the module level stack is shared between calls, so keep both modules in step
    ok_stats = {"mean": 10.5, "min": 0.1, "max": 20.3, "std": 2.3}
    for t in texts():
        CHK.check("fx_parser.eval_fx", ofx.eval_fx, nfx.eval_fx, (t, ok_stats), post_orig=stack_state(ofx), post_new=stack_state(nfx), compare_messages=False)
    while CHK.counts["fx_parser.eval_fx"] < N_PER_FUNCTION:
        if RNG.random() < 0.02:
            del ofx.exprStack[:]
            del nfx.exprStack[:]
        t = mutate(rnd_expr(RNG.randint(0, 4))) if RNG.random() < 0.9 else RNG.choice([None, 5, b"1+1", ["1"], 1.5])
        stats = rnd_stats() if RNG.random() < 0.5 else ok_stats
        if RNG.random() < 0.5:
            CHK.check("fx_parser.eval_fx", ofx.eval_fx, nfx.eval_fx, (t, stats), post_orig=stack_state(ofx), post_new=stack_state(nfx), compare_messages=False)
        else:
            CHK.check("fx_parser.eval_fx", ofx.eval_fx, nfx.eval_fx, (), {"stats": stats, "fx": t}, post_orig=stack_state(ofx), post_new=stack_state(nfx), compare_messages=False)
        if len(ofx.exprStack) > 400:
            del ofx.exprStack[:]
            del nfx.exprStack[:]

    # evaluate_stack: stacks from real parses and arbitrary ones (the stack argument is consumed: compared after the call)
    tokens = ["+", "-", "*", "/", "^", "unary -", "PI", "E", "mean", "min", "max", "std", "1", "2.5", "3.", "2.e1", "007", ".5", "٣", "1e400", "-1", "+2", "nan", "inf", "",
              "+-", "*/", "-*", "foo", "pi", "e", "_x", "$", " 1", "1 ", "0x10", "1_0", ("sin", 1), ("cos", 1), ("round", 2), ("round", 1), ("abs", 1), ("trunc", 1), ("sgn", 1),
              ("exp", 1), ("tan", 1), ("sin", 0), ("sin", 2), ("foo", 1), ("mean", 1), ("abs", -1), ("abs", "1"), ("abs", None), ("abs",), ("abs", 1, 2), (), ("+", 2), (1, 1),
              1, 2.5, None, ["1"], b"1", np.float64(2.0), np.str_("3"), True]
    specials = [[], ["1"], ["1", "2", "+"], ["2", "3", "-"], ["2", "3", "^"], ["1", "0", "/"], ["0", "0", "^"], ["1", "unary -"], ["1", "unary -", "unary -"], ["+"], ["1", "+"],
                ["2", "0.5", "unary -", "^"], ["-8", "0.5", "^"], ["10", "400", "^"], ["10.0", "400", "^"], ["1", "2", ("round", 2)], ["2", "1", ("round", 2)], ["1e400", ("trunc", 1)],
                ["nan", ("trunc", 1)], ["1000", ("exp", 1)], ["inf", ("sin", 1)], ["1e-13", ("sgn", 1)], ["1e-11", "unary -", ("sgn", 1)], ["mean", "std", "3", "*", "-"]]
    int_stats = {"mean": 3, "min": 1, "max": 2, "std": np.int64(1)}
    for st in specials:
        CHK.check("fx_parser.evaluate_stack", ofx.evaluate_stack, nfx.evaluate_stack, (st, ok_stats))
    for st in [["1.2345", "max", ("round", 2)], ["max", "1.2345", ("round", 2)], ["123.456", "min", "unary -", ("round", 2)], ["mean", "std", ("round", 2)], ["2.5", "min", "max", ("round", 3)]]:
        CHK.check("fx_parser.evaluate_stack", ofx.evaluate_stack, nfx.evaluate_stack, (st, int_stats))
    for t in ["round(1.2345, max)", "round(max, 1.2345)", "round(123.456, -min)", "round(mean, std)", "round(2.675, max) * 2", "round(1.5) + round(2.5)"]:
        CHK.check("fx_parser.eval_fx", ofx.eval_fx, nfx.eval_fx, (t, int_stats), post_orig=stack_state(ofx), post_new=stack_state(nfx), compare_messages=False)
    while CHK.counts["fx_parser.evaluate_stack"] < N_PER_FUNCTION:
        if RNG.random() < 0.5:
            del ofx.exprStack[:]
            try:
                with warnings.catch_warnings():
                    warnings.simplefilter("ignore")
                    ofx.BNF().parseString(rnd_expr(RNG.randint(0, 4)), parseAll=True)
            except pyparsing.ParseBaseException:
                pass
            st = list(ofx.exprStack)
            if st and RNG.random() < 0.3:
                st[RNG.randrange(len(st))] = RNG.choice(tokens)
        else:
            st = [RNG.choice(tokens) for _ in range(RNG.randint(0, 7))]
        stats = rnd_stats() if RNG.random() < 0.5 else ok_stats
        if RNG.random() < 0.1:
            st = tuple(st) if RNG.random() < 0.5 else None
        CHK.check("fx_parser.evaluate_stack", ofx.evaluate_stack, nfx.evaluate_stack, (st, stats))
    del ofx.exprStack[:]
    del nfx.exprStack[:]


def cases_validate_fx():
    co, cn = O["config_creator.config_creator"], N["config_creator.config_creator"]

    def validator(mod, cls_mutation=None):
        def call(input_fx, test_name="gross_range_test"):
            inst = mod.QcVariableConfig.__new__(mod.QcVariableConfig)
            if cls_mutation:
                for k, v in cls_mutation.items():
                    setattr(inst, k, v)
            return inst._validate_fx(input_fx, test_name), dict(inst)
        return call

    def through_init(mod):
        def call(fx_list):
            config = {"variable": "temp", "bbox": [0, 0, 1, 1], "start_time": "2020-01-01", "end_time": "2020-02-01",
                      "tests": {"gross_range_test": dict(zip(["suspect_min", "suspect_max", "fail_min", "fail_max"], fx_list))}}
            return dict(mod.QcVariableConfig(config))
        return call

    words = ["min", "max", "mean", "std", "+", "-", "*", "/", "(", ")", "^", "1", "3.", "2.e1", ".5", "007", "1e5", "-3", "+3", "--3", "1_000", "٣", "１２", "inf", "-inf", "nan",
             "NaN", "Infinity", "0x10", "1e", "e", "pi", "PI", "sin", "median", "Min", " ", "", "(min", "max)", "min+1", "std*3", "1,2", "\t", "\n", "1\n", " 1", "3..", "١٢٣",
             "1e400", "+", "++", "**", "()", "{}", "%s", "{token}"]
    fo, fn_ = validator(co), validator(cn)
    for t in ["", " ", "  ", "min", "mean - std * 3", "mean + ( std * 3 )", "mean + (std * 3)", "3. + 2.e1 - .5 / 007", "min  max", "min\tmax", "median", None, 5, b"min", ["min"], ("min",)]:
        CHK.check("QcVariableConfig._validate_fx", fo, fn_, (t,))
    mutated = {"allowed_stats": ("min", "p95"), "allowed_operators": "+-", "allowed_groupings": {"[": 1, "]": 2}}
    fo2, fn2 = validator(co, mutated), validator(cn, mutated)
    io, in_ = through_init(co), through_init(cn)
    while CHK.counts["QcVariableConfig._validate_fx"] < N_PER_FUNCTION:
        sep = " " if RNG.random() < 0.9 else RNG.choice(["  ", "\t", ""])
        vocabulary = words[:26] if RNG.random() < 0.5 else words
        text = sep.join(RNG.choice(vocabulary) for _ in range(RNG.randint(0, 7)))
        name = RNG.choice(["gross_range_test", "suspect_min", "", None, 5, ("a", "b"), "{}"])
        r = RNG.random()
        if r < 0.6:
            CHK.check("QcVariableConfig._validate_fx", fo, fn_, (text, name))
        elif r < 0.8:
            CHK.check("QcVariableConfig._validate_fx", fo2, fn2, (text, name))
        else:
            others = [" ".join(RNG.choice(words[:20]) for _ in range(RNG.randint(1, 4))) for _ in range(3)]
            fx_list = others[:]
            fx_list.insert(RNG.randrange(4), text)
            CHK.check("QcVariableConfig._validate_fx", io, in_, (fx_list,))


# --------------------------------------------------------------------------- QC tests
def rnd_threshold(candidates=()):
    r = RNG.random()
    if candidates and r < 0.35:
        c = RNG.choice(list(candidates))
        with np.errstate(over="ignore"):
            return RNG.choice([c, float(np.nextafter(c, np.inf)), float(np.nextafter(c, -np.inf))])
    if r < 0.75:
        return rnd_number()
    if r < 0.85:
        return None
    return RNG.choice([0, 1, np.float32(0.1), np.int64(2), "1", [1.0], np.array(0.5), True, float("nan")])


def cases_pressure_increasing():
    fo, fn_ = O["argo"].pressure_increasing_test, N["argo"].pressure_increasing_test
    specials = [[], [1], [1, 2, 3], [3, 2, 1], [1, 1, 1], [1, 2, 2, 3], [3, 2, 2, 1], [1, 3, 2, 4], [4, 2, 3, 1], [1, 2, 1, 2], [2, 1, 2, 1], [0.1, 0.3, 0.30000000000000004],
                [1e308, -1e308, 1e308], [-1e308, 1e308], [1e308, 1e308], [float("nan"), 1, 2], [1, float("nan"), 0], [None, 1], [1, None, 3], ["1", "2"], ["a"], None, 5, 5.0,
                np.array([250, 5, 10], dtype=np.uint8), np.array([5, 250, 10], dtype=np.uint8), np.array([-128, 127, -128], dtype=np.int8), np.array([[1, 2, 3], [3, 2, 1]]),
                np.array([[1, 2], [3, 4], [5, 0]]), np.asfortranarray(np.array([[1.0, 2.0, 2.0], [5.0, 4.0, 6.0]])), np.array([[1.0], [2.0]]), np.array(3.0),
                np.ma.masked_array([1.0, 2.0, 1.0], mask=[False, True, False]), np.ma.masked_array([3.0, 2.0, 2.5]), pd.Series([1.0, 2.0, 1.5], index=[5, 6, 7]),
                (1, 2, 2), [True, False], [1 + 1j], [[1, 2], [3]], np.array([1, 2, 3], dtype="datetime64[s]"), [float("inf"), float("inf")], [float("-inf"), 0, float("inf")],
                np.array([1, 2, 3])[::-1], np.arange(8.0)[::2], [0.0, -0.0, 0.0]]
    for x in specials:
        CHK.check("argo.pressure_increasing_test", fo, fn_, (x,))
    while CHK.counts["argo.pressure_increasing_test"] < N_PER_FUNCTION:
        n = RNG.randint(0, 8)
        r = RNG.random()
        if r < 0.4:
            vals = rnd_series(n)
        elif r < 0.7:
            vals = sorted(rnd_series(n, allow_none=False, allow_nan=False), reverse=RNG.random() < 0.5)
            if n and RNG.random() < 0.6:
                i = RNG.randrange(n)
                vals[i] = RNG.choice([vals[i - 1], rnd_number(), float("nan")])
        else:
            base = RNG.choice(DECIMALS)
            vals = [base + RNG.choice([0, 0.1, -0.1, 1, -1, 2.3]) * k for k in range(n)]
        x = as_container(vals)
        if isinstance(x, np.ndarray) and not isinstance(x, np.ma.MaskedArray) and x.dtype != object and x.size >= 2 and RNG.random() < 0.15:
            x = nd_variant(x)
        CHK.check("argo.pressure_increasing_test", fo, fn_, (x,))


def cases_speed_test():
    fo, fn_ = O["argo"].speed_test, N["argo"].speed_test
    t3 = np.array(["2020-01-01T00:00:00", "2020-01-01T01:00:00", "2020-01-01T02:00:00"], dtype="datetime64[s]")
    specials = [
        ([], [], [], 1, 2), ([0.0], [0.0], t3[:1], 1, 2), ([0.0, 1.0, 2.0], [0.0, 1.0, 2.0], t3, 1, 2), ([0.0, 1.0, 2.0], [0.0, 1.0, 2.0], t3, None, 2),
        ([0.0, 1.0, 2.0], [0.0, 1.0, 2.0], t3, 1, None), ([0.0, 1.0, 2.0], [0.0, 1.0], t3, 1, 2), ([0.0, 1.0, 2.0], [0.0, 1.0, 2.0], t3[:2], 1, 2),
        ([0.0, None, 2.0], [0.0, 1.0, float("nan")], t3, 1, 2), ([None, None, None], [None, None, None], t3, 1, 2), ([0.0, 1.0, 2.0], [0.0, 1.0, 2.0], t3[[0, 0, 0]], 1, 2),
        ([0.0, 1.0, 2.0], [0.0, 1.0, 2.0], t3[::-1], 1, 2), ([0.0, 1.0, 2.0], [0.0, 1.0, 2.0], np.array(["NaT", "2020-01-01", "NaT"], dtype="datetime64[D]"), 1, 2),
        (5.0, 6.0, np.datetime64("2020-01-01"), 1, 2), (5.0, 6.0, 0, 1, 2), ("a", "b", "c", 1, 2), (["x", "y"], [1, 2], t3[:2], 1, 2), (None, None, None, 1, 2),
        ([[0.0, 1.0], [2.0, 3.0]], [0.0, 1.0, 2.0, 3.0], [0, 1, 2, 3], 1, 2), ([0.0, 1.0, 2.0, 3.0], [[0.0, 1.0], [2.0, 3.0]], [0, 1, 2, 3], 1, 2),
        ([0.0, 1.0, 2.0, 3.0], [0.0, 1.0, 2.0, 3.0], [[0, 1], [2, 3]], 1, 2), ([[0.0, 1.0], [2.0, 3.0]], [[0.0, 1.0], [2.0, 3.0]], [[0, 3600], [7200, 9000]], 20, 40),
        ([0.0, 1.0, 2.0], [0.0, 1.0, 2.0], [0, 3600, 7200], 30.9, 31.0), ([0.0, 1.0, 2.0], [0.0, 1.0, 2.0], [0, 0.4, 0.9], 1, 2), ([0.0, 1.0, 2.0], [0.0, 1.0, 2.0], t3, "1", 2),
        ([0.0, 1.0, 2.0], [0.0, 1.0, 2.0], t3, 1, [1, 2]), ([0.0, 1.0, 2.0], [0.0, 1.0, 2.0], t3, np.array([1.0, 50.0, 1.0]), 2), ([0.0, 200.0], [95.0, 0.0], t3[:2], 1, 2),
    ]
    tf = np.asfortranarray(np.array([["2020-01-01", "2020-01-02", "2020-01-04"], ["2020-01-03", "NaT", "2020-01-05"]], dtype="datetime64[D]"))
    tfm = np.ma.masked_array(tf, mask=np.asfortranarray(np.array([[0, 1, 0], [0, 0, 0]], dtype=bool)))
    xf = np.asfortranarray(np.array([[0.0, 1.0, 2.5], [0.1, 0.3, np.nan]]))
    xfm = np.ma.masked_array(xf, mask=np.asfortranarray(np.array([[0, 0, 1], [0, 0, 0]], dtype=bool)))
    yf = np.array([[10.0, 10.1, 10.2, 0.0], [10.3, np.inf, 10.5, 0.0]])[:, :3]
    for lon, lat, t in [(xf, yf, tf), (xfm, yf, tf), (xf, yf, tfm), (xfm, xfm, tfm), (xf.T, yf.T, tf.T), (xfm.T, yf.T, tfm.T), (yf, xfm, tf.astype("datetime64[h]"))]:
        specials.append((lon, lat, t, 0.5, 1.5))
    for lon, lat, t, s, f in specials:
        CHK.check("argo.speed_test", fo, fn_, (lon, lat, t, s, f))
    coords = [0.0, -0.0, 0.1, 0.3, 2.3, 0.30000000000000004, 45.0, 89.5, 90.0, -90.0, 179.9, 180.0, -180.0, 0.001, 1e-9, 33.3, -71.06, 42.36]
    while CHK.counts["argo.speed_test"] < N_PER_FUNCTION:
        n = RNG.randint(0, 8)

        def coord_list(limit):
            out = []
            for _ in range(n):
                r = RNG.random()
                out.append(None if r < 0.05 else float("nan") if r < 0.12 else RNG.choice(coords) if r < 0.6 else round(RNG.uniform(-limit, limit), 3))
            return out

        lon, lat = coord_list(180), coord_list(90)
        tinp = rnd_time_input(n)
        nd = n >= 2 and RNG.random() < 0.2
        if nd:
            # N-D / Fortran ordered / strided inputs, all of the same logical shape
            state = RNG.getstate()
            lon_a = nd_variant(np.array([np.nan if v is None else v for v in lon]))
            outs = [lon_a]
            for other in (np.array([np.nan if v is None else v for v in lat]), rnd_time_array(n)):
                RNG.setstate(state)
                outs.append(nd_variant(other))
            lon, lat, tinp = outs
            if RNG.random() < 0.3:
                lat = np.ascontiguousarray(lat)
            if RNG.random() < 0.15:
                # same number of points, different shape
                which = RNG.randrange(3)
                outs = [lon, lat, tinp]
                outs[which] = np.ascontiguousarray(outs[which]).reshape(RNG.choice([(n,), (1, n), (n, 1)]))
                lon, lat, tinp = outs
        else:
            lon = as_container(lon, ["list", "tuple", "array", "masked", "series", "f32", "objarr"])
            lat = as_container(lat, ["list", "tuple", "array", "masked", "series", "f32", "objarr"])
            if RNG.random() < 0.04 and n:
                lat = lat[:-1]
        # thresholds next to the speeds that actually occur
        speeds = []
        try:
            with warnings.catch_warnings():
                warnings.simplefilter("ignore")
                la = np.ma.masked_invalid(np.array(lat).astype(float)).flatten()
                lo = np.ma.masked_invalid(np.array(lon).astype(float)).flatten()
                ti = O["utils"].mapdates(copy.deepcopy(tinp)).flatten()
                d = O["utils"].great_circle_distance(la, lo)
                sp = np.abs(d[1:] / np.diff(ti).astype("timedelta64[s]").astype(float))
                speeds = [float(v) for v in np.ma.filled(sp, np.nan) if np.isfinite(v)]
        except Exception:  # noqa: BLE001
            pass
        s, f = rnd_threshold(speeds), rnd_threshold(speeds)
        if RNG.random() < 0.5:
            CHK.check("argo.speed_test", fo, fn_, (lon, lat, tinp, s, f))
        else:
            CHK.check("argo.speed_test", fo, fn_, (), {"fail_threshold": f, "tinp": tinp, "lat": lat, "suspect_threshold": s, "lon": lon})


def cases_valid_range():
    fo, fn_ = O["axds"].valid_range_test, N["axds"].valid_range_test
    d3 = np.array(["2020-01-01", "2020-01-02", "2020-01-03"], dtype="datetime64[D]")
    specials = [
        (([1, 2, 3], (1, 3)), {}), (([1, 2, 3], (1, 3)), {"dtype": np.float64}), (([1, 2, 3], (1, 3)), {"dtype": np.int8}), ((np.array([1, 2, 3]), (1, 3)), {}),
        ((np.array([1, 2, 3]), (1, 3)), {"start_inclusive": False}), ((np.array([1, 2, 3]), (1, 3)), {"end_inclusive": True}), ((np.array([1, 2, 3]), (1, 3)), {"start_inclusive": 1, "end_inclusive": 1}),
        ((np.array([1, 2, 3]), (None, 3)), {}), ((np.array([1, 2, 3]), (1, None)), {}), ((np.array([1, 2, 3]), (None, None)), {}), ((np.array([1.0, np.nan, 3.0]), (float("nan"), 3)), {}),
        ((np.array([1, 2, 3]), (1,)), {}), ((np.array([1, 2, 3]), ()), {}), ((np.array([1, 2, 3]), 2), {}), ((np.array([1, 2, 3]), (1, 2, 3)), {}), ((np.array([1, 2, 3]), (3, 1)), {}),
        ((d3, (d3[0], d3[2])), {}), ((d3, (np.datetime64("NaT"), d3[1])), {}), ((d3, ("2020-01-02", "2020-01-03")), {}), ((d3.astype("datetime64[ns]"), (d3[1], d3[2])), {"end_inclusive": True}),
        ((list(d3), (d3[0], d3[2])), {}), ((pd.Series(d3), (d3[0], d3[1])), {}), ((pd.DatetimeIndex(d3), (d3[0], d3[1])), {}), ((pd.DatetimeIndex(d3, tz="UTC"), (d3[0], d3[1])), {}),
        ((pd.Series(pd.DatetimeIndex(d3, tz="UTC")), (pd.Timestamp(d3[0], tz="UTC"), pd.Timestamp(d3[1], tz="UTC"))), {}),
        ((["2020-01-01", "2020-01-05"], ("2020-01-01", "2020-01-03")), {}), ((["a", "b"], ("a", "b")), {}), ((["a", "b"], ("a", "b")), {"dtype": str}), (([1, 2], (1, 2)), {"dtype": object}),
        (([0, 3600, 7200], (0, 3600)), {}), (([0.5, 1.5], (0.5, 1.5)), {}), (([None, 1.0], (0, 2)), {}), (([None, 1.0], (0, 2)), {"dtype": float}), (([], (0, 1)), {}), (([], (0, 1)), {"dtype": float}),
        ((np.array([]), (0, 1)), {}), ((None, (0, 1)), {}), ((5, (0, 10)), {}), ((5, (0, 10)), {"dtype": int}), ((np.array([[1, 2], [3, 4]]), (2, 4)), {}),
        ((np.asfortranarray(np.array([[1.0, 2.0, 9.0], [3.0, np.nan, 4.0]])), (2, 4)), {}), ((np.array([1, 2, 3], dtype="timedelta64[s]"), (np.timedelta64(1, "s"), np.timedelta64(3, "s"))), {}),
        ((np.array([True, False]), (False, True)), {}), ((np.array([1 + 1j, 2]), (1, 2)), {}), ((np.array([250, 5], dtype=np.uint8), (-1, 300)), {}), ((np.array([1.5, 2.5], dtype=np.float32), (1.5, 2.5)), {}),
        ((np.array([0.1, 0.3], dtype=np.float32), (0.1, 0.3)), {}), ((np.array([1e308, -1e308]), (-1e308, 1e308)), {"end_inclusive": True}), ((pd.Series([1, 2, 3], dtype="Int64"), (1, 3)), {}),
        ((pd.Series([1.0, None, 3.0]), (1, 3)), {}), ((pd.Series(["a"], dtype=object), (1, 3)), {}), (({"a": 1}, (0, 1)), {}), (([1, 2, 3], (1, 3)), {"dtype": "float32"}), (([1, 2, 3], (1, 3)), {"dtype": "nonsense"}),
        (([1, 2, 3], (1, 3)), {"dtype": "datetime64[s]"}), (([1, 2, 3], [1.5, 2.5]), {"dtype": np.int32}), ((np.ma.masked_array([1.0, 2.0, 3.0], mask=[0, 1, 0]), (1, 3)), {}),
        ((np.ma.masked_array([1.0, 2.0, 3.0], mask=[0, 1, 0]), np.ma.masked_array([1.0, 3.0], mask=[1, 0])), {}),
    ]
    for args, kwargs in specials:
        CHK.check("axds.valid_range_test", fo, fn_, args, kwargs)
    while CHK.counts["axds.valid_range_test"] < N_PER_FUNCTION:
        n = RNG.randint(0, 8)
        kwargs = {}
        r = RNG.random()
        if r < 0.65:
            vals = rnd_series(n)
            inp = as_container(vals)
            finite = [v for v in vals if v is not None and math.isfinite(v)]
            span = [rnd_threshold(finite), rnd_threshold(finite)]
            if RNG.random() < 0.7 and all(isinstance(v, float) and not math.isnan(v) for v in span):
                span.sort()
            def as_object_array(pair):
                out = np.empty(len(pair), dtype=object)
                for i, v in enumerate(pair):
                    out[i] = v
                return out

            plain = all(v is None or isinstance(v, (int, float, np.number)) for v in span)
            span = RNG.choice([tuple, list, np.array if plain else as_object_array])(span) if RNG.random() < 0.9 else RNG.choice([(1,), (), 5, (1, 2, 3), None])
            if isinstance(inp, np.ndarray) and not isinstance(inp, np.ma.MaskedArray) and inp.dtype != object and inp.size >= 2 and RNG.random() < 0.25:
                inp = nd_variant(inp)
            if RNG.random() < 0.35:
                kwargs["dtype"] = RNG.choice([np.float64, np.float32, np.int8, np.uint8, np.int64, float, int, "float64", "f4", np.dtype("int16"), object, bool, None, "datetime64[s]", np.complex128])
        else:
            tin = rnd_time_input(n)
            stamps = rnd_time_array(max(n, 2), RNG.choice(["s", "m", "h", "D", "ns"]))
            lo, hi = stamps[0], stamps[-1]
            if RNG.random() < 0.3:
                lo, hi = pd.Timestamp(lo), pd.Timestamp(hi)
            elif RNG.random() < 0.2:
                lo, hi = str(lo), str(hi)
            elif RNG.random() < 0.2:
                lo, hi = pd.Timestamp(lo, tz="UTC") if not pd.isna(lo) else lo, pd.Timestamp(hi, tz="UTC") if not pd.isna(hi) else hi
            if RNG.random() < 0.15:
                lo = RNG.choice([None, np.datetime64("NaT"), pd.NaT])
            inp, span = tin, (lo, hi)
            if RNG.random() < 0.3:
                kwargs["dtype"] = RNG.choice(["datetime64[ns]", "datetime64[s]", "datetime64[D]", np.dtype("M8[m]"), np.float64, object])
        for key in ("start_inclusive", "end_inclusive"):
            if RNG.random() < 0.6:
                kwargs[key] = RNG.choice([True, False, True, False, 1, 0, None, "yes", np.True_])
        if RNG.random() < 0.5:
            CHK.check("axds.valid_range_test", fo, fn_, (inp, span), kwargs)
        else:
            kw = dict(kwargs, valid_span=span, inp=inp)
            CHK.check("axds.valid_range_test", fo, fn_, (), dict(sorted(kw.items(), key=lambda kv: RNG.random())))


def cases_density_inversion():
    fo, fn_ = O["qartod"].density_inversion_test, N["qartod"].density_inversion_test
    specials = [
        (([], []), {}), (([1.0], [1.0]), {}), (([1.0], [1.0]), {"suspect_threshold": 1}), (([None], [1.0]), {}), (([1.0, 2.0], [1.0, 2.0]), {}), (([1.0, 2.0], [1.0]), {}),
        (([1026.0, 1025.0, 1027.0], [1.0, 2.0, 3.0]), {"suspect_threshold": -0.5, "fail_threshold": -2}), (([1026.0, 1025.0, 1027.0], [3.0, 2.0, 1.0]), {"suspect_threshold": 0.5, "fail_threshold": 2}),
        (([1.0, 2.0, 3.0], [1.0, 1.0, 1.0]), {"suspect_threshold": 0.0}), (([1.0, 2.0, 3.0], [1.0, 1.0, 1.0]), {"suspect_threshold": 1e-300}), (([1.0, None, 3.0, 2.0], [1.0, 2.0, float("nan"), 4.0]), {"suspect_threshold": 0, "fail_threshold": -1}),
        (([1.0, 2.0, 1.0], [1.0, 2.0, 3.0]), {"suspect_threshold": -1.0}), (([1.0, 2.0, 1.0], [1.0, 2.0, 3.0]), {"suspect_threshold": float(np.nextafter(-1.0, 0))}), (([1.0, 2.0, 1.0], [1.0, 2.0, 3.0]), {"fail_threshold": "x"}),
        (([1.0, 2.0, 1.0], [1.0, 2.0, 3.0]), {"suspect_threshold": [0, 0]}), (([1.0, 2.0, 1.0], [1.0, 2.0, 3.0]), {"suspect_threshold": np.array([0.0, -5.0])}), (([[1.0, 2.0], [3.0, 1.0]], [[1.0, 2.0], [3.0, 4.0]]), {"suspect_threshold": 0}),
        (([[1.0, 2.0, 0.0], [3.0, 1.0, 0.0]], [[1.0, 2.0, 3.0], [3.0, 4.0, 5.0]]), {"suspect_threshold": 0}), (([[1.0, 2.0, 0.0], [3.0, 1.0, 0.0]], [[1.0, 2.0, 3.0], [3.0, 4.0, 5.0]]), {}),
        (([[1.0], [2.0]], [[1.0], [2.0]]), {"suspect_threshold": 0}), ((np.array(1.0), np.array(2.0)), {"suspect_threshold": 0}), ((5.0, 6.0), {}), ((None, None), {}), ((["a", "b"], [1, 2]), {}),
        (([1e308, -1e308, 1e308], [1.0, 2.0, 3.0]), {"suspect_threshold": 0, "fail_threshold": -1e308}), (([0.1, 0.3, 0.1], [1.0, 2.0, 3.0]), {"suspect_threshold": -0.19999999999999998, "fail_threshold": -0.2}),
        (([float("inf"), 1.0, 2.0], [1.0, 2.0, 3.0]), {"suspect_threshold": 0}), (([1.0, 2.0, 1.0, 2.0, 1.0], [1.0, 2.0, 3.0, 2.0, 1.0]), {"suspect_threshold": 0, "fail_threshold": -0.5}),
    ]
    for args, kwargs in specials:
        CHK.check("qartod.density_inversion_test", fo, fn_, args, kwargs)
    while CHK.counts["qartod.density_inversion_test"] < N_PER_FUNCTION:
        n = RNG.randint(0, 8)
        dens = rnd_series(n)
        r = RNG.random()
        if r < 0.4:
            depth = rnd_series(n)
        else:
            depth = sorted(rnd_series(n, allow_none=False, allow_nan=False), reverse=RNG.random() < 0.4)
            if n and RNG.random() < 0.4:
                depth[RNG.randrange(n)] = RNG.choice([None, float("nan"), depth[0]])
        deltas = []
        try:
            with warnings.catch_warnings():
                warnings.simplefilter("ignore")
                a = np.array(dens, dtype=float)
                z = np.array(depth, dtype=float)
                deltas = [float(v) for v in np.sign(np.diff(z)) * np.diff(a) if np.isfinite(v)]
        except Exception:  # noqa: BLE001
            pass
        inp = as_container(dens)
        zinp = as_container(depth)
        if n >= 2 and RNG.random() < 0.08:
            state = RNG.getstate()
            inp = nd_variant(np.array([np.nan if v is None else v for v in dens]))
            RNG.setstate(state)
            zinp = nd_variant(np.array([np.nan if v is None else v for v in depth]))
        if n and RNG.random() < 0.04:
            zinp = zinp[:-1]
        kwargs = {}
        if RNG.random() < 0.8:
            kwargs["suspect_threshold"] = rnd_threshold(deltas)
        if RNG.random() < 0.8:
            kwargs["fail_threshold"] = rnd_threshold(deltas)
        if RNG.random() < 0.5:
            CHK.check("qartod.density_inversion_test", fo, fn_, (inp, zinp), kwargs)
        else:
            kw = dict(kwargs, zinp=zinp, inp=inp)
            CHK.check("qartod.density_inversion_test", fo, fn_, (), dict(sorted(kw.items(), key=lambda kv: RNG.random())))


def extra_checks():
    """Things the generic harness cannot express."""
    # recursion depth: deeply nested input must hit (or not hit) the recursion limits in both
    def nested(depth):
        top = {}
        cur = top
        for _ in range(depth):
            cur["k"] = {}
            cur = cur["k"]
        return top

    def outcome(func, *args):
        try:
            return describe(func(*args))
        except RecursionError:
            return "RecursionError"

    seen = set()
    for depth in list(range(100, 1300, 7)) + [998, 999, 1000, 1001]:
        a, b = outcome(O["utils"].dict_depth, nested(depth)), outcome(N["utils"].dict_depth, nested(depth))
        seen.update([a if isinstance(a, str) else "value"])
        if a != b:
            CHK.failures += 1
            print("MISMATCH dict_depth recursion", depth, a, b)
        a, b = outcome(O["utils"].dict_update, nested(depth), nested(depth + 1)), outcome(N["utils"].dict_update, nested(depth), nested(depth + 1))
        seen.update([a if isinstance(a, str) else "value"])
        if a != b:
            CHK.failures += 1
            print("MISMATCH dict_update recursion", depth)
        for chain in (["1"] + ["unary -"] * depth, ["1"] * (depth + 1) + ["+"] * depth, ["1"] + [("abs", 1)] * depth):
            a = outcome(O["config_creator.fx_parser"].evaluate_stack, list(chain), {})
            b = outcome(N["config_creator.fx_parser"].evaluate_stack, list(chain), {})
            seen.update([a if isinstance(a, str) else "value"])
            if a != b:
                CHK.failures += 1
                print("MISMATCH evaluate_stack recursion", depth, chain[-1], a, b)
    assert seen == {"value", "RecursionError"}, seen
    # metadata attached by the decorators is untouched
    for sub, name in (("argo", "speed_test"), ("argo", "pressure_increasing_test"), ("axds", "valid_range_test"), ("qartod", "density_inversion_test")):
        fo, fn_ = getattr(O[sub], name), getattr(N[sub], name)
        import inspect
        if str(inspect.signature(fo)) != str(inspect.signature(fn_)) or {k: v for k, v in vars(fo).items()} != {k: v for k, v in vars(fn_).items()}:
            CHK.failures += 1
            print("MISMATCH signature/metadata", sub, name)
    for name in ("mapdates", "isnan", "isfixedlength", "dict_depth", "dict_update", "cf_safe_name", "great_circle_distance"):
        import inspect
        if str(inspect.signature(getattr(O["utils"], name))) != str(inspect.signature(getattr(N["utils"], name))):
            CHK.failures += 1
            print("MISMATCH signature", name)


def main():
    only = sys.argv[1:]
    groups = [cases_mapdates, cases_isnan, cases_isfixedlength, cases_dict_depth, cases_dict_update, cases_cf_safe_name, cases_great_circle_distance,
              cases_fx, cases_validate_fx, cases_pressure_increasing, cases_speed_test, cases_valid_range, cases_density_inversion, extra_checks]
    for group in groups:
        if only and not any(o in group.__name__ for o in only):
            continue
        group()
    for name, count in CHK.counts.items():
        kinds = ", ".join(f"{k}={v}" for k, v in sorted(CHK.kinds[name].items(), key=lambda kv: -kv[1]))
        print(f"{name:40s} {count:6d} inputs   [{kinds}]")
        if not only and count < 3000:
            CHK.failures += 1
            print("   too few inputs")
    if CHK.failures:
        print(f"FAILED: {CHK.failures} mismatches")
        return 1
    print("OK: original and refactored implementations agree on every input")
    return 0


if __name__ == "__main__":
    sys.exit(main())
