#!/usr/bin/env python
"""Differential check: refactored ioos_qc.qartod (worktree) vs the ORIGINAL at the worktree's HEAD commit.

Run as:  PYTHONPATH=<worktree> /venv/bin/python equiv.py
Exits 0 when every generated input gives the same outcome (value incl. type / dtype / shape / mask /
fill_value, or exception type) and neither version mutates its arguments differently.
"""
import copy
import datetime as dt
import importlib.util
import os
import random
import re
import subprocess
import sys
import tempfile
import time
import types
import warnings
from pathlib import Path

import numpy as np
import pandas as pd

HERE = Path(__file__).resolve().parent
N_PER_FUNCTION = int(os.environ.get("EQUIV_N", "5000"))

warnings.simplefilter("ignore")
np.seterr(all="ignore")


# --------------------------------------------------------------------------------------
# load both versions
# --------------------------------------------------------------------------------------
def load_original():
    tmp = Path(tempfile.mkdtemp(prefix="ioos_qc_orig_"))
    pkg = tmp / "ioos_qc_orig"
    names = subprocess.run(
        ["git", "-C", str(HERE), "ls-tree", "-r", "--name-only", "HEAD", "ioos_qc"],
        check=True,
        capture_output=True,
        text=True,
    ).stdout.split()
    for name in names:
        blob = subprocess.run(
            ["git", "-C", str(HERE), "show", f"HEAD:{name}"],
            check=True,
            capture_output=True,
        ).stdout
        target = pkg / Path(name).relative_to("ioos_qc")
        target.parent.mkdir(parents=True, exist_ok=True)
        if name.endswith(".py"):
            text = blob.decode("utf-8")
            # every reference to the package (imports, import_module(f"ioos_qc.{...}"), module name
            # prefixes) must stay inside the private copy
            text = re.sub(r"\bioos_qc\.", "ioos_qc_orig.", text)
            text = re.sub(r"\bfrom ioos_qc import\b", "from ioos_qc_orig import", text)
            text = re.sub(r"^import ioos_qc$", "import ioos_qc_orig", text, flags=re.M)
            target.write_text(text, encoding="utf-8")
        else:
            target.write_bytes(blob)
    spec = importlib.util.spec_from_file_location(
        "ioos_qc_orig",
        pkg / "__init__.py",
        submodule_search_locations=[str(pkg)],
    )
    mod = importlib.util.module_from_spec(spec)
    sys.modules["ioos_qc_orig"] = mod
    spec.loader.exec_module(mod)
    import ioos_qc_orig.qartod as orig_qartod  # noqa: PLC0415

    assert "ioos_qc_orig" in orig_qartod.__file__
    assert orig_qartod.isfixedlength.__module__ == "ioos_qc_orig.utils"
    return orig_qartod


ORIG = load_original()
import ioos_qc.qartod as NEW  # noqa: E402

assert str(HERE) in NEW.__file__, NEW.__file__


# --------------------------------------------------------------------------------------
# comparison helpers
# --------------------------------------------------------------------------------------
def same_array(a, b):
    if a.dtype != b.dtype or a.shape != b.shape:
        return False
    if a.dtype.kind in "fc":
        return np.array_equal(a, b, equal_nan=True) and np.array_equal(np.signbit(a), np.signbit(b))
    if a.dtype.kind == "O":
        return len(a.ravel()) == len(b.ravel()) and all(same(x, y) for x, y in zip(a.ravel(), b.ravel()))
    if a.dtype.kind in "mM":
        return np.array_equal(a.view("i8"), b.view("i8"))
    return np.array_equal(a, b)


def same(a, b):
    if type(a) is not type(b):
        return False
    if isinstance(a, np.ma.MaskedArray):
        if (np.ma.getmask(a) is np.ma.nomask) != (np.ma.getmask(b) is np.ma.nomask):
            return False
        if not same_array(np.ma.getmaskarray(a), np.ma.getmaskarray(b)):
            return False
        if not same_array(np.asarray(a.fill_value), np.asarray(b.fill_value)):
            return False
        if a.hardmask != b.hardmask:
            return False
        return same_array(a.data, b.data)
    if isinstance(a, np.ndarray):
        return same_array(a, b)
    if isinstance(a, (pd.Series, pd.Index)):
        try:
            return a.equals(b) and a.dtype == b.dtype
        except Exception:  # noqa: BLE001
            return False
    if isinstance(a, (list, tuple)):
        return len(a) == len(b) and all(same(x, y) for x, y in zip(a, b))
    if isinstance(a, dict):
        return a.keys() == b.keys() and all(same(a[k], b[k]) for k in a)
    if isinstance(a, types.SimpleNamespace):
        return same(vars(a), vars(b))
    if isinstance(a, float):
        return (a != a and b != b) or a == b
    if isinstance(a, types.GeneratorType):
        return True
    try:
        return bool(a == b) or (a != a and b != b)
    except Exception:  # noqa: BLE001
        return a is b


def outcome(func, args, kwargs):
    try:
        return ("ok", func(*args, **kwargs))
    except Exception as e:  # noqa: BLE001
        return ("exc", type(e))


class Case:
    """Arguments are built twice from a factory so that the two versions never share objects."""

    def __init__(self, factory):
        self.factory = factory


FAILURES = []


def check(name, factory, idx):
    args_o, kw_o = factory()
    args_n, kw_n = factory()
    pristine_args, pristine_kw = factory()
    res_o = outcome(getattr(ORIG, name), args_o, kw_o)
    res_n = outcome(getattr(NEW, name), args_n, kw_n)
    ok = res_o[0] == res_n[0]
    if ok:
        ok = (res_o[1] is res_n[1]) if res_o[0] == "exc" else same(res_o[1], res_n[1])
    # argument mutation must be the same (i.e. none that the original does not do)
    mut_ok = same(list(args_o), list(args_n)) and same(kw_o, kw_n)
    if not (ok and mut_ok):
        FAILURES.append((name, idx, pristine_args, pristine_kw, res_o, res_n, "mutation" if ok else "result"))
    return res_o[0]


# --------------------------------------------------------------------------------------
# input generators
# --------------------------------------------------------------------------------------
NUMS = [
    0.0, -0.0, 0.1, 0.2, 0.3, 0.1 + 0.2, 2.3, 2.3000000000000003, 2.2999999999999994, 1.0, -1.0, 2.0, 3.0, 5.0,
    10.0, -10.0, 1e308, -1e308, 1.7e308, 1e-300, 5e-324, 0.5, 1.5, 2.5, 100.0, 90.0, -90.0, 180.0, -180.0,
    180.00000000000003, 89.99999999999999, 7, 3, -4,
]
BAD = [float("nan"), None, float("inf"), float("-inf")]


def pick_values(rng, n, p_bad=0.25, pool=NUMS):
    out = []
    for _ in range(n):
        r = rng.random()
        if r < p_bad:
            out.append(rng.choice(BAD))
        elif r < p_bad + 0.15 and out:
            out.append(out[-1])  # repeats matter for flat line / spikes
        elif r < p_bad + 0.25 and out and isinstance(out[-1], (int, float)) and out[-1] == out[-1]:
            out.append(out[-1] + rng.choice([0.1, -0.1, 1e-9, 0.3, -2.3]))
        else:
            out.append(rng.choice(pool))
    return out


def as_float_list(vals):
    return [np.nan if v is None else float(v) for v in vals]


def wrap_values(rng, vals, allow_nd=True):
    """Return a zero-argument factory producing a fresh container holding `vals`."""
    kinds = ["list", "f8", "obj", "masked", "swapped", "strided", "f4", "series", "tuple", "reversed_view"]
    n = len(vals)
    if allow_nd and n in (4, 6, 8):
        kinds += ["2d", "2dF", "2d", "2dF"]
    if allow_nd and n == 1:
        kinds += ["0d", "scalar"]
    if all(v is not None and v == v and abs(v) < 1e9 and float(v).is_integer() for v in vals):
        kinds += ["i4", "i8", "u1"]
    kind = rng.choice(kinds)
    mask_bits = [rng.random() < 0.3 for _ in vals]
    shape2 = (2, n // 2) if rng.random() < 0.5 else (n // 2, 2)

    def factory():
        fl = as_float_list(vals)
        if kind == "list":
            return list(vals)
        if kind == "tuple":
            return tuple(vals)
        if kind == "f8":
            return np.array(fl, dtype="f8")
        if kind == "obj":
            return np.array(list(vals), dtype=object)
        if kind == "masked":
            return np.ma.masked_array(np.array(fl, dtype="f8"), mask=list(mask_bits) if n else False)
        if kind == "swapped":
            return np.array(fl, dtype=">f8")
        if kind == "strided":
            buf = np.zeros(2 * n + 1, dtype="f8")
            buf[1::2][:n] = fl
            return buf[1::2][:n]
        if kind == "reversed_view":
            return np.array(fl[::-1], dtype="f8")[::-1]
        if kind == "f4":
            return np.array(fl, dtype="f4")
        if kind == "series":
            return pd.Series(fl, dtype="float64")
        if kind == "2d":
            return np.array(fl, dtype="f8").reshape(shape2)
        if kind == "2dF":
            return np.asfortranarray(np.array(fl, dtype="f8").reshape(shape2))
        if kind == "0d":
            return np.array(fl[0])
        if kind == "scalar":
            return vals[0]
        if kind == "i4":
            return np.array(fl, dtype="i4")
        if kind == "i8":
            return np.array(fl, dtype="i8")
        if kind == "u1":
            return np.array(fl).astype("u1")
        raise AssertionError(kind)

    return factory


def wrap_number(rng, v, allow_none=False, allow_bad=True):
    """Factory for a threshold-like scalar in a random spelling."""
    r = rng.random()
    if allow_none and r < 0.15:
        return lambda: None
    if allow_bad and r < 0.2:
        bad = rng.choice(["abc", float("nan"), float("inf"), float("-inf"), None, [1, 2], "3"])
        return lambda: copy.deepcopy(bad)
    kind = rng.choice(["py", "py", "np64", "np32", "0d", "int", "npint", "0dint"])

    def factory():
        if kind == "py":
            return v
        if kind == "np64":
            return np.float64(v)
        if kind == "np32":
            return np.float32(v)
        if kind == "0d":
            return np.array(float(v))
        if kind == "int":
            return int(v) if abs(v) < 1e18 else v
        if kind == "npint":
            return np.int32(int(v)) if abs(v) < 2e9 else np.float64(v)
        if kind == "0dint":
            return np.array(int(v)) if abs(v) < 1e18 else np.array(v)
        raise AssertionError(kind)

    return factory


THRESHOLDS = [0, 0.1, 0.3, 2.3, 1, 2, 3, 5, 10, 0.5, 1e-9, 1e308, -1, 60, 3600, 86400, 172800, 86400 * 30, 7.5, 100]


def time_axis(rng, n):
    """Factory for a time axis of (usually) n stamps in one of many spellings."""
    if rng.random() < 0.08:
        n = max(0, n + rng.choice([-1, 1, 2]))
    step = rng.choice([1, 1, 10, 60, 600, 3600, 86400, 7 * 86400, 0.5, 90])
    base = rng.choice([0, 1_500_000_000, 86400 * 365, 4_000_000_000, 946684800])
    secs = [base + i * step for i in range(n)]
    r = rng.random()
    if r < 0.25 and n:
        rng.shuffle(secs)  # unsorted
    if r > 0.75 and n > 1:
        j = rng.randrange(1, n)
        secs[j] = secs[j - 1]  # duplicate
    if 0.4 < r < 0.5 and n > 2:
        secs = [secs[0] + ((s - secs[0]) * rng.choice([1, 1, 3])) for s in secs]  # irregular
    nat_at = {i for i in range(n) if rng.random() < 0.1} if rng.random() < 0.3 else set()
    kind = rng.choice(
        [
            "ns", "ns", "s", "m", "h", "D", "ms", "dtindex", "dtindex_utc", "series_utc", "series_naive", "pydt",
            "epoch_list", "epoch_f8", "epoch_i4", "epoch_u4", "epoch_i8", "strings", "pydt_tz", "ns2d",
        ],
    )

    def ns_array():
        arr = (np.array(secs, dtype="f8") * 1e9).astype("i8").astype("datetime64[ns]") if n else np.array([], dtype="datetime64[ns]")
        for i in nat_at:
            arr[i] = np.datetime64("NaT")
        return arr

    def factory():
        if kind == "ns":
            return ns_array()
        if kind in ("s", "m", "h", "D", "ms"):
            return ns_array().astype(f"datetime64[{kind}]")
        if kind == "dtindex":
            return pd.DatetimeIndex(ns_array())
        if kind == "dtindex_utc":
            return pd.DatetimeIndex(ns_array(), tz="UTC")
        if kind == "series_utc":
            return pd.Series(pd.DatetimeIndex(ns_array(), tz="UTC"))
        if kind == "series_naive":
            return pd.Series(ns_array())
        if kind == "pydt":
            return [dt.datetime(1970, 1, 1) + dt.timedelta(seconds=float(s)) for s in secs]
        if kind == "pydt_tz":
            return [dt.datetime(1970, 1, 1, tzinfo=dt.timezone.utc) + dt.timedelta(seconds=float(s)) for s in secs]
        if kind == "epoch_list":
            return list(secs)
        if kind == "epoch_f8":
            return np.array(secs, dtype="f8")
        if kind == "epoch_i4":
            return np.array([int(s) % (2**31 - 1) for s in secs], dtype="i4")
        if kind == "epoch_u4":
            return np.array([int(s) % (2**32 - 1) for s in secs], dtype="u4")
        if kind == "epoch_i8":
            return np.array([int(s) for s in secs], dtype="i8")
        if kind == "strings":
            return [str(x) for x in ns_array().astype("datetime64[s]")] if not nat_at else ns_array()
        if kind == "ns2d":
            a = ns_array()
            return a.reshape(2, n // 2) if n in (4, 6, 8) else a
        raise AssertionError(kind)

    return factory


def series_len(rng):
    return rng.choice([0, 0, 1, 1, 2, 2, 3, 3, 4, 5, 6, 7, 8, 8])


# ---- per function case factories -------------------------------------------------------
def gen_gross_range(rng):
    n = series_len(rng)
    vals = pick_values(rng, n)
    inp = wrap_values(rng, vals)

    def span_factory(allow_none):
        r = rng.random()
        if allow_none and r < 0.25:
            return lambda: None
        lo, hi = rng.choice(NUMS), rng.choice(NUMS)
        if r < 0.5 and vals:
            good = [v for v in vals if v is not None and v == v]
            if good:
                lo = rng.choice(good)  # exactly on a bound
        fa, fb = wrap_number(rng, lo, allow_bad=rng.random() < 0.12), wrap_number(rng, hi, allow_bad=rng.random() < 0.12)
        shape = rng.choice(["tuple"] * 5 + ["list"] * 3 + ["rev"] * 3 + ["three", "array", "one"])

        def f():
            a, b = fa(), fb()
            if shape == "tuple":
                return (a, b)
            if shape == "list":
                return [a, b]
            if shape == "rev":
                return (b, a)
            if shape == "three":
                return (a, b, a)
            if shape == "one":
                return (a,)
            return np.array([1.0, 2.0])

        return f

    fail = span_factory(rng.random() < 0.1)
    susp = span_factory(True)
    if rng.random() < 0.4:
        # nested suspect span inside a wide fail span so that the happy path is exercised
        a, b = sorted([rng.choice(NUMS[:20]), rng.choice(NUMS[:20])])
        fail = lambda: (a - 1, b + 1)  # noqa: E731
        susp = lambda: (a, b) if rng.random() < 2 else None  # noqa: E731
    style = rng.random()

    def factory():
        if style < 0.5:
            return (inp(), fail(), susp()), {}
        if style < 0.8:
            return (inp(),), {"suspect_span": susp(), "fail_span": fail()}
        return (inp(), fail()), {}

    return factory


def gen_location(rng):
    n = series_len(rng)
    pool = NUMS + [179.9, -179.9, 45.0, -45.0, 0.001, 30.0, 30.0001, 181.0, -91.0]
    lon_vals = pick_values(rng, n, pool=pool)
    lat_vals = pick_values(rng, n if rng.random() > 0.05 else max(0, n - 1), pool=pool)
    if rng.random() < 0.7:
        # plausible track so that great circle distances are finite
        lon_vals = [v if (v is None or v != v or abs(v) == float("inf")) else max(-185.0, min(185.0, float(v) % 50.0 + rng.choice([0, 0, 0.001, 100]))) for v in lon_vals]
        lat_vals = [v if (v is None or v != v or abs(v) == float("inf")) else max(-89.0, min(89.0, float(v) % 40.0)) for v in lat_vals]
    seed = rng.random()
    sub = random.Random(seed)
    lon = wrap_values(sub, lon_vals)
    sub = random.Random(seed)  # same container kind for both, so that N-D shapes line up
    lat = wrap_values(sub, lat_vals) if len(lat_vals) == len(lon_vals) else wrap_values(rng, lat_vals)
    r = rng.random()
    if r < 0.4:
        bbox = None
        use_default = True
    else:
        use_default = False
        corners = [rng.choice([-180, -90, 0, 10, 0.1, 0.3, 2.3, 30, 90, 180, -10, 45.0]) for _ in range(4)]
        fs = [wrap_number(rng, c, allow_bad=rng.random() < 0.15) for c in corners]
        shape = rng.choice(["tuple"] * 6 + ["list"] * 4 + ["sorted"] * 8 + ["three", "none", "array"])

        def bbox():
            c = [f() for f in fs]
            if shape == "tuple":
                return tuple(c)
            if shape == "list":
                return c
            if shape == "three":
                return tuple(c[:3])
            if shape == "none":
                return None
            if shape == "sorted":
                try:
                    a, b = sorted(c[:2]), sorted(c[2:])
                    return (a[0], b[0], a[1], b[1])
                except Exception:  # noqa: BLE001
                    return tuple(c)
            return np.array([0.0, 0.0, 1.0, 1.0])

    rm = wrap_number(rng, rng.choice([0, 1, 1000, 1e5, 1e6, 2.3, 1e7, 5e6, 1e308]), allow_none=True, allow_bad=rng.random() < 0.2)
    use_rm = rng.random() < 0.6

    def factory():
        kw = {}
        if not use_default:
            kw["bbox"] = bbox()
        if use_rm:
            kw["range_max"] = rm()
        return (lon(), lat()), kw

    return factory


def gen_spike(rng):
    n = series_len(rng)
    vals = pick_values(rng, n, p_bad=rng.choice([0.0, 0.15, 0.3, 1.0]))
    inp = wrap_values(rng, vals)
    st = wrap_number(rng, rng.choice(THRESHOLDS), allow_none=True, allow_bad=rng.random() < 0.2)
    ft = wrap_number(rng, rng.choice(THRESHOLDS), allow_none=True, allow_bad=rng.random() < 0.2)
    method = rng.choice(["average"] * 6 + ["differential"] * 8 + ["median", None, np.str_("average"), np.str_("differential"), "Average"])
    style = rng.random()

    def factory():
        if style < 0.4:
            return (inp(), st(), ft(), method), {}
        if style < 0.8:
            return (inp(),), {"method": method, "fail_threshold": ft(), "suspect_threshold": st()}
        if style < 0.9:
            return (inp(),), {"suspect_threshold": st()}
        return (inp(), st(), ft()), {}

    return factory


def gen_flat_line(rng):
    n = series_len(rng)
    vals = pick_values(rng, n, p_bad=rng.choice([0.0, 0.1, 0.3, 1.0]))
    if rng.random() < 0.5 and n:
        base = rng.choice(NUMS)
        vals = [v if rng.random() < 0.3 else base + rng.choice([0, 0, 0, 0.1, 1e-9, -0.1, 0.3]) for v in vals]
    inp = wrap_values(rng, vals)
    tinp = time_axis(rng, n)
    ths = [0, 1, 2, 3, 5, 10, 20, 60, 120, 600, 3600, 7200, 86400, 172800, 86400 * 7, 86400 * 30, 1.5, -1, 2.9]
    st = wrap_number(rng, rng.choice(ths), allow_bad=rng.random() < 0.15)
    ft = wrap_number(rng, rng.choice(ths), allow_bad=rng.random() < 0.15)
    tol = wrap_number(rng, rng.choice([0, 0.1, 0.3, 0.30000000000000004, 1e-9, 1, 2.3, 1e308, 0.2, 0.01]), allow_bad=rng.random() < 0.1)
    style = rng.random()

    def factory():
        if style < 0.4:
            return (inp(), tinp(), st(), ft(), tol()), {}
        if style < 0.8:
            return (inp(), tinp()), {"tolerance": tol(), "fail_threshold": ft(), "suspect_threshold": st()}
        return (inp(), tinp(), st(), ft()), {}

    return factory


def gen_attenuated(rng):
    n = series_len(rng)
    vals = pick_values(rng, n, p_bad=rng.choice([0.0, 0.1, 0.3, 1.0]))
    inp = wrap_values(rng, vals)
    tinp = time_axis(rng, n)
    st = wrap_number(rng, rng.choice(THRESHOLDS), allow_bad=rng.random() < 0.15)
    ft = wrap_number(rng, rng.choice(THRESHOLDS), allow_bad=rng.random() < 0.15)
    tp = wrap_number(rng, rng.choice([0, 1, 2, 10, 60, 600, 3600, 86400, 172800, 86400 * 30, 1.5, -5]), allow_none=True, allow_bad=rng.random() < 0.1)
    mo = wrap_number(rng, rng.choice([0, 1, 2, 3, 5, 9, -1]), allow_none=True, allow_bad=rng.random() < 0.1)
    if rng.random() < 0.8:
        mo_v = rng.choice([None, 0, 1, 2, 3, 5, np.int64(2), np.int32(1)])
        mo = lambda: mo_v  # noqa: E731
    mp = wrap_number(rng, rng.choice([0, 1, 10, 60, 3600, 86400, 172800, 2.5, -60]), allow_none=True, allow_bad=rng.random() < 0.1)
    ct = rng.choice(["std"] * 7 + ["range"] * 7 + ["ptp", None, np.str_("std"), np.str_("range"), ["std"]])
    which = rng.random()

    def factory():
        kw = {}
        if which < 0.7:
            kw["test_period"] = tp()
        if 0.2 < which < 0.6:
            kw["min_obs"] = mo()
        if which > 0.45:
            kw["min_period"] = mp()
        if ct != "std" or rng.random() < 2:
            kw["check_type"] = copy.deepcopy(ct)
        if which < 0.1:
            kw["extra"] = 1
        return (inp(), tinp(), st(), ft()), kw

    return factory


def gen_density(rng):
    n = series_len(rng)
    vals = pick_values(rng, n, p_bad=rng.choice([0.0, 0.15, 0.3, 1.0]), pool=NUMS + [1024.0, 1024.1, 1024.3, 1025.0, 1023.9])
    zn = n if rng.random() > 0.06 else max(0, n + rng.choice([-1, 1]))
    zvals = pick_values(rng, zn, p_bad=rng.choice([0.0, 0.1, 0.3]), pool=[0, 1, 2, 3, 5, 10, 10.1, 10.3, 20, 50, 100, 1e308, -5, 2.3])
    if rng.random() < 0.4:
        zvals = [v if (v is None or v != v) else float(i) * rng.choice([1, 1, 2.3]) for i, v in enumerate(zvals)]
        if rng.random() < 0.4:
            zvals = zvals[::-1]
    seed = rng.random()
    inp = wrap_values(random.Random(seed), vals)
    zinp = wrap_values(random.Random(seed), zvals) if zn == n else wrap_values(rng, zvals)
    ths = [0, -0.1, -0.3, 0.1, 0.3, -2.3, -1, -0.01, -1e308, 1e308, 3, -0.03, 0.03]
    st = wrap_number(rng, rng.choice(ths), allow_none=True, allow_bad=rng.random() < 0.2)
    ft = wrap_number(rng, rng.choice(ths), allow_none=True, allow_bad=rng.random() < 0.2)
    style = rng.random()

    def factory():
        if style < 0.45:
            return (inp(), zinp(), st(), ft()), {}
        if style < 0.9:
            return (inp(), zinp()), {"fail_threshold": ft(), "suspect_threshold": st()}
        return (inp(), zinp()), {}

    return factory


FLAG_POOL = [1, 2, 3, 4, 9, 1, 4, 3, 9, 2, 0, 5, 255]


def flag_vector(rng, n):
    vals = [rng.choice(FLAG_POOL) for _ in range(n)]
    kind = rng.choice(["u1"] * 6 + ["i8", "f8", "f8nan", "masked", "masked_all", "mafloat"] * 3 + ["series", "obj"] * 2 + ["list", "2d", "0d"])
    mask_bits = [rng.random() < 0.4 for _ in vals]

    def factory():
        if kind == "u1":
            return np.array(vals, dtype="u1")
        if kind == "i8":
            return np.array(vals, dtype="i8")
        if kind == "f8":
            return np.array(vals, dtype="f8")
        if kind == "f8nan":
            a = np.array(vals, dtype="f8")
            a[[i for i, m in enumerate(mask_bits) if m]] = np.nan
            return a
        if kind == "masked":
            return np.ma.masked_array(np.array(vals, dtype="u1"), mask=list(mask_bits) if n else False)
        if kind == "masked_all":
            return np.ma.masked_array(np.zeros(n, dtype="u1"), mask=np.ones(n, dtype=bool))
        if kind == "mafloat":
            return np.ma.masked_invalid(np.array(vals, dtype="f8"))
        if kind == "list":
            return list(vals)
        if kind == "2d":
            return np.array(vals, dtype="u1").reshape(1, n)
        if kind == "0d":
            return np.array(vals[0] if vals else 1, dtype="u1")
        if kind == "series":
            return pd.Series(vals, dtype="uint8")
        if kind == "obj":
            return np.array([None if m else v for v, m in zip(vals, mask_bits)], dtype=object)
        raise AssertionError(kind)

    return factory, kind


def gen_vectors(rng):
    n = series_len(rng)
    k = rng.choice([0] + [1, 2, 2, 3, 3, 4, 5] * 3)
    facs = []
    for _ in range(k):
        m = n if rng.random() > 0.03 else max(0, n + rng.choice([-1, 1]))
        f, kind = flag_vector(rng, m)
        facs.append(f)
    container = rng.choice(["list", "list", "list", "tuple", "gen", "2darr", "dup"])
    return facs, container


def gen_qartod_compare(rng):
    facs, container = gen_vectors(rng)

    def factory():
        vs = [f() for f in facs]
        if container == "tuple":
            return (tuple(vs),), {}
        if container == "gen":
            return ((v for v in vs),), {}
        if container == "2darr":
            try:
                return (np.array([np.asarray(v) for v in vs]),), {}
            except Exception:  # noqa: BLE001
                return (vs,), {}
        if container == "dup" and vs:
            return (vs + [vs[0]],), {}  # the same object twice
        return (vs,), {}

    return factory


def gen_aggregate(rng):
    facs, container = gen_vectors(rng)
    broken = rng.random() < 0.08

    def factory():
        rs = [types.SimpleNamespace(results=f(), stream_id="s", test="t") for f in facs]
        if broken and rs:
            del rs[-1].results
        if container == "tuple":
            return (tuple(rs),), {}
        if container == "gen":
            return ((r for r in rs),), {}
        if container == "dup" and rs:
            return (rs + [rs[0]],), {}
        return (rs,), {}

    return factory


GENERATORS = {
    "gross_range_test": gen_gross_range,
    "location_test": gen_location,
    "spike_test": gen_spike,
    "flat_line_test": gen_flat_line,
    "attenuated_signal_test": gen_attenuated,
    "density_inversion_test": gen_density,
    "qartod_compare": gen_qartod_compare,
    "aggregate": gen_aggregate,
}


# ---- hand written corner cases ---------------------------------------------------------
def fixed_cases():
    inf, nan = float("inf"), float("nan")
    t = lambda n, step=60: np.arange(n).astype("i8").astype("datetime64[s]") * step  # noqa: E731
    ts = lambda n, step=60: (np.arange(n) * step).astype("datetime64[s]")  # noqa: E731
    cases = []
    add = lambda name, *a, **k: cases.append((name, (lambda: (copy.deepcopy(a), copy.deepcopy(k)))))  # noqa: E731
    # empty / all-missing input together with invalid parameters
    for empty in ([], [nan, nan], [None], [inf, -inf, nan]):
        add("gross_range_test", empty, (1, 2, 3))
        add("gross_range_test", empty, "ab")
        add("gross_range_test", empty, (1, 5), (0, 6))
        add("gross_range_test", empty, (1, 5), (2, 3, 4))
        add("gross_range_test", empty, (1, None))
        add("gross_range_test", empty, (1, 5), (2, "x"))
        add("spike_test", empty, 1, 2, "nope")
        add("spike_test", empty, "a", "b")
        add("spike_test", empty, None, None, "differential")
        add("location_test", empty, empty, bbox=(1, 2, 3))
        add("location_test", empty, empty, bbox=None)
        add("location_test", empty, empty + [1.0])
        add("location_test", empty, empty, range_max="far")
        add("flat_line_test", empty, ts(len(empty)), "x", 3)
        add("flat_line_test", empty, ts(len(empty)), None, None, None)
        add("flat_line_test", empty, "not a time", 1, 2)
        add("attenuated_signal_test", empty, ts(len(empty)), 1, 2, check_type="bad")
        add("attenuated_signal_test", empty, "not a time", 1, 2)
        add("attenuated_signal_test", empty, ts(len(empty)), "a", "b")
        add("attenuated_signal_test", empty, ts(len(empty)), 1, 2, test_period="x")
        add("attenuated_signal_test", empty, ts(len(empty)), 1, 2, test_period=60, min_obs="x")
        add("attenuated_signal_test", empty, ts(len(empty)), 1, 2, test_period=60, min_period=0)
        add("density_inversion_test", empty, empty + [1.0], 1, 2)
        add("density_inversion_test", empty, empty, "a", "b")
        add("density_inversion_test", np.zeros((0, 3)), np.zeros((0, 3)))
        add("density_inversion_test", np.zeros((1, 1)), np.zeros((1, 1)), 1, 2)
    # N-D inputs everywhere
    sq = np.array([[1.0, 2.0, 9.0], [4.0, nan, 4.0]])
    add("density_inversion_test", sq, sq, -0.1, -0.2)
    add("density_inversion_test", sq, sq)
    add("density_inversion_test", sq.T, sq.T, -0.1, None)
    add("density_inversion_test", sq[:, :1], sq[:, :1], -0.1, -1)
    add("attenuated_signal_test", sq, ts(6).reshape(2, 3), 1, 2)
    add("attenuated_signal_test", sq, ts(6), 1, 2, test_period=120)
    add("attenuated_signal_test", sq.ravel(), ts(6), 1, 2, test_period=120, min_period=60, check_type="range")
    add("attenuated_signal_test", np.array(5.0), ts(1), 1, 2)
    add("flat_line_test", sq, ts(6).reshape(2, 3), 60, 120, 10)
    add("flat_line_test", np.asfortranarray(sq), ts(6), 60, 120, 10)
    add("spike_test", np.asfortranarray(sq), 1, 2)
    add("spike_test", np.asfortranarray(sq), 1, 2, "differential")
    add("gross_range_test", np.asfortranarray(sq), (1, 4), (2, 3))
    add("location_test", np.asfortranarray(sq), np.asfortranarray(sq * 2), range_max=1000)
    add("location_test", sq, np.asfortranarray(sq * 2), bbox=(0, 0, 5, 5))
    add("location_test", sq.T[::-1], sq.T, bbox=(0, 0, 5, 5))
    add("location_test", np.arange(24.0).reshape(2, 3, 4), np.arange(24.0).reshape(2, 3, 4).transpose(0, 2, 1).copy().transpose(0, 2, 1))
    # inf quirks: data kept under the mask
    add("location_test", [-inf, inf, 1, nan], [nan, nan, inf, -inf])
    add("location_test", [-inf, inf, 1, nan], [1, 1, -inf, -inf], bbox=[-10, -10, 10, 10])
    add("gross_range_test", [-inf, inf, nan, 1], (0, 2), (0.5, 1.5))
    add("spike_test", [1, 2, inf, inf, 5, -inf, 2, 2], 1, 2, "differential")
    add("spike_test", [inf, inf, 1, 2, -inf, -inf, 7, 1], 0, 0, "differential")
    add("spike_test", [1e308, -1e308, 1e308, 1e308, 1e308], 1, 2)
    add("spike_test", [1e308, -1e308, 1e308, 1e308, 1e308], 1, 2, "differential")
    add("density_inversion_test", [1, 2, 1, 4], [1, inf, 2, 3], 0.5, -0.5)
    add("density_inversion_test", [1, 2, 1, 4], [4, 3, 2, 1], np.array(0.5), np.float32(-0.5))
    # flat line window arithmetics
    for n in range(0, 9):
        for st, ft in ((0, 0), (60, 120), (120, 60), (59, 61), (10**6, 10**9), (-60, 60), (60, -60), (2**62, 1)):
            add("flat_line_test", [1.0] * n, ts(n), st, ft, 0.1)
            add("flat_line_test", [1.0, 1.05] * (n // 2) + [nan] * (n % 2), ts(n), st, ft, np.array(0.1))
    add("flat_line_test", [1.0] * 6, ts(6, 0), 1, 2, 0.1)  # zero interval
    add("flat_line_test", [1.0] * 6, np.array(["NaT"] * 6, dtype="datetime64[s]"), 1, 2, 0.1)
    add("flat_line_test", [1.0] * 6, ts(6, 86400), 86400, 172800, 0.1)
    add("flat_line_test", [1.0] * 6, ts(6, 86400).astype("datetime64[D]"), np.int32(86400), np.array(172800), 0.1)
    add("flat_line_test", [1.0] * 6, ts(2), 60, 120, 0.1)  # short time axis
    add("flat_line_test", [1.0] * 6, [], 60, 120, 0.1)
    for n in range(0, 9):
        for kw in ({}, {"test_period": 120}, {"test_period": 86400, "min_obs": 2}, {"test_period": 172800, "min_period": 86400},
                   {"test_period": 120, "min_period": 60, "check_type": "range"}, {"check_type": "range"}):
            add("attenuated_signal_test", [1.0, 1.1, 1.3, 3.6, 3.6, nan, 2.3, inf][:n], ts(n), 0.3, 0.1, **kw)
            add("attenuated_signal_test", [nan] * n, ts(n, 86400), np.float64(0.3), np.array(0.1), **kw)
    # qartod_compare
    v = np.array([1, 2, 3, 4, 9], dtype="u1")
    add("qartod_compare", [])
    add("qartod_compare", [v, v[::-1], v])
    add("qartod_compare", [v, v[:4]])
    add("qartod_compare", [v.reshape(1, 5)])
    add("qartod_compare", [np.array(1)])
    add("qartod_compare", [[1, 2, 3]])
    add("qartod_compare", [np.ma.masked_array(v, mask=[1, 0, 1, 0, 1]), np.ma.masked_array(np.zeros(5, dtype="u1"), mask=True)])
    add("aggregate", [])
    add("aggregate", [types.SimpleNamespace(results=v), types.SimpleNamespace(results=v[::-1].copy())])
    add("aggregate", [types.SimpleNamespace(other=v)])
    return cases


def tz_cases():
    """Naive python datetimes while the process runs in a non-UTC local zone."""
    cases = []
    base = dt.datetime(2021, 3, 14, 1, 30)  # around a DST change in EST5EDT
    for n in range(0, 9):
        stamps = [base + dt.timedelta(minutes=20 * i) for i in range(n)]
        vals = [1.0, 1.1, 1.1, 1.1, 5.0, nan_, 5.0, 5.0][:n]
        cases.append(("flat_line_test", lambda vals=vals, stamps=stamps: ((list(vals), list(stamps), 1200, 2400, 0.01), {})))
        cases.append(("attenuated_signal_test", lambda vals=vals, stamps=stamps: ((list(vals), list(stamps), 0.5, 0.1), {"test_period": 3600, "min_period": 1200})))
        cases.append(("attenuated_signal_test", lambda vals=vals, stamps=stamps: ((list(vals), pd.DatetimeIndex(stamps, tz="UTC") if stamps else pd.DatetimeIndex([], tz="UTC"), 0.5, 0.1), {"test_period": 86400, "check_type": "range"})))
    return cases


nan_ = float("nan")


def pipeline_cases(n_cases=250):
    """The same functions reached through Config / streams / collect_results / aggregate."""
    import ioos_qc.config as new_config  # noqa: PLC0415
    import ioos_qc.results as new_results  # noqa: PLC0415
    import ioos_qc.streams as new_streams  # noqa: PLC0415
    import ioos_qc_orig.config as orig_config  # noqa: PLC0415
    import ioos_qc_orig.results as orig_results  # noqa: PLC0415
    import ioos_qc_orig.streams as orig_streams  # noqa: PLC0415

    probe = orig_config.Config({"streams": {"x": {"qartod": {"spike_test": {"suspect_threshold": 1, "fail_threshold": 2}}}}})
    assert all(c.func.__module__ == "ioos_qc_orig.qartod" for c in probe.calls), [c.func.__module__ for c in probe.calls]

    def run(cfg_mod, streams_mod, results_mod, qartod_mod, kind, cfg, df):
        config = cfg_mod.Config(copy.deepcopy(cfg))
        if kind == "pandas":
            stream = streams_mod.PandasStream(df.copy())
        else:
            sid = next(iter(cfg["streams"]))
            stream = streams_mod.NumpyStream(
                inp=df[sid].to_numpy().copy(),
                time=df["time"].to_numpy().copy(),
                z=df["z"].to_numpy().copy(),
                lat=df["lat"].to_numpy().copy(),
                lon=df["lon"].to_numpy().copy(),
            )
        collected = results_mod.collect_results(list(stream.run(config)), how="list")
        out = [(c.stream_id, c.package, c.test, c.results) for c in collected]
        out.append(("aggregate", qartod_mod.aggregate(collected)))
        return out

    rng = random.Random("equiv-pipeline")
    n_bad = 0
    for i in range(n_cases):
        n = rng.choice([0, 1, 2, 3, 5, 8, 8])
        sid = rng.choice(["temp", "temp[0]", "sal*", "what?", "a[b]*?", "7"])
        df = pd.DataFrame(
            {
                "time": (np.arange(n) * rng.choice([1, 60, 86400])).astype("datetime64[s]").astype("datetime64[ns]"),
                "z": as_float_list(pick_values(rng, n, p_bad=0.1, pool=[0, 1, 2, 5, 10])),
                "lat": as_float_list(pick_values(rng, n, p_bad=0.1, pool=[10.0, 10.001, 45.0, 89.0, 91.0])),
                "lon": as_float_list(pick_values(rng, n, p_bad=0.1, pool=[-70.0, -70.001, 179.0, 181.0, 0.1])),
                sid: as_float_list(pick_values(rng, n)),
            },
        )
        tests = {
            "gross_range_test": {"fail_span": [rng.choice([-10, 0, 0.1]), rng.choice([3, 10, 2.3])], "suspect_span": [0.3, 2.3]},
            "spike_test": {"suspect_threshold": rng.choice([0.1, 1, np.float64(2.3)]), "fail_threshold": 5, "method": rng.choice(["average", "differential"])},
            "flat_line_test": {"suspect_threshold": rng.choice([1, 120, 86400]), "fail_threshold": rng.choice([2, 600, 172800]), "tolerance": 0.1},
            "attenuated_signal_test": {"suspect_threshold": 0.3, "fail_threshold": 0.1, "check_type": rng.choice(["std", "range"])},
            "location_test": {"bbox": [-180, -90, 180, 90], "range_max": rng.choice([None, 1000, 1e6])},
            "density_inversion_test": {"suspect_threshold": -0.1, "fail_threshold": -1},
        }
        keep = [t for t in tests if rng.random() < 0.7] or ["spike_test"]
        cfg = {"streams": {sid: {"qartod": {t: tests[t] for t in keep}}}}
        kind = rng.choice(["pandas", "numpy"])
        res_o = outcome(run, (orig_config, orig_streams, orig_results, ORIG, kind, cfg, df), {})
        res_n = outcome(run, (new_config, new_streams, new_results, NEW, kind, cfg, df), {})
        ok = res_o[0] == res_n[0]
        if ok and res_o[0] == "exc":
            ok = res_o[1] is res_n[1]
            n_bad += 1
        elif ok:
            ok = len(res_o[1]) == len(res_n[1]) and all(same(list(a[:-1]), list(b[:-1])) and same(a[-1], b[-1]) for a, b in zip(res_o[1], res_n[1]))
        if not ok:
            FAILURES.append(("pipeline", i, (kind, cfg), df.to_dict("list"), res_o, res_n, "result"))
    return n_cases, n_bad


def main():
    totals = {}
    for name, gen in GENERATORS.items():
        rng = random.Random(f"equiv-{name}")
        counts = {"ok": 0, "exc": 0}
        for i in range(N_PER_FUNCTION):
            counts[check(name, gen(rng), i)] += 1
        totals[name] = counts
    n_fixed = 0
    for name, factory in fixed_cases():
        totals[name][check(name, factory, f"fixed-{n_fixed}")] += 1
        n_fixed += 1
    old_tz = os.environ.get("TZ")
    os.environ["TZ"] = "EST5EDT"
    time.tzset()
    try:
        for name, factory in tz_cases():
            totals[name][check(name, factory, f"tz-{n_fixed}")] += 1
            n_fixed += 1
        for name in ("flat_line_test", "attenuated_signal_test"):
            rng = random.Random(f"equiv-tz-{name}")
            for i in range(300):
                totals[name][check(name, GENERATORS[name](rng), f"tz-{i}")] += 1
    finally:
        if old_tz is None:
            os.environ.pop("TZ", None)
        else:
            os.environ["TZ"] = old_tz
        time.tzset()

    n_pipe, n_pipe_exc = pipeline_cases()
    print(f"pipeline (Config -> stream -> collect_results -> aggregate): {n_pipe} cases, {n_pipe_exc} raised")
    for name, counts in totals.items():
        print(f"{name:26s} returned={counts['ok']:5d} raised={counts['exc']:5d}")
    # attribute metadata added by the decorator must be unchanged as well
    for name in GENERATORS:
        fo, fn = getattr(ORIG, name), getattr(NEW, name)
        meta_o = {k: v for k, v in vars(fo).items()}
        meta_n = {k: v for k, v in vars(fn).items()}
        if meta_o != meta_n:
            FAILURES.append((name, "metadata", meta_o, meta_n, None, None, "metadata"))
        import inspect  # noqa: PLC0415

        if str(inspect.signature(fo)) != str(inspect.signature(fn)):
            FAILURES.append((name, "signature", None, None, None, None, "signature"))
    if FAILURES:
        print(f"{len(FAILURES)} MISMATCHES")
        for f in FAILURES[:15]:
            name, idx, args, kw, ro, rn, why = f
            print("-" * 80)
            print(name, idx, why)
            print("  args:", repr(args)[:600])
            print("  kwargs:", repr(kw)[:300])
            print("  original:", repr(ro)[:400])
            print("  refactor:", repr(rn)[:400])
        return 1
    print("all equivalent")
    return 0


if __name__ == "__main__":
    sys.exit(main())
