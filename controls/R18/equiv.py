"""Equivalence check: refactored worktree modules vs. the modules of the HEAD commit.

Run as:  PYTHONPATH=<worktree> /venv/bin/python equiv.py
The ORIGINAL sources are taken with `git show HEAD:ioos_qc/<file>` and loaded under the
package name ioos_qc_orig (never from /repo).
"""
import copy
import dataclasses
import datetime as dt
import importlib
import importlib.util
import io
import logging
import math
import os
import random
import re
import struct
import subprocess
import sys
import tempfile
import time
import warnings
from collections import OrderedDict
from functools import partial

import numpy as np
import pandas as pd

WT = os.path.dirname(os.path.abspath(__file__))
ONLY = set(sys.argv[1:])  # optionally restrict to some sections


# --------------------------------------------------------------------------------------
# load the original package from HEAD under another name
# --------------------------------------------------------------------------------------
def load_original():
    tmp = tempfile.mkdtemp(prefix="ioos_qc_orig_")
    root = os.path.join(tmp, "ioos_qc_orig")
    names = subprocess.check_output(
        ["git", "-C", WT, "ls-tree", "-r", "HEAD", "--name-only", "ioos_qc"],
        text=True,
    ).split()
    pat = re.compile(r"(?<![A-Za-z0-9_/])ioos_qc(?=\.|\s+import)")
    for name in names:
        if not name.endswith(".py"):
            continue
        src = subprocess.check_output(["git", "-C", WT, "show", f"HEAD:{name}"], text=True)
        src = pat.sub("ioos_qc_orig", src)
        dest = os.path.join(root, os.path.relpath(name, "ioos_qc"))
        os.makedirs(os.path.dirname(dest), exist_ok=True)
        with open(dest, "w") as f:
            f.write(src)
    spec = importlib.util.spec_from_file_location(
        "ioos_qc_orig",
        os.path.join(root, "__init__.py"),
        submodule_search_locations=[root],
    )
    mod = importlib.util.module_from_spec(spec)
    sys.modules["ioos_qc_orig"] = mod
    spec.loader.exec_module(mod)
    return mod


warnings.simplefilter("ignore")
load_original()


class Side:
    def __init__(self, pkg):
        self.pkg = pkg
        self.utils = importlib.import_module(pkg + ".utils")
        self.config = importlib.import_module(pkg + ".config")
        self.streams = importlib.import_module(pkg + ".streams")
        self.stores = importlib.import_module(pkg + ".stores")
        self.results = importlib.import_module(pkg + ".results")
        self.qartod = importlib.import_module(pkg + ".qartod")
        self.fx = importlib.import_module(pkg + ".config_creator.fx_parser")


NEW = Side("ioos_qc")
OLD = Side("ioos_qc_orig")
assert NEW.utils.__file__.startswith(WT), NEW.utils.__file__
assert not OLD.utils.__file__.startswith(WT)
SIDES = (NEW, OLD)


# --------------------------------------------------------------------------------------
# log capture
# --------------------------------------------------------------------------------------
class Capture(logging.Handler):
    def __init__(self):
        super().__init__(level=logging.DEBUG)
        self.records = []

    def emit(self, record):
        self.records.append(
            (record.levelname, record.name.replace("ioos_qc_orig", "ioos_qc"), str(record.msg), repr(record.args)),
        )


CAP = Capture()
for lname in ("ioos_qc", "ioos_qc_orig"):
    lg = logging.getLogger(lname)
    lg.setLevel(logging.DEBUG)
    lg.addHandler(CAP)
    lg.propagate = False


# --------------------------------------------------------------------------------------
# canonical form of values
# --------------------------------------------------------------------------------------
def modname(name):
    return str(name).replace("ioos_qc_orig", "ioos_qc")


def norm(x, depth=0):  # noqa: C901, PLR0911, PLR0912
    if depth > 60:
        return ("deep",)
    d = depth + 1
    if x is None or isinstance(x, (bool, str, bytes)):
        return (type(x).__name__, x)
    if isinstance(x, int):
        return ("int", x)
    if isinstance(x, np.ma.MaskedArray):
        mask = np.ma.getmaskarray(x)
        data = np.asarray(x.data)
        if data.dtype == object:
            body = tuple(("masked",) if m else norm(v, d) for v, m in zip(data.ravel().tolist(), mask.ravel().tolist()))
        else:
            filled = np.where(mask, np.zeros((), dtype=data.dtype), data)
            body = np.ascontiguousarray(filled).astype(data.dtype.newbyteorder("=")).tobytes()
        return (
            "ma",
            type(x).__name__,
            x.dtype.str,
            x.shape,
            mask.tobytes(),
            x.mask is np.ma.nomask,
            body,
            norm(x.fill_value, d),
            bool(x.hardmask),
        )
    if isinstance(x, np.ndarray):
        if x.dtype == object:
            body = tuple(norm(v, d) for v in x.ravel().tolist())
        else:
            body = np.ascontiguousarray(x).astype(x.dtype.newbyteorder("=")).tobytes()
        return (
            "nd",
            type(x).__name__,
            x.dtype.str,
            x.shape,
            body,
            bool(x.flags.c_contiguous),
            bool(x.flags.f_contiguous),
        )
    if isinstance(x, (pd.Timestamp, pd.Timedelta, dt.datetime, dt.date, dt.timedelta)) or x is pd.NaT:
        return ("time", type(x).__name__, repr(x))
    if isinstance(x, np.generic):
        return ("npscalar", x.dtype.str, np.asarray(x).tobytes())
    if isinstance(x, float):
        return ("float", struct.pack("<d", x))
    if isinstance(x, complex):
        return ("complex", struct.pack("<dd", x.real, x.imag))
    if isinstance(x, pd.DataFrame):
        return (
            "df",
            norm(x.columns, d),
            norm(x.index, d),
            tuple(norm(x.iloc[:, i], d) for i in range(x.shape[1])),
        )
    if isinstance(x, pd.Series):
        return ("series", str(x.dtype), norm(x.name, d), norm(x.index, d), norm(x.to_numpy(), d))
    if isinstance(x, pd.Index):
        return ("index", type(x).__name__, str(x.dtype), norm(list(x.names), d), norm(x.to_numpy(), d))
    if isinstance(x, BaseException):
        return ("exc", modname(type(x).__module__), type(x).__name__)
    if isinstance(x, partial):
        return ("partial", norm(x.func, d), norm(x.args, d), norm(x.keywords, d))
    if hasattr(x, "wkb_hex") and hasattr(x, "geom_type"):
        return ("geom", x.geom_type, x.wkb_hex)
    if isinstance(x, tuple) and hasattr(x, "_fields"):
        return ("nt", type(x).__name__, tuple((f, norm(getattr(x, f), d)) for f in x._fields))
    if dataclasses.is_dataclass(x) and not isinstance(x, type):
        return (
            "dc",
            type(x).__name__,
            tuple((f.name, norm(getattr(x, f.name), d)) for f in dataclasses.fields(x)),
        )
    if isinstance(x, dict):
        return ("dict", type(x).__name__, tuple((norm(k, d), norm(v, d)) for k, v in x.items()))
    if isinstance(x, (list, tuple)):
        return (type(x).__name__, tuple(norm(v, d) for v in x))
    if isinstance(x, (set, frozenset)):
        return (type(x).__name__, tuple(sorted(repr(norm(v, d)) for v in x)))
    if isinstance(x, type):
        return ("type", modname(x.__module__), x.__qualname__)
    if callable(x) and hasattr(x, "__qualname__"):
        return ("fn", modname(getattr(x, "__module__", None)), x.__qualname__)
    if isinstance(x, slice):
        return ("slice", repr(x))
    return ("obj", modname(type(x).__module__), type(x).__qualname__)


# --------------------------------------------------------------------------------------
# runner
# --------------------------------------------------------------------------------------
COUNTS = {}
FAILS = {}
KINDS = {}
MAXSHOW = 5


def outcome(thunk, side):
    CAP.records = []
    with warnings.catch_warnings(record=True) as wlist:
        warnings.simplefilter("always")
        try:
            res = ("ok", norm(thunk(side)))
        except RecursionError:
            res = ("exc", "RecursionError")
        except Exception as e:  # noqa: BLE001
            res = ("exc", norm(e))
    ws = tuple((w.category.__name__, str(w.message)) for w in wlist)
    return res, tuple(CAP.records), ws


def check(section, thunk, describe=None):
    """thunk(side) is run for both sides; everything it returns/raises/logs/warns must agree."""
    COUNTS[section] = COUNTS.get(section, 0) + 1
    a = outcome(thunk, NEW)
    b = outcome(thunk, OLD)
    kind = a[0][0] if a[0][0] == "ok" else str(a[0][1])
    KINDS.setdefault(section, {})
    KINDS[section][kind] = KINDS[section].get(kind, 0) + 1
    if a != b:
        FAILS[section] = FAILS.get(section, 0) + 1
        if FAILS[section] <= MAXSHOW:
            print(f"MISMATCH in {section}: {describe() if callable(describe) else describe}")
            for label, (x, y) in zip(("result", "logs", "warnings"), zip(a, b)):
                if x != y:
                    print(f"   {label}:\n     new: {str(x)[:1500]}\n     old: {str(y)[:1500]}")
    return a[0]


def want(section):
    return not ONLY or section in ONLY


# --------------------------------------------------------------------------------------
# shared generators
# --------------------------------------------------------------------------------------
SPECIAL = [0.0, -0.0, 0.1, 0.3, 2.3, 0.1 + 0.2, 1.0, -1.0, 1e308, -1e308, 5e-324, np.nan, np.inf, -np.inf, 10.0, 20.0]


def rand_floats(rng, n, allow_bad=True):
    out = []
    for _ in range(n):
        r = rng.random()
        if r < 0.35:
            v = rng.choice(SPECIAL)
            if not allow_bad and not math.isfinite(v):
                v = 1.5
            out.append(v)
        elif r < 0.7:
            out.append(float(rng.randint(-5, 25)))
        else:
            out.append(rng.uniform(-30, 30))
    return out


UNITS = ["s", "m", "h", "D", "ms", "us", "ns"]


def rand_time_array(rng, n, unit=None, nat=True, sort=None):
    unit = unit or rng.choice(UNITS)
    base = np.datetime64("2020-01-01T00:00:00")
    steps = {"s": 1, "m": 60, "h": 3600, "D": 86400, "ms": 1, "us": 1, "ns": 1}[unit]
    vals = []
    cur = 0
    for _ in range(n):
        cur += rng.choice([0, 1, 1, 2, 5, 3600, 86400, 90000]) * (1 if unit in ("ms", "us", "ns") else 1)
        vals.append(cur)
    if sort is None:
        sort = rng.random() < 0.6
    if not sort:
        rng.shuffle(vals)
    if unit in ("s", "ms", "us", "ns"):
        arr = (base + np.array(vals, dtype="timedelta64[s]")).astype(f"datetime64[{unit}]") if n else np.array([], dtype=f"datetime64[{unit}]")
    else:
        arr = (base.astype(f"datetime64[{unit}]") + np.array([v // steps if steps > 1 else v for v in vals], dtype=f"timedelta64[{unit}]")) if n else np.array([], dtype=f"datetime64[{unit}]")
    arr = np.array(arr, dtype=f"datetime64[{unit}]")
    if nat and n:
        for i in range(n):
            if rng.random() < 0.15:
                arr[i] = np.datetime64("NaT")
    return arr


def finish():
    ok = True
    print()
    for sec in sorted(COUNTS):
        f = FAILS.get(sec, 0)
        print(f"{sec:40s} cases={COUNTS[sec]:6d} mismatches={f}")
        print("      outcomes:", ", ".join(f"{k}={v}" for k, v in sorted(KINDS[sec].items(), key=lambda kv: -kv[1])))
        if f:
            ok = False
        if not ONLY and COUNTS[sec] < 3000:
            print(f"   too few cases for {sec}")
            ok = False
    print("EQUIVALENT" if ok else "DIFFERENT")
    sys.exit(0 if ok else 1)


# ======================================================================================
# utils.mapdates
# ======================================================================================
class OddDates:
    """has a dtype attribute that is of no use"""

    def __init__(self, dtype, payload):
        self.dtype = dtype
        self.payload = payload

    def __iter__(self):
        return iter(self.payload)

    def __len__(self):
        return len(self.payload)

    def __getitem__(self, i):
        return self.payload[i]


def gen_dates(rng):  # noqa: C901, PLR0911, PLR0912
    n = rng.randint(0, 8)
    kind = rng.randint(0, 27)
    if kind == 0:
        return rand_time_array(rng, n)
    if kind == 1:
        return pd.Series(rand_time_array(rng, n))
    if kind == 2:
        return pd.DatetimeIndex(rand_time_array(rng, n, unit="ns"))
    if kind == 3:
        return pd.Series(pd.DatetimeIndex(rand_time_array(rng, n, unit="ns")).tz_localize("UTC"))
    if kind == 4:
        return pd.DatetimeIndex(rand_time_array(rng, n, unit="ns")).tz_localize("UTC")
    if kind == 5:
        tz = rng.choice(["US/Eastern", "Asia/Tokyo", "UTC"])
        idx = pd.DatetimeIndex(rand_time_array(rng, n, unit=rng.choice(["s", "ms", "us", "ns"]))).tz_localize("UTC").tz_convert(tz)
        return idx if rng.random() < 0.5 else pd.Series(idx, index=list(range(n))[::-1])
    if kind == 6:
        return [rng.choice([0, 1, 86400, 1.5, 1e9, 1577836800, -1, np.nan, None, 2**31, 0.1]) for _ in range(n)]
    if kind == 7:
        dtp = rng.choice(["int32", "uint32", "int64", "float64", "float32", ">f8", "int8"])
        return np.array([rng.choice([0, 1, 86400, 1577836800, 2**31 - 1, 100]) for _ in range(n)]).astype(dtp)
    if kind == 8:
        a = np.array(rand_floats(rng, n)) * rng.choice([1.0, 1e3, 1e9])
        return a
    if kind == 9:
        return [rng.choice(["2020-01-01", "2020-01-01T00:00:01", "2021-06-30T12:00:00Z", "NaT", "nonsense", "1999-12-31 23:59"]) for _ in range(n)]
    if kind == 10:
        return [rng.choice([dt.datetime(2020, 1, 1), dt.datetime(1999, 5, 5, 5, 5, 5), pd.Timestamp("2020-02-02"), np.datetime64("2020-03-03"), pd.NaT, None]) for _ in range(n)]
    if kind == 11:
        return rng.choice([None, 5, 5.5, "2020-01-01", np.float64(86400.0), np.int32(7), np.datetime64("2020-01-01", "s"), np.datetime64("NaT"), pd.Timestamp("2020-01-01"), pd.Timestamp("2020-01-01", tz="UTC"), dt.datetime(2020, 1, 1), np.array(5), np.array(np.datetime64("2020-01-01", "D")), True, (), {}, "", np.nan])
    if kind == 12:
        a = rand_time_array(rng, n)
        return np.ma.masked_array(a, mask=[rng.random() < 0.3 for _ in range(n)])
    if kind == 13:
        a = rand_time_array(rng, 8)
        return a[:: rng.choice([1, 2, 3, -1])]
    if kind == 14:
        a = rand_time_array(rng, 6, nat=False).reshape(2, 3)
        return rng.choice([a, a.T, np.asfortranarray(a)])
    if kind == 15:
        return pd.Series(rand_floats(rng, n)) * rng.choice([1.0, 1e6])
    if kind == 16:
        return pd.Series([rng.choice([0, 86400, 1577836800]) for _ in range(n)], dtype=rng.choice(["int64", "int32", "uint32", "object"]))
    if kind == 17:
        return pd.Series([rng.choice(["2020-01-01", "2020-05-05T01:00:00", "junk", None]) for _ in range(n)], dtype=object)
    if kind == 18:
        # far dates
        unit = rng.choice(["s", "D", "h", "m"])
        return np.array([rng.choice(["9999-12-31", "2020-01-01", "1677-01-01", "0001-01-01", "2262-04-11", "2262-04-12"]) for _ in range(n)], dtype=f"datetime64[{unit}]")
    if kind == 19:
        unit = rng.choice(["s", "ms"])
        vals = np.array([rng.choice(["9999-12-31", "2020-01-01", "1600-01-01"]) for _ in range(n)], dtype=f"datetime64[{unit}]")
        s = pd.Series(vals)
        return s if rng.random() < 0.5 else s.dt.tz_localize("UTC")
    if kind == 20:
        return OddDates(rng.choice([None, "datetime64[ns]", "M8[s]", float, "junk", np.dtype("M8[D]"), 3]), [0, 86400][: rng.randint(0, 2)])
    if kind == 21:
        import xarray as xr

        return xr.DataArray(rng.choice([rand_time_array(rng, n), np.array(rand_floats(rng, n))]))
    if kind == 22:
        return pd.period_range("2020-01", periods=n, freq="M")
    if kind == 23:
        return pd.Series(pd.to_timedelta([rng.choice([0, 1, 100]) for _ in range(n)], unit="s"))
    if kind == 24:
        return tuple(rng.choice([0, 1.5, 86400 * 366, 1e10, 1e18, 1e19, -1e19]) for _ in range(n))
    if kind == 25:
        return np.array([rng.choice([0, 1, 2**32 - 1, 2**31]) for _ in range(n)], dtype="uint32")[::-1]
    if kind == 26:
        return pd.Series(rand_time_array(rng, n, unit=rng.choice(["s", "ms", "us"])), index=[f"r{i}" for i in range(n)], name="when")
    return pd.array(rand_time_array(rng, n, unit="ns"))


def section_mapdates():
    sec = "utils.mapdates"
    for i in range(4200):
        rng = random.Random(1000 + i)
        dates = gen_dates(rng)
        snapshot = norm(dates)

        def thunk(side, dates=dates, snapshot=snapshot):
            r = side.utils.mapdates(dates)
            return r, norm(dates) == snapshot

        check(sec, thunk, lambda dates=dates: repr(dates)[:300])


# ======================================================================================
# utils.great_circle_distance
# ======================================================================================
def gen_latlon(rng):  # noqa: C901, PLR0912
    n = rng.choice([0, 1, 2, 2, 3, 3, 4, 5, 6, 7, 8, 8])
    m = n if rng.random() < 0.95 else rng.randint(0, 8)

    def coords(k, lim):
        out = []
        for _ in range(k):
            r = rng.random()
            if r < 0.12:
                out.append(rng.choice([np.nan, np.inf, -np.inf, 1e308, lim, -lim, lim + 0.1, 0.0, -0.0, 0.1, 0.3]))
            elif r < 0.4:
                out.append(float(rng.randint(-int(lim), int(lim))))
            else:
                out.append(rng.uniform(-lim, lim))
        return out

    lat = np.array(coords(n, 90.0))
    lon = np.array(coords(m, 180.0))
    form = rng.randint(0, 13)
    if form == 1:
        lat = np.ma.masked_array(lat, mask=[rng.random() < 0.3 for _ in range(n)])
        lon = np.ma.masked_array(lon, mask=[rng.random() < 0.3 for _ in range(m)])
    elif form == 2:
        lat = np.ma.masked_invalid(lat)
        lon = np.ma.masked_invalid(lon)
    elif form == 3:
        lat, lon = pd.Series(lat), pd.Series(lon)
    elif form == 4:
        lat, lon = lat.tolist(), lon.tolist()
    elif form == 5:
        lat, lon = lat.astype(">f8"), lon.astype(">f8")
    elif form == 6:
        lat, lon = np.repeat(lat, 2)[::2], np.repeat(lon, 3)[::3]
    elif form == 7:
        lat, lon = np.round(lat).astype("int32"), np.round(np.nan_to_num(lon, posinf=0, neginf=0)).astype("int64")
        lat = np.clip(lat, -90, 90)
    elif form == 8 and n == m and n in (4, 6, 8):
        lat, lon = lat.reshape(2, -1), lon.reshape(2, -1)
        if rng.random() < 0.5:
            lat, lon = np.asfortranarray(lat), np.asfortranarray(lon)
    elif form == 9:
        lat, lon = lat.astype("float32"), lon.astype("float32")
    elif form == 10:
        lat = np.ma.masked_array(lat, mask=rng.random() < 0.5)
    elif form == 11:
        lon = pd.Series(lon, index=[f"i{k}" for k in range(m)])
    elif form == 12:
        lat, lon = lat.astype(object), lon
    return lat, lon


def section_gcd():
    sec = "utils.great_circle_distance"
    for i in range(3600):
        rng = random.Random(2000 + i)
        lat, lon = gen_latlon(rng)
        snapshot = norm((lat, lon))

        def thunk(side, lat=lat, lon=lon, snapshot=snapshot):
            r = side.utils.great_circle_distance(lat, lon)
            return r, type(r).__name__, norm((lat, lon)) == snapshot

        check(sec, thunk, lambda lat=lat, lon=lon: (repr(lat), repr(lon)))


# ======================================================================================
# utils.dict_depth
# ======================================================================================
class MyDict(dict):
    pass


def gen_nested(rng, depth):
    r = rng.random()
    if depth <= 0 or r < 0.25:
        return rng.choice([None, 1, "x", [], [{}], [{"a": {"b": 1}}], (1, 2), {}, OrderedDict(), 2.5, MyDict(), np.array([1]), {1: 2}])
    maker = rng.choice([dict, OrderedDict, MyDict])
    out = maker()
    for k in range(rng.randint(0, 4)):
        out[rng.choice(["a", "b", "c", 1, 2.0, None, ("t",), f"k{k}"])] = gen_nested(rng, depth - rng.randint(1, 2))
    return out


def chain(n, leaf=None, maker=dict):
    d = leaf
    for _ in range(n):
        d = maker([("k", d)])
    return d


def section_dict_depth():
    sec = "utils.dict_depth"
    for i in range(3300):
        rng = random.Random(3000 + i)
        d = gen_nested(rng, rng.randint(0, 7))
        check(sec, lambda side, d=d: side.utils.dict_depth(d), lambda d=d: repr(d)[:300])
    # deep chains: the point where recursion gives up must not move
    for n in list(range(1, 60, 7)) + list(range(100, 1200, 25)) + [1500, 2500, 5000]:
        for maker in (dict, OrderedDict):
            for leaf in (None, {}, [1]):
                d = chain(n, leaf, maker)
                check(sec, lambda side, d=d: side.utils.dict_depth(d), f"chain of {n}")
    loop = {}
    loop["me"] = loop
    check(sec, lambda side: side.utils.dict_depth(loop), "self referential")
    wide = {i: {j: {} for j in range(50)} for i in range(50)}
    check(sec, lambda side: side.utils.dict_depth(wide), "wide")



# ======================================================================================
# config_creator.fx_parser.eval_fx / evaluate_stack
# ======================================================================================
NUMBERS = ["3.", "2.e1", ".5", "007", "0", "1", "2", "10", "0.1", "0.3", "2.3", "1e308", "1E3", "1e-3", "3.14", "1e400",
           "2.5e+2", "4.e-1", "00.50", "1_0", "0x10", "1e", "1.e", "5..", "9" * 25, "0.30000000000000004", "inf", "nan"]
IDENTS = ["mean", "min", "max", "std", "PI", "pi", "Pi", "E", "e", "x", "foo", "mean_", "Mean", "MIN", "a$b", "sinx", "exp", "abs"]
FUNCS = ["sin", "cos", "tan", "exp", "abs", "trunc", "round", "sgn", "SIN", "sqrt", "mean", "max"]


def gen_expr(rng, depth):  # noqa: PLR0911
    r = rng.random()
    if depth <= 0 or r < 0.3:
        r2 = rng.random()
        if r2 < 0.55:
            return rng.choice(NUMBERS)
        if r2 < 0.9:
            return rng.choice(IDENTS)
        return rng.choice(["", "()", "-", "+", "3 4", "$", "1,2", "mean std"])
    if r < 0.55:
        op = rng.choice(["+", "-", "*", "/", "^", "^", "**", "%", " + ", " - ", "* ", " /"])
        return gen_expr(rng, depth - 1) + op + gen_expr(rng, depth - 1)
    if r < 0.68:
        return "(" + gen_expr(rng, depth - 1) + ")"
    if r < 0.8:
        return rng.choice(["-", "--", "+", "-+-", "- ", "+-"]) + gen_expr(rng, depth - 1)
    if r < 0.84:
        # two arguments whose order matters
        return "round(" + gen_expr(rng, depth - 1) + ", trunc(" + rng.choice(["0", "1", "2", "3.", "-1", "1.9"]) + "))"
    if r < 0.97:
        f = rng.choice(FUNCS)
        nargs = rng.choice([1, 1, 1, 1, 2, 0, 3])
        return f + "(" + ", ".join(gen_expr(rng, depth - 1) for _ in range(nargs)) + ")"
    return gen_expr(rng, depth - 1) + rng.choice([")", "(", " ", "e", "."])


def gen_stats(rng):
    r = rng.random()
    if r < 0.6:
        return {"mean": rng.choice([0.0, 10.5, -3.0, 0.1, 1e308, np.nan]), "min": rng.choice([-1.0, 0, 2, -np.inf]),
                "max": rng.choice([20.0, 3, np.inf, np.float64(7.5), np.float32(0.1)]), "std": rng.choice([0.0, 1.5, 0.3, np.array(2.0)])}
    if r < 0.7:
        return {"mean": 1.0}
    if r < 0.8:
        return {"mean": None, "min": "a", "max": [1], "std": np.array([1.0, 2.0])}
    if r < 0.9:
        return pd.Series({"mean": 1.5, "min": 0.5, "max": 2.5, "std": 0.25})
    return rng.choice([None, {}, [], 5])


def gen_stack(rng):
    n = rng.randint(0, 7)
    pool = ["1", "2.5", ".5", "3.", "+", "-", "*", "/", "^", "unary -", "PI", "E", "mean", "min", "max", "std", "x", "",
            "+-", "*/", "-*", ("sin", 1), ("abs", 1), ("round", 2), ("round", 1), ("sgn", 1), ("trunc", 1), ("exp", 1),
            ("sin", 0), ("sin", 2), ("nofn", 1), ("abs",), ("abs", 1, 2), "abs", "round", 3.0, 2, None, "1e400", "007",
            "_x", "$", "é", "٣", "1_0", " 1 ", ("mean", 0), ("+", 2), (), "inf", "nan", "-1", "+2", "0x1"]
    return [rng.choice(pool) for _ in range(n)]


def section_fx():
    sec = "fx_parser.eval_fx"
    for i in range(3600):
        rng = random.Random(4000 + i)
        fx = gen_expr(rng, rng.randint(0, 4))
        if rng.random() < 0.03:
            fx = rng.choice([None, 5, b"1+1", ["1"], "  ", "\n1+1", "1+1\n", "mean + 2*std", "max - std/2", "-mean^2", "2^3^2", "-2^2"])
        stats = gen_stats(rng)

        def thunk(side, fx=fx, stats=stats):
            before = len(side.fx.exprStack)
            try:
                r = side.fx.eval_fx(fx, stats)
            except RecursionError:
                r = "recursion"
            except Exception as e:  # noqa: BLE001
                r = ("raised", norm(e), str(e) if type(e) is Exception else None)
            tail = list(side.fx.exprStack[before:])
            return r, type(r).__name__, tail, len(side.fx.exprStack)

        def thunk_state(side):
            return list(side.fx.exprStack[-40:]), len(side.fx.exprStack)

        check(sec, thunk, lambda fx=fx, stats=stats: (fx, stats))
        if i % 50 == 0:
            check(sec, thunk_state, "state of the module stack")

    sec = "fx_parser.evaluate_stack"
    for i in range(4000):
        rng = random.Random(5000 + i)
        if rng.random() < 0.5:
            # a well formed stack taken from a parse, sometimes damaged
            fx = gen_expr(rng, rng.randint(0, 3))
            before = len(OLD.fx.exprStack)
            try:
                with warnings.catch_warnings():
                    warnings.simplefilter("ignore")
                    OLD.fx.BNF().parseString(fx, parseAll=True)
            except Exception:  # noqa: BLE001
                pass
            stack = list(OLD.fx.exprStack[before:])
            del OLD.fx.exprStack[before:]
            if rng.random() < 0.3 and stack:
                stack[rng.randrange(len(stack))] = rng.choice(gen_stack(rng) or ["1"])
        else:
            stack = gen_stack(rng)
        stats = gen_stats(rng)

        def thunk(side, stack=stack, stats=stats):
            s = list(stack)
            try:
                r = side.fx.evaluate_stack(s, stats)
            except BaseException as e:
                raise type(e)(f"{type(e).__name__} left={s!r}") from None
            return r, type(r).__name__, s

        def thunk_left(side, stack=stack, stats=stats):
            s = list(stack)
            try:
                side.fx.evaluate_stack(s, stats)
            except RecursionError:
                return "recursion"
            except Exception as e:  # noqa: BLE001
                return type(e).__name__, str(e), s
            return s

        check(sec, thunk, lambda stack=stack, stats=stats: (stack, stats))
        check(sec + " (leftovers, messages)", thunk_left, lambda stack=stack, stats=stats: (stack, stats))




# ======================================================================================
# config sources (plain data; anything package specific is built per side)
# ======================================================================================
from shapely.geometry import GeometryCollection, Point, shape  # noqa: E402


def num(rng, v):
    """the same number in another spelling"""
    r = rng.random()
    if r < 0.6:
        return v
    if r < 0.7:
        return np.float64(v)
    if r < 0.8:
        return np.array(v)
    if r < 0.85:
        return np.float32(v)
    if r < 0.9 and float(v).is_integer():
        return int(v)
    return float(v)


def span(rng, plain):
    lo = rng.choice([0, -5, 0.1, 2.3, -1e308, 0.3, 10, -np.inf])
    hi = rng.choice([20, 0.3, 2.3, 1e308, 10, 15.5, np.inf, np.nan])
    out = [lo, hi]
    if rng.random() < 0.1:
        out = out[::-1]
    if rng.random() < 0.05:
        out = out + [1]
    if not plain:
        out = [num(rng, x) for x in out]
        if rng.random() < 0.2:
            out = tuple(out)
    return out


def gen_test_entry(rng, plain):  # noqa: C901, PLR0911, PLR0912
    """(package, testname, kwargs); plain -> expressible in JSON / YAML"""
    k = rng.randint(0, 17)
    n_ = (lambda v: v) if plain else (lambda v: num(rng, v))
    if k == 0:
        kw = {"fail_span": span(rng, plain)}
        if rng.random() < 0.6:
            kw["suspect_span"] = span(rng, plain)
        return "qartod", "gross_range_test", kw
    if k == 1:
        return "qartod", "spike_test", {"suspect_threshold": n_(rng.choice([0.1, 1, 2.3, 3])), "fail_threshold": n_(rng.choice([0.3, 4, 6, 1e308]))}
    if k == 2:
        return "qartod", "flat_line_test", {"tolerance": n_(rng.choice([0, 0.1, 0.001, 1])), "suspect_threshold": n_(rng.choice([1, 60, 3600, 86400, 90000])), "fail_threshold": n_(rng.choice([2, 120, 7200, 86400, 200000]))}
    if k == 3:
        return "qartod", "rate_of_change_test", {"threshold": n_(rng.choice([0.1, 0.3, 1, 2.3, 1e-5, 1e308]))}
    if k == 4:
        kw = {"bbox": [n_(-80), n_(-10.5), n_(80.1), n_(60)]}
        if rng.random() < 0.4:
            kw["range_max"] = n_(rng.choice([1000, 500000.5, 1e7]))
        return "qartod", "location_test", kw
    if k == 5:
        member = {"vspan": span(rng, plain)}
        if rng.random() < 0.6:
            member["tspan"] = rng.choice([["2019-01-01", "2021-01-01"], ["2020-01-01", "9999-12-31"], [0, 6], [1, 12]])
            if member["tspan"][0] == 0 or member["tspan"][0] == 1:
                member["period"] = rng.choice(["month", "dayofyear", "week"])
        if rng.random() < 0.4:
            member["zspan"] = [0, rng.choice([10, 100.5])]
        if rng.random() < 0.3:
            member["fspan"] = span(rng, plain)
        return "qartod", "climatology_test", {"config": [member] * rng.choice([1, 1, 2])}
    if k == 6:
        return "qartod", "attenuated_signal_test", {"suspect_threshold": n_(rng.choice([5, 0.3])), "fail_threshold": n_(rng.choice([1, 0.1])), "check_type": rng.choice(["std", "range"]), "test_period": rng.choice([None, 3600, 86400, 172800])}
    if k == 7:
        return "qartod", "density_inversion_test", {"suspect_threshold": n_(0.3), "fail_threshold": n_(rng.choice([0.1, 3]))}
    if k == 8:
        return "axds", "valid_range_test", {"valid_span": span(rng, plain)}
    if k == 9:
        return "argo", "pressure_increasing_test", rng.choice([None, {}, None])
    if k == 10:
        return "argo", "speed_test", {"suspect_threshold": n_(1), "fail_threshold": n_(3)}
    if k == 11:
        return rng.choice(["nothere", "qartod.sub", "", "QARTOD", "q artod", "1"]), "gross_range_test", {"fail_span": [0, 1]}
    if k == 12:
        return "qartod", rng.choice(["no_such_test", "", "Gross_range_test", "aggregate", "QartodFlags", "np", "L"]), rng.choice([{}, None, {"a": 1}])
    if k == 13:
        return rng.choice(["utils", "config", "results", "streams"]), rng.choice(["dict_depth", "mapdates", "Config", "tw", "isnan", "collect_results", "nothing"]), rng.choice([None, {"d": 1}, {}])
    if k == 14:
        return "qartod", "gross_range_test", rng.choice([{"fail_span": [0, 1], "inp": [1, 2, 3]}, {"nonsense": 3}, {"fail_span": None}, 0, "", []])
    if k == 15 and not plain:
        return "qartod", "gross_range_test", rng.choice([[("fail_span", [1, 2])], "abc", 5, [1], np.array([1, 2]), {1: 2}, ("fail_span",)])
    if k == 16 and not plain:
        return rng.choice([1, 1.0, True, None, ("qartod",)]), rng.choice(["gross_range_test", 1, None]), {"fail_span": [0, 5]}
    return "qartod", "gross_range_test", {"fail_span": [n_(0), n_(rng.choice([10, 0.3]))]}


STREAM_IDS = ["var", "temp", "salinity", "a[1]", "b*", "c?", "x y", "1", "_stream", "time", "z", "streams", "v[0-9]*?"]


def gen_module_block(rng, plain, ntests=None):
    block = {}
    for _ in range(ntests if ntests is not None else rng.choice([0, 1, 1, 2, 3])):
        package, test, kw = gen_test_entry(rng, plain)
        block.setdefault(package, {})
        if isinstance(block[package], dict):
            block[package][test] = kw
    if not plain and rng.random() < 0.04:
        block[rng.choice(["qartod", "junk"])] = rng.choice([None, 5, [], "str"])
    return block


def gen_streams(rng, plain):
    streams = {}
    for _ in range(rng.choice([0, 1, 1, 2, 2, 3])):
        sid = rng.choice(STREAM_IDS)
        if not plain and rng.random() < 0.1:
            sid = rng.choice([1, 2.5, None, ("a", 1), True])
        streams[sid] = gen_module_block(rng, plain)
    if not plain and rng.random() < 0.03:
        streams["odd"] = rng.choice([None, 5, [], "str"])
    return streams


REGIONS_PLAIN = [
    None,
    {},
    [],
    [1],
    "features",
    "nothing",
    {"type": "Point", "coordinates": [1, 2]},
    {"type": "Feature", "geometry": {"type": "Point", "coordinates": [-70.5, 41.25]}, "properties": {}},
    {"geometry": {"type": "Polygon", "coordinates": [[[0, 0], [1, 0], [1, 1], [0, 1], [0, 0]]]}},
    {"type": "FeatureCollection", "features": [
        {"type": "Feature", "geometry": {"type": "Point", "coordinates": [1.5, 2.5]}, "properties": {}},
        {"type": "Feature", "geometry": {"type": "LineString", "coordinates": [[0, 0], [1, 1]]}, "properties": {}},
    ]},
    {"features": []},
    {"features": [{"nogeometry": 1}]},
    {"features": 5},
    {"geometry": None},
    {"geometry": {"type": "Nonsense", "coordinates": []}},
    {"features": [], "geometry": {"type": "Point", "coordinates": [0, 0]}},
    5,
    0,
    "",
]


def gen_window_plain(rng):
    r = rng.random()
    bounds = ["2020-01-01T00:00:00Z", "2020-01-02", "2020-01-01T00:00:05", "2021-01-01", "9999-12-31", "", 0, None, None, "junk", 5]
    if r < 0.55:
        return {"starting": rng.choice(bounds), "ending": rng.choice(bounds)}
    if r < 0.7:
        return {rng.choice(["starting", "ending"]): rng.choice(bounds)}
    if r < 0.8:
        return {}
    if r < 0.9:
        return rng.choice([{"start": 1}, {"starting": 1, "ending": 2, "extra": 3}, None, [], [1, 2], "ab", 5, ("starting",)])
    return {"starting": "2020-01-01T00:00:00", "ending": "2020-01-01T00:01:00"}


def gen_context_plain(rng, plain, windows=None):
    ctx = {}
    keys = ["streams", "window", "region", "attrs"]
    rng.shuffle(keys)
    for key in keys:
        if key == "streams":
            if rng.random() < 0.96:
                ctx["streams"] = gen_streams(rng, plain)
        elif key == "window":
            if rng.random() < 0.6:
                ctx["window"] = rng.choice(windows) if windows and rng.random() < 0.7 else gen_window_plain(rng)
        elif key == "region":
            if rng.random() < 0.45:
                ctx["region"] = copy.deepcopy(rng.choice(REGIONS_PLAIN))
        elif rng.random() < 0.3:
            ctx["attrs"] = rng.choice([{"title": "x"}, {}, None, "s", {"a": {"b": 1}}])
    return ctx


def specialise(rng, ctx, side):
    """swap in objects that only exist as python objects (window tuples, datetimes, geometry collections)"""
    ctx = copy.deepcopy(ctx)
    r = rng.random()
    if "window" in ctx and r < 0.5:
        bounds = [dt.datetime(2020, 1, 1), dt.datetime(2020, 1, 1, 0, 0, 5), pd.Timestamp("2020-01-02"), pd.Timestamp("2020-01-01", tz="UTC"),
                  np.datetime64("2020-01-01T00:00:03"), None, dt.datetime(9999, 12, 31), dt.date(2020, 1, 1), pd.NaT, 1577836800]
        a, b = rng.choice(bounds), rng.choice(bounds)
        kind = rng.random()
        if kind < 0.4:
            ctx["window"] = side.config.tw(a, b)
        elif kind < 0.5:
            ctx["window"] = side.config.tw(starting=a)
        elif kind < 0.9:
            ctx["window"] = {"starting": a, "ending": b}
        else:
            ctx["window"] = OrderedDict(ending=b)
    else:
        rng.random(), rng.random(), rng.random()
    if "region" in ctx and rng.random() < 0.3:
        ctx["region"] = rng.choice([
            GeometryCollection(),
            GeometryCollection([Point(1, 2)]),
            GeometryCollection([shape({"type": "Polygon", "coordinates": [[[0, 0], [1, 0], [1, 1], [0, 1], [0, 0]]]})]),
            Point(1, 2),
            np.array([1, 2]),
            np.array([]),
            OrderedDict(geometry={"type": "Point", "coordinates": [3, 4]}),
        ])
    return ctx


def summarise_calls(calls, limit=8):
    head = list(calls[:limit])
    return (
        [norm(c) for c in calls],
        tuple(a.attrs is b.attrs for a in head for b in head),
        tuple(a.context is b.context for a in head for b in head),
        tuple(a.call.keywords is b.call.keywords for a in head for b in head),
    )


def summarise_config(cfg):
    calls = cfg.calls
    groups = cfg.contexts
    again = cfg.contexts
    pos = {id(c): i for i, c in enumerate(calls)}
    return {
        "type": type(groups).__name__,
        "has_config": hasattr(cfg, "config"),
        "config": norm(getattr(cfg, "config", None)),
        "calls": summarise_calls(calls),
        "calls_is_private": cfg.calls is cfg._calls,
        "groups": [(norm(k), [pos.get(id(c), -1) for c in v], k is v[0].context, type(v).__name__) for k, v in groups.items()],
        "fresh": groups is not again and all(a is not b for a, b in zip(groups.values(), again.values())),
        "stream_ids": norm(cfg.stream_ids),
        "vars": sorted(vars(cfg)),
    }


# ======================================================================================
# config.Config (__init__, contexts) and config.ContextConfig.__init__
# ======================================================================================
def gen_config_source(rng, plain):
    """plain python data for Config(...)"""
    r = rng.random()
    windows = [gen_window_plain(rng) for _ in range(2)]
    if r < 0.2:
        return gen_module_block(rng, plain)  # QcConfig shape (or Config shape when nested deep enough)
    if r < 0.4:
        return gen_streams(rng, plain)
    if r < 0.6:
        return gen_context_plain(rng, plain, windows)
    if r < 0.93:
        ctxs = [gen_context_plain(rng, plain, windows) for _ in range(rng.choice([0, 1, 2, 2, 3, 4]))]
        if rng.random() < 0.3 and ctxs:
            ctxs.append(copy.deepcopy(rng.choice(ctxs)))  # the same tests again in one context
        out = {"contexts": ctxs}
        if rng.random() < 0.2:
            out["streams"] = gen_streams(rng, plain)
        if rng.random() < 0.05:
            out["contexts"] = rng.choice([None, 5, {"a": 1}, "ab", ctxs[0] if ctxs else {}])
        return out
    return rng.choice([None, 5, "", "garbage: [", "just a string", [], {}, (), "a: 1", "- 1\n- 2", "{}", 3.5, b"qartod: {}", {"streams": None}, {"streams": 5}, {"contexts": [5]}, {"contexts": ["x: 1"]}])


def jsonable(x):
    import json

    try:
        json.dumps(x, allow_nan=False)
    except (TypeError, ValueError):
        return False
    return True


def section_config():  # noqa: C901
    import json

    sec = "config.Config"
    for i in range(3400):
        rng = random.Random(6000 + i)
        plain = rng.random() < 0.45
        src = gen_config_source(rng, plain)
        form = rng.random()
        seed = rng.random()

        def build(side, src=src, form=form, seed=seed, plain=plain):
            r2 = random.Random(seed)
            data = copy.deepcopy(src)
            if isinstance(data, dict) and not plain:
                if "contexts" in data and isinstance(data["contexts"], list):
                    data["contexts"] = [specialise(r2, c, side) if isinstance(c, dict) else c for c in data["contexts"]]
                elif "streams" in data:
                    data = specialise(r2, data, side)
            if plain and jsonable(data):
                if form < 0.25:
                    return json.dumps(data)
                if form < 0.4:
                    return io.StringIO(json.dumps(data))
                if form < 0.5:
                    from ruamel.yaml import YAML

                    buf = io.StringIO()
                    YAML(typ="safe").dump(data, buf)
                    return buf.getvalue()
            if isinstance(data, dict) and form > 0.85:
                return OrderedDict(data)
            return data

        def thunk(side, build=build):
            source = build(side)
            before = norm(source) if not isinstance(source, io.StringIO) else None
            kwargs = {}
            if seed < 0.15:
                kwargs["default_stream_key"] = random.Random(seed).choice(["other", 1, None, "a[1]"])
            cfg = side.config.Config(source, **kwargs)
            out = summarise_config(cfg)
            out["untouched"] = before is None or norm(source) == before
            out["config_is_source"] = getattr(cfg, "config", None) is source
            return out

        check(sec, thunk, lambda src=src, plain=plain: (plain, repr(src)[:600]))

    # objects as sources: calls, configs, context configs, lists of them; edits in between
    sec = "config.Config"
    for i in range(1200):
        rng = random.Random(7000 + i)
        srcs = [gen_context_plain(rng, False, [gen_window_plain(rng)]) for _ in range(3)]
        mode = rng.randint(0, 9)
        seed = rng.random()

        def thunk(side, srcs=srcs, mode=mode, seed=seed):  # noqa: C901, PLR0912
            r2 = random.Random(seed)
            C = side.config
            made = []
            for s_ in srcs:
                try:
                    made.append(C.ContextConfig(specialise(r2, s_, side)))
                except Exception:  # noqa: BLE001
                    pass
            calls = [c for m in made for c in m.calls]
            out = {}
            if mode == 0:
                base = C.Config({"contexts": []})
                for m in made:
                    base.add(m)
                cfg = C.Config(base)
                out["alias"] = cfg.calls is base.calls
            elif mode == 1:
                cfg = C.Config(list(calls))
            elif mode == 2:
                cfg = C.Config(tuple(calls + calls[:2]))  # duplicates
            elif mode == 3:
                cfg = C.Config(made)
            elif mode == 4:
                cfg = C.Config(made + calls[:1] + [5, None, "x"])
            elif mode == 5:
                cfg = C.Config(calls[0]) if calls else C.Config(made)
            elif mode == 6:
                # the same list object twice, edited in place in between
                work = list(calls)
                first = C.Config(work)
                snap1 = summarise_config(first)
                r2.shuffle(work)
                if work:
                    work.append(work[0])
                    del work[r2.randrange(len(work))]
                    kw = work[0].call.keywords
                    for v in kw.values():
                        if isinstance(v, list) and v:
                            v[0] = 99
                cfg = C.Config(work)
                out["first_before"] = snap1
                out["first_after"] = summarise_config(first)
                out["alias"] = (cfg.calls is work, first.calls is work)
            elif mode == 7:
                # the same dict object twice, edited in place in between
                data = {"contexts": [specialise(r2, s_, side) for s_ in srcs]}
                try:
                    first = C.Config(data)
                    out["first_before"] = summarise_config(first)
                except Exception as e:  # noqa: BLE001
                    first = None
                    out["first_exc"] = norm(e)
                data["contexts"].reverse()
                data["contexts"].append(data["contexts"][0])
                for c_ in data["contexts"]:
                    for sc in (c_.get("streams") or {}).values():
                        if isinstance(sc, dict):
                            sc.pop("qartod", None) if r2.random() < 0.3 else None
                cfg = C.Config(data)
                if first is not None:
                    out["first_after"] = summarise_config(first)
            elif mode == 8:
                inner = C.Config(list(calls)) if calls else C.Config({"contexts": []})
                cfg = C.Config([inner, inner])
            else:
                class Holder:
                    pass

                h = Holder()
                h.calls = list(calls) + [3]
                cfg = C.Config(h)
                out["alias"] = cfg.calls is h.calls
            out["cfg"] = summarise_config(cfg)
            return out

        check(sec, thunk, lambda srcs=srcs, mode=mode: (mode, repr(srcs)[:600]))

    sec = "config.ContextConfig"
    for i in range(3600):
        rng = random.Random(8000 + i)
        plain = rng.random() < 0.3
        src = gen_context_plain(rng, plain)
        if rng.random() < 0.04:
            src = rng.choice([None, 5, "", {}, {"streams": None}, {"streams": []}, {"streams": {"a": None}}, {"streams": {"a": {"qartod": None}}}, {"streams": {"a": {"qartod": []}}}, "streams: {}", {"streams": {"a": {"qartod": {"gross_range_test": {"fail_span": [1, 2]}}}}, "window": None}])
        seed = rng.random()
        form = rng.random()

        def thunk(side, src=src, seed=seed, form=form, plain=plain):
            r2 = random.Random(seed)
            data = specialise(r2, src, side) if isinstance(src, dict) and not plain else copy.deepcopy(src)
            if plain and jsonable(data) and form < 0.4:
                data = json.dumps(data) if form < 0.3 else io.StringIO(json.dumps(data))
            elif isinstance(data, dict) and form > 0.6:
                data = OrderedDict(data)
                if form > 0.9 and isinstance(data.get("streams"), dict):
                    class Attributed(dict):
                        attrs = {"shared": True}

                    data["streams"] = {k: (Attributed(v) if isinstance(v, dict) else v) for k, v in data["streams"].items()}
            before = norm(data) if not isinstance(data, io.StringIO) else None
            cc = side.config.ContextConfig(data)
            return {
                "vars": sorted(vars(cc)),
                "config": norm(cc.config),
                "config_is_source": cc.config is data,
                "attrs": norm(cc.attrs),
                "attrs_is_sources": isinstance(data, dict) and cc.attrs is data.get("attrs"),
                "context_attrs": cc.context.attrs is cc.attrs,
                "region": norm(cc.region),
                "region_is_sources": isinstance(data, dict) and cc.region is data.get("region"),
                "window": norm(cc.window),
                "window_is_sources": isinstance(data, dict) and cc.window is data.get("window"),
                "window_type": type(cc.window).__name__,
                "context": norm(cc.context),
                "context_parts": (cc.context.window is cc.window, cc.context.region is cc.region),
                "calls": summarise_calls(cc.calls),
                "calls_context": all(c.context is cc.context for c in cc.calls),
                "str": str(cc),
                "untouched": before is None or norm(data) == before,
            }

        check(sec, thunk, lambda src=src, plain=plain: (plain, repr(src)[:600]))



# ======================================================================================
# config.Call.run
# ======================================================================================
SEEN = []


def fn_record(inp, tinp=None, a=1, *args, kw_only=3, **kw):
    SEEN.append(("record", norm(inp), norm(tinp), norm(a), args, kw_only, sorted(kw)))
    return np.ma.masked_array([1, 2], mask=[False, True], dtype="uint8")


def fn_order(lon, lat, zinp=None, inp=None, b=None):
    SEEN.append(("order", [k for k, v in (("lon", lon), ("lat", lat), ("zinp", zinp), ("inp", inp), ("b", b)) if v is not None]))
    return [1, 2, 3]


def fn_raise(inp, msg="boom %s {x}"):
    raise ValueError(msg)


def fn_keyerror(inp):
    return {}["missing"]


def fn_posonly(inp, /, a=2):
    return a


def fn_mutate(inp, box=None):
    inp.append("touched")
    if box is not None:
        box.append("touched")
    return len(inp)


def fn_kwonly(*, inp=None):
    return "never gets inp"


def fn_stop(inp):
    raise StopIteration


class CallableThing:
    def __call__(self, inp, a=0):
        return ("thing", a)


CUSTOM = [fn_record, fn_order, fn_raise, fn_keyerror, fn_posonly, fn_mutate, fn_kwonly, fn_stop, CallableThing(), max, len, dict, abs,
          partial(fn_record, a=7), lambda inp, q=1: (inp, q), np.add, math.sin, "not callable", None]


def gen_series(rng, n=None):
    n = rng.randint(0, 8) if n is None else n
    vals = rand_floats(rng, n)
    if rng.random() < 0.15:
        vals = [np.nan] * n
    return vals


def gen_inp(rng, n=None):  # noqa: PLR0911
    vals = gen_series(rng, n)
    r = rng.random()
    if r < 0.45:
        return np.array(vals, dtype="float64")
    if r < 0.55:
        return vals if rng.random() < 0.7 else [None if (isinstance(v, float) and math.isnan(v)) else v for v in vals]
    if r < 0.65:
        return np.ma.masked_invalid(np.array(vals, dtype="float64"))
    if r < 0.72:
        return np.array(vals, dtype="float64").astype(">f8")
    if r < 0.8:
        return np.repeat(np.array(vals, dtype="float64"), 2)[::2]
    if r < 0.87:
        return pd.Series(vals, dtype="float64")
    if r < 0.93:
        return np.nan_to_num(np.array(vals, dtype="float64"), nan=0, posinf=3, neginf=-3).clip(-100, 100).astype(rng.choice(["int32", "int64", "float32"]))
    return np.array(vals, dtype="float64").astype(object)


def gen_tinp(rng, n):  # noqa: PLR0911
    r = rng.random()
    if r < 0.4:
        return rand_time_array(rng, n)
    if r < 0.5:
        return pd.DatetimeIndex(rand_time_array(rng, n, unit="ns"))
    if r < 0.6:
        return pd.Series(pd.DatetimeIndex(rand_time_array(rng, n, unit="ns")).tz_localize("UTC"))
    if r < 0.7:
        return np.array([rng.choice([0, 60, 3600, 86400, 90000, 1577836800]) for _ in range(n)], dtype=rng.choice(["int32", "uint32", "int64", "float64"]))
    if r < 0.8:
        return np.arange(n) * rng.choice([1, 60, 3600, 86400])
    if r < 0.9:
        return rand_time_array(rng, n, unit="s", nat=False, sort=True)
    return None


def gen_passed(rng):
    n = rng.randint(0, 8)
    passed = {}
    keys = ["inp", "tinp", "zinp", "lat", "lon", "a", "extra", "kw_only", "msg", "box", "b", "q"]
    rng.shuffle(keys)
    for k in keys:
        r = rng.random()
        if k == "inp" and r < 0.92:
            passed[k] = gen_inp(rng, n)
        elif k == "tinp" and r < 0.8:
            passed[k] = gen_tinp(rng, n)
        elif k == "zinp" and r < 0.6:
            passed[k] = np.array(gen_series(rng, n)) if r < 0.5 else np.arange(n, dtype="float64") * 2.5
        elif k in ("lat", "lon") and r < 0.6:
            lim = 90 if k == "lat" else 180
            passed[k] = np.array([rng.choice([rng.uniform(-lim, lim), np.nan, lim, 0.1]) for _ in range(n)])
        elif k in ("a", "extra", "kw_only", "msg", "box", "b", "q") and r < 0.25:
            passed[k] = rng.choice([5, "text", [1, 2], None, np.array([1.0])])
    if rng.random() < 0.03:
        passed["extra"] = (x for x in [1])  # cannot be deep copied
    if rng.random() < 0.03:
        import threading

        passed["inp"] = threading.Lock()
    return passed


def section_call_run():
    sec = "config.Call.run"
    for i in range(4200):
        rng = random.Random(9000 + i)
        custom = rng.random() < 0.35
        passed = gen_passed(rng)
        if custom:
            f = rng.choice(CUSTOM)
            conf_kw = {}
            for k in rng.sample(["a", "inp", "tinp", "msg", "box", "b", "kw_only", "zzz", "q", "lat", "lon"], rng.randint(0, 4)):
                conf_kw[k] = rng.choice([1, [0], "x", None, 2.5, [1, 2, 3]])
            if f is fn_mutate:
                passed["inp"] = [1, 2]
                if rng.random() < 0.5:
                    conf_kw["box"] = []
                    passed.pop("box", None)
            entry = None
        else:
            entry = gen_test_entry(rng, False)
        unname = rng.random() < 0.1

        def thunk(side, passed=passed, custom=custom, entry=entry, unname=unname, i=i):
            C = side.config
            mine = {k: (copy.deepcopy(v) if not hasattr(v, "__next__") and type(v).__name__ != "lock" else v) for k, v in passed.items()}
            if custom:
                r2 = random.Random(9000 + i)
                kw = copy.deepcopy(conf_kw)
                try:
                    call = C.Call(stream_id="s", call=partial(f, (), **kw))
                except TypeError:
                    # not even a callable: imitate a partial
                    class Fake:
                        func = f
                        args = ((),)
                        keywords = kw

                    call = C.Call(stream_id="s", call=Fake())
                del r2
            else:
                package, test, kw = copy.deepcopy(entry)
                cc = C.ContextConfig({"streams": {"s": {package: {test: kw}}}})
                if not cc.calls:
                    return "no call"
                call = cc.calls[0]
            del SEEN[:]
            before = norm({k: v for k, v in mine.items() if not hasattr(v, "__next__")})
            kw_before = norm(call.kwargs)
            kw_ids = {k: id(v) for k, v in call.kwargs.items()}
            res = call.run(**mine)
            return {
                "res": norm(res),
                "type": type(res).__name__,
                "passed_untouched": norm({k: v for k, v in mine.items() if not hasattr(v, "__next__")}) == before,
                "conf_same": norm(call.kwargs) == kw_before,
                "conf_after": norm(call.kwargs),
                "conf_ids": {k: id(v) for k, v in call.kwargs.items()} == kw_ids,
                "seen": list(SEEN),
                "identity": bool(res) and not custom and res[0].function is call.func,
            }

        check(sec, thunk, lambda passed=passed, entry=entry, custom=custom: (custom, entry, repr(passed)[:500]))



# ======================================================================================
# streams.NumpyStream.run / streams.PandasStream.run
# ======================================================================================
GOOD_BOUNDS = [
    None, None, None,
    dt.datetime(2020, 1, 1), dt.datetime(2020, 1, 1, 0, 0, 2), dt.datetime(2020, 1, 1, 1), dt.datetime(2020, 1, 2), dt.datetime(2020, 1, 3, 12),
    dt.datetime(9999, 12, 31), dt.datetime(1970, 1, 1),
    pd.Timestamp("2020-01-01T00:00:05"), pd.Timestamp("2020-01-02T01:00:00"), np.datetime64("2020-01-01T01:00:00"),
    "2020-01-01T00:00:03", "2020-01-02", "", 0,
]
ODD_BOUNDS = [pd.Timestamp("2020-01-01T00:00:01", tz="UTC"), "2020-01-01T00:00:00Z", pd.NaT, "junk", 1577836805, dt.date(2020, 1, 2), 5.5, (1, 2)]


def pick_bound(rng):
    return rng.choice(GOOD_BOUNDS) if rng.random() < 0.93 else rng.choice(ODD_BOUNDS)


def usable_entry(rng):
    while True:
        package, test, kw = gen_test_entry(rng, False)
        fine = isinstance(package, str) and isinstance(test, str) and (kw is None or isinstance(kw, dict)) and all(isinstance(k, str) for k in (kw or {}))
        if fine and package in ("qartod", "axds", "argo") and test.endswith("_test"):
            return package, test, kw
        if rng.random() < 0.04:
            return package, test, kw


def gen_stream_config(rng, sids, side_independent=True):
    """contexts: list of dicts with python objects in their windows"""
    ctxs = []
    nctx = rng.choice([1, 1, 2, 2, 3])
    for _ in range(nctx):
        streams = {}
        for sid in rng.sample(sids + (["absent"] if rng.random() < 0.2 else []), rng.randint(1, min(3, len(sids)))):
            block = {}
            for _ in range(rng.choice([1, 1, 2, 3])):
                package, test, kw = usable_entry(rng)
                if isinstance(package, str):
                    block.setdefault(package, {})
                    block[package][test] = kw
            streams[sid] = block
        ctx = {"streams": streams}
        r = rng.random()
        if r < 0.7:
            ctx["window"] = {"starting": pick_bound(rng), "ending": pick_bound(rng)}
        elif r < 0.8:
            ctx["window"] = {rng.choice(["starting", "ending"]): pick_bound(rng)}
        if rng.random() < 0.25:
            ctx["region"] = copy.deepcopy(rng.choice(REGIONS_PLAIN[6:10] + [{}, None]))
        if rng.random() < 0.2:
            ctx["attrs"] = {"n": 1}
        ctxs.append(ctx)
    if rng.random() < 0.3:
        ctxs.append(copy.deepcopy(rng.choice(ctxs)))  # duplicated tests in one context
    return {"contexts": ctxs}


def drain(gen, limit=200):
    """step through a generator of ContextResult: (items, how it ended)"""
    items = []
    try:
        for item in gen:
            items.append(item)
            if len(items) > limit:
                break
    except Exception as e:  # noqa: BLE001
        return items, norm(e)
    return items, "done"


def norm_context_result(r):
    return (
        norm(r),
        [(norm(c), c.results.flags.writeable if isinstance(c.results, np.ndarray) else None) for c in r.results] if isinstance(r.results, list) else None,
        type(r.results).__name__,
    )


def gen_numpy_stream_args(rng):  # noqa: C901, PLR0912
    n = rng.choice([0, 1, 2, 3, 4, 5, 6, 7, 8])
    sids = rng.sample(STREAM_IDS, rng.randint(1, 3))
    form = rng.random()
    if form < 0.35:
        inp = gen_inp(rng, n)
    elif form < 0.7:
        inp = {sid: gen_inp(rng, n if rng.random() < 0.93 else rng.randint(0, 8)) for sid in sids}
        if rng.random() < 0.1:
            inp = OrderedDict(inp)
    elif form < 0.78:
        inp = None
    elif form < 0.86 and n in (4, 6, 8):
        a = np.array(gen_series(rng, n)).reshape(2, -1)
        inp = rng.choice([a, np.asfortranarray(a), a.T])
    elif form < 0.9:
        inp = {}
    elif form < 0.94:
        inp = np.array(rng.choice(SPECIAL))  # 0-d
    else:
        inp = rng.choice([5, "text", (1, 2), [[1, 2], [3, 4]]])
    args = {"inp": inp}
    if isinstance(inp, dict):
        for k_ in list(inp):
            if not isinstance(inp[k_], np.ndarray) and rng.random() < 0.7:
                inp[k_] = np.array(gen_series(rng, n), dtype="float64")
    if (inp is None or isinstance(inp, dict) and not inp or getattr(inp, "ndim", 1) != 1) and rng.random() < 0.85:
        return sids, args
    r = rng.random()
    if r < 0.75:
        args["time"] = gen_tinp(rng, n)
        if args["time"] is not None and rng.random() < 0.05:
            args["time"] = args["time"][:-1]
    elif r < 0.8:
        args["time"] = [rng.choice([0, 5, 86400, 1577836800]) for _ in range(n)]
    for k in ("z", "lat", "lon"):
        if rng.random() < 0.5:
            lim = {"z": 100, "lat": 90, "lon": 180}[k]
            vals = np.array([rng.choice([rng.uniform(-lim, lim), np.nan, float(lim), 0.1, np.inf]) for _ in range(n)])
            if rng.random() < 0.1:
                vals = np.ma.masked_invalid(vals)
            if rng.random() < 0.05:
                vals = vals.tolist()
            args[k] = vals
    if rng.random() < 0.05:
        args["geom"] = np.array([None] * n, dtype=object)
    return sids, args


def set_tz(name):
    if name is None:
        os.environ.pop("TZ", None)
    else:
        os.environ["TZ"] = name
    time.tzset()


def section_numpy_stream():
    sec = "streams.NumpyStream.run"
    for i in range(3600):
        rng = random.Random(11000 + i)
        if i == 1800:
            set_tz("EST5EDT")
        sids, args = gen_numpy_stream_args(rng)
        conf = gen_stream_config(rng, sids)
        if args["inp"] is None and rng.random() < 0.8:
            # the values come with the configuration
            for ctx in conf["contexts"]:
                for block in ctx["streams"].values():
                    for tests in block.values():
                        if isinstance(tests, dict):
                            for kw in tests.values():
                                if isinstance(kw, dict) and rng.random() < 0.7:
                                    kw["inp"] = gen_series(rng, len(args.get("time")) if args.get("time") is not None and rng.random() < 0.8 else None)
        interleave = rng.random() < 0.1

        def thunk(side, args=args, conf=conf, interleave=interleave):
            mine = copy.deepcopy(args)
            before = norm(mine)
            cfg = side.config.Config(copy.deepcopy(conf))
            ns = side.streams.NumpyStream(**mine)
            gen = ns.run(cfg)
            out = {"gen": type(gen).__name__}
            if interleave:
                # the work happens while stepping, not up front
                first = next(gen, None)
                out["first"] = None if first is None else norm_context_result(first)
                cfg.calls.reverse()
                ns.zinp = None
            items, how = drain(gen)
            out["items"] = [norm_context_result(r) for r in items]
            out["how"] = how
            out["shared"] = tuple(a.subset_indexes is b.subset_indexes for a in items[:5] for b in items[:5])
            out["shared_z"] = tuple(a.zinp is b.zinp for a in items[:5] for b in items[:5])
            out["data_base"] = tuple(np.shares_memory(r.data, ns.inp) if isinstance(ns.inp, np.ndarray) and isinstance(r.data, np.ndarray) and r.data.dtype != object else None for r in items[:5])
            out["inp_after"] = norm(ns.inp)
            out["args_untouched"] = norm(mine) == before
            # and once more on the same stream (its inp may have been filled in by the first run)
            items2, how2 = drain(ns.run(cfg))
            out["again"] = ([norm_context_result(r) for r in items2], how2)
            return out

        check(sec, thunk, lambda args=args, conf=conf: (repr(args)[:700], repr(conf)[:900]))
    set_tz(None)



def gen_frame(rng):  # noqa: C901, PLR0912, PLR0915
    """(stream ids, DataFrame, constructor kwargs)"""
    n = rng.choice([0, 1, 2, 3, 4, 5, 6, 7, 8])
    labels_pool = ["var", "temp", "a[1]", "b*", "c?", "x y", 1, 2.5, ("t", 1), True, None, "streams", 0, -1, "v[0-9]*?", b"bytes", np.int64(7)]
    sids = []
    for lab in rng.sample(labels_pool, rng.randint(1, 3)):
        if lab not in dict.fromkeys(sids):
            sids.append(lab)
    cols = OrderedDict()
    tname = rng.choice(["time", "time", "time", "when", 3, None])
    zname = rng.choice(["z", "z", "depth", 4])
    latname, lonname = rng.choice([("lat", "lon"), ("lat", "lon"), ("y", "x"), (5, 6)])
    kwargs = {}
    if tname != "time" and tname is not None:
        kwargs["time"] = tname
    if zname != "z":
        kwargs["z"] = zname
    if latname != "lat":
        kwargs["lat"], kwargs["lon"] = latname, lonname
    if rng.random() < 0.1:
        kwargs["geom"] = "shape"
    order = ["t", "z", "lat", "lon"] + [("d", sid) for sid in sids]
    rng.shuffle(order)
    for item in order:
        if item == "t":
            r = rng.random()
            if tname is None or r < 0.12:
                continue
            if r < 0.6:
                cols[tname] = rand_time_array(rng, n, unit=rng.choice(["ns", "ns", "s", "ms", "us"]))
            elif r < 0.75:
                cols[tname] = pd.DatetimeIndex(rand_time_array(rng, n, unit="ns")).tz_localize("UTC")
            elif r < 0.85:
                cols[tname] = rand_time_array(rng, n, unit="ns", nat=False, sort=True)
            elif r < 0.92:
                cols[tname] = np.array([rng.choice([0, 60, 86400, 1577836800]) for _ in range(n)], dtype=rng.choice(["int64", "float64", "int32"]))
            else:
                cols[tname] = np.array([rng.choice(["2020-01-01", "2020-01-02T00:00:01", None]) for _ in range(n)], dtype=object)
        elif item == "z":
            if rng.random() < 0.6:
                cols[zname] = np.array([rng.choice([rng.uniform(0, 100), np.nan, 10.0]) for _ in range(n)], dtype="float64")
        elif item in ("lat", "lon"):
            if rng.random() < 0.6:
                lim = 90 if item == "lat" else 180
                cols[latname if item == "lat" else lonname] = np.array([rng.choice([rng.uniform(-lim, lim), np.nan, float(lim), 0.1]) for _ in range(n)], dtype="float64")
        else:
            sid = item[1]
            vals = gen_series(rng, n)
            r = rng.random()
            if r < 0.8:
                cols[sid] = np.array(vals, dtype="float64")
            elif r < 0.9:
                cols[sid] = np.nan_to_num(np.array(vals, dtype="float64"), nan=1, posinf=3, neginf=-3).clip(-50, 50).astype(rng.choice(["int64", "int32", "float32"]))
            else:
                cols[sid] = np.array([None if isinstance(v, float) and math.isnan(v) else v for v in vals], dtype=object)
    names = list(cols)
    df = pd.DataFrame({i: v for i, v in enumerate(cols.values())})
    if len(names) == df.shape[1]:
        df.columns = pd.Index(names, dtype=object) if names else df.columns
    r = rng.random()
    if n:
        if r < 0.12:
            df.index = [f"r{k}" for k in range(n)]
        elif r < 0.24:
            df.index = [rng.choice(["a", "b", "c"]) for _ in range(n)]  # duplicated labels
        elif r < 0.32:
            df.index = pd.DatetimeIndex(rand_time_array(rng, n, unit="ns", nat=False))
        elif r < 0.4:
            df.index = list(range(n))[::-1]
        elif r < 0.46:
            df.index = np.arange(n) * 0.5
        elif r < 0.5:
            df.index = pd.MultiIndex.from_arrays([[k // 2 for k in range(n)], [k % 2 for k in range(n)]])
        elif r < 0.54:
            df.index = [rng.choice([1.5, np.nan, 2.5]) for _ in range(n)]
        elif r < 0.57:
            df.index = [rng.choice([True, False]) for _ in range(n)]
    if rng.random() < 0.04 and df.shape[1] > 1:
        # a duplicated column label
        cols_ = list(df.columns)
        cols_[-1] = cols_[0]
        df.columns = pd.Index(cols_, dtype=object)
    if rng.random() < 0.03:
        kwargs["time"] = "nowhere"
    return sids, df, kwargs


def section_pandas_stream():
    sec = "streams.PandasStream.run"
    for i in range(3400):
        rng = random.Random(13000 + i)
        if i == 1700:
            set_tz("EST5EDT")
        sids, df, kwargs = gen_frame(rng)
        conf = gen_stream_config(rng, sids)
        interleave = rng.random() < 0.1

        def thunk(side, df=df, kwargs=kwargs, conf=conf, interleave=interleave):
            frame = df.copy(deep=True)
            before = norm(frame)
            cfg = side.config.Config(copy.deepcopy(conf))
            ps = side.streams.PandasStream(frame, **kwargs)
            gen = ps.run(cfg)
            out = {"gen": type(gen).__name__}
            if interleave:
                first = next(gen, None)
                out["first"] = None if first is None else norm_context_result(first)
                cfg.calls.reverse()
                ps.z_column = "moved"
            items, how = drain(gen)
            out["items"] = [norm_context_result(r) for r in items]
            out["how"] = how
            out["writeable"] = [(r.subset_indexes.flags.writeable, getattr(r.data, "flags", None) and r.data.flags.writeable) for r in items[:6]]
            out["shared"] = tuple(a.subset_indexes is b.subset_indexes for a in items[:5] for b in items[:5])
            out["frame_untouched"] = norm(frame) == before
            out["axis_columns"] = norm(ps.axis_columns)
            return out

        check(sec, thunk, lambda df=df, kwargs=kwargs, conf=conf: (repr(df)[:700], kwargs, repr(conf)[:900]))
    set_tz(None)


# ======================================================================================
# stores.PandasStore.save
# ======================================================================================
def gen_listing(rng, sids, side, tests_seen):
    """an include / exclude list (functions have to come from the side under test)"""
    r = rng.random()
    if r < 0.3:
        return None
    pool = list(sids) + ["gross_range_test", "spike_test", "location_test", "flat_line_test", "rollup", "a[1]", "b*", "c?", "[ab]*", "*", "?", "var*", "absent", "", None, 1, "qartod", "qartod.gross_range_test"]
    fnames = ["gross_range_test", "spike_test", "rate_of_change_test", "flat_line_test", "location_test", "aggregate", "climatology_test"]
    out = []
    for _ in range(rng.choice([0, 1, 1, 2, 3])):
        if rng.random() < 0.25:
            out.append(getattr(side.qartod, rng.choice(fnames)))
        else:
            out.append(rng.choice(pool + tests_seen))
    r = rng.random()
    if r < 0.1:
        return tuple(out)
    if r < 0.15:
        return set(o for o in out if not isinstance(o, (list, dict)))
    if r < 0.18:
        return "gross_range_test"  # a string: substring matches, or a TypeError
    if r < 0.2:
        return {o: 1 for o in out}
    return out


def section_store():  # noqa: C901
    sec = "stores.PandasStore.save"
    done = 0
    i = 0
    while done < 3600:
        i += 1
        rng = random.Random(15000 + i)
        use_numpy = rng.random() < 0.5
        if use_numpy:
            sids, args = gen_numpy_stream_args(rng)
            if not isinstance(args["inp"], (dict, np.ndarray)):
                continue
        else:
            sids, df, kwargs = gen_frame(rng)
        conf = gen_stream_config(rng, sids)
        # keep windows out of most cases so that there is something to store
        if rng.random() < 0.6:
            for c_ in conf["contexts"]:
                c_.pop("window", None)
        seed = rng.random()
        done += 1

        def thunk(side, seed=seed, conf=conf, use_numpy=use_numpy):
            r2 = random.Random(seed)
            cfg = side.config.Config(copy.deepcopy(conf))
            if use_numpy:
                stream = side.streams.NumpyStream(**copy.deepcopy(args))
            else:
                stream = side.streams.PandasStream(df.copy(deep=True), **kwargs)
            results = list(stream.run(cfg))
            axes = None
            r = r2.random()
            if r < 0.1:
                axes = {"t": "when", "z": "depth", "y": "latitude", "x": "longitude"}
            elif r < 0.15:
                axes = {"t": "time", "z": "z"}  # no x / y
            elif r < 0.2:
                axes = {"t": sids[0], "z": 1, "y": ("a", 1), "x": None}
            elif r < 0.23:
                axes = {"t": "time", "z": "time", "y": "time", "x": "time"}
            store = side.stores.PandasStore(results, axes)
            if r2.random() < 0.3:
                store.compute_aggregate(name=r2.choice(["rollup", "gross_range_test", "a[1]*?"]))
            if r2.random() < 0.1 and store.collected_results:
                store.collected_results.append(store.collected_results[0])  # a duplicated column
            if r2.random() < 0.08 and store.collected_results:
                cr = store.collected_results[r2.randrange(len(store.collected_results))]
                what = r2.choice(["tinp", "zinp", "lat", "lon", "stream_id", "data"])
                setattr(cr, what, r2.choice([None, np.array([]), np.array([1.0, 2.0, 3.0]), "", "a[1]*?"]) if what != "stream_id" else r2.choice([None, "", "a[1]*?", 5]))
            tests_seen = [cr.test for cr in store.collected_results][:3]
            outs = []
            state = norm([dataclasses.asdict(cr) if False else cr for cr in store.collected_results])
            for _ in range(2):
                kw = {}
                if r2.random() < 0.7:
                    kw["write_data"] = r2.choice([True, False, 1, 0, "yes", None])
                if r2.random() < 0.7:
                    kw["write_axes"] = r2.choice([True, True, False, 1, "yes", None, np.True_])
                inc = gen_listing(r2, sids, side, tests_seen)
                exc = gen_listing(r2, sids, side, tests_seen)
                if inc is not None and r2.random() < 0.8:
                    kw["include"] = inc
                if exc is not None and r2.random() < 0.6:
                    kw["exclude"] = exc
                try:
                    frame = store.save(**kw)
                    outs.append((norm(kw), norm(frame), type(frame).__name__, tuple(CAP.records)))
                except Exception as e:  # noqa: BLE001
                    outs.append((norm(kw), norm(e), tuple(CAP.records)))
            return outs, norm(list(store.collected_results)) == state, norm(store.stream_ids)

        check(sec, thunk, lambda conf=conf, use_numpy=use_numpy: (use_numpy, repr(conf)[:900]))



SECTIONS = [
    ("utils.mapdates", section_mapdates),
    ("utils.great_circle_distance", section_gcd),
    ("utils.dict_depth", section_dict_depth),
    ("fx_parser", section_fx),
    ("config.Config", section_config),
    ("config.Call.run", section_call_run),
    ("streams.NumpyStream.run", section_numpy_stream),
    ("streams.PandasStream.run", section_pandas_stream),
    ("stores.PandasStore.save", section_store),
]

if __name__ == "__main__":
    for name, fn_ in SECTIONS:
        if not ONLY or any(name.startswith(o) for o in ONLY):
            t0 = time.time()
            fn_()
            print(f"{name}: {time.time() - t0:.1f}s", flush=True)
    finish()
