#!/usr/bin/env python
"""Equivalence check: refactored worktree functions vs the ORIGINAL ones of the HEAD commit.

Run as:  PYTHONPATH=<worktree> /venv/bin/python equiv.py
The original sources are taken with `git show HEAD:ioos_qc/<file>`, written to a temp directory
and loaded under the package name ``ioos_qc_orig``.
"""
import copy
import dataclasses
import datetime as pydt
import importlib
import importlib.util
import logging
import os
import random
import re
import subprocess
import sys
import tempfile
import time
import warnings
from collections import OrderedDict, defaultdict

import numpy as np
import pandas as pd

HERE = os.path.dirname(os.path.abspath(__file__))
N_CASES = int(os.environ.get("EQUIV_N", "3200"))

warnings.simplefilter("ignore")


# --------------------------------------------------------------------------- loading
def load_original():
    tmp = tempfile.mkdtemp(prefix="ioos_qc_orig_")
    pkg_dir = os.path.join(tmp, "ioos_qc_orig")
    names = subprocess.check_output(
        ["git", "-C", HERE, "ls-tree", "-r", "--name-only", "HEAD", "ioos_qc"],
        text=True,
    ).split()
    for name in names:
        if not name.endswith(".py"):
            continue
        src = subprocess.check_output(["git", "-C", HERE, "show", f"HEAD:{name}"], text=True)
        src = re.sub(r"\bioos_qc\b", "ioos_qc_orig", src)
        dest = os.path.join(tmp, name.replace("ioos_qc/", "ioos_qc_orig/", 1))
        os.makedirs(os.path.dirname(dest), exist_ok=True)
        with open(dest, "w") as f:
            f.write(src)
    spec = importlib.util.spec_from_file_location(
        "ioos_qc_orig",
        os.path.join(pkg_dir, "__init__.py"),
        submodule_search_locations=[pkg_dir],
    )
    module = importlib.util.module_from_spec(spec)
    sys.modules["ioos_qc_orig"] = module
    spec.loader.exec_module(module)
    return {
        name: importlib.import_module(f"ioos_qc_orig.{name}")
        for name in ("qartod", "argo", "axds", "results")
    }


ORIG = load_original()
import ioos_qc.argo  # noqa: E402
import ioos_qc.axds  # noqa: E402
import ioos_qc.qartod  # noqa: E402
import ioos_qc.results  # noqa: E402

NEW = {
    "qartod": ioos_qc.qartod,
    "argo": ioos_qc.argo,
    "axds": ioos_qc.axds,
    "results": ioos_qc.results,
}
assert ioos_qc.qartod.__file__.startswith(HERE), ioos_qc.qartod.__file__
assert not ORIG["qartod"].__file__.startswith(HERE)


# --------------------------------------------------------------------------- logs
class Capture(logging.Handler):
    def __init__(self):
        super().__init__(level=0)
        self.records = []

    def emit(self, record):
        self.records.append((record.levelno, record.getMessage()))


CAPTURE = Capture()
logging.getLogger().addHandler(CAPTURE)
logging.getLogger().setLevel(0)


# --------------------------------------------------------------------------- describing
def _bytes(a):
    if a.dtype == object:
        return repr([desc(x) for x in a.ravel().tolist()])
    return np.ascontiguousarray(a).tobytes()


def desc(o, ids=None):
    """A structural, NaN-safe, dtype/mask/layout-aware description of a value."""
    if ids is not None and id(o) in ids:
        return ("INPUT-OBJECT", ids[id(o)])
    if o is np.ma.masked:
        return ("masked-constant",)
    if isinstance(o, np.ma.MaskedArray):
        m = o._mask
        if IGNORE_MASKED_DATA[0] and m is not np.ma.nomask and o.dtype != object:
            # np.ma.masked_all leaves uninitialised memory under the mask
            o = o.copy()
            o.data[np.broadcast_to(m, o.shape)] = np.zeros((), dtype=o.dtype)
        return (
            "MA",
            type(o).__name__,
            o.dtype.str,
            o.shape,
            _bytes(np.asarray(o.data)),
            bool(o.flags.c_contiguous),
            bool(o.flags.f_contiguous),
            "nomask" if m is np.ma.nomask else ("mask", m.dtype.str, m.shape, _bytes(np.asarray(m))),
            repr(o.fill_value),
            bool(o.hardmask),
        )
    if isinstance(o, np.ndarray):
        return (
            "ND",
            type(o).__name__,
            o.dtype.str,
            o.shape,
            _bytes(o),
            bool(o.flags.c_contiguous),
            bool(o.flags.f_contiguous),
        )
    if isinstance(o, np.generic):
        return ("NG", type(o).__name__, repr(o))
    if isinstance(o, (pd.Index, pd.Series)):
        return ("PD", type(o).__name__, str(o.dtype), repr(o.tolist()))
    if isinstance(o, pd.DataFrame):
        return ("DF", repr(o.to_dict()))
    if dataclasses.is_dataclass(o) and not isinstance(o, type):
        return (
            "DC",
            type(o).__name__,
            tuple((f.name, desc(getattr(o, f.name), ids)) for f in dataclasses.fields(o)),
        )
    if isinstance(o, dict):
        return (
            "DICT",
            type(o).__name__,
            getattr(getattr(o, "default_factory", None), "__name__", None),
            tuple((desc(k, ids), desc(v, ids)) for k, v in o.items()),
        )
    if isinstance(o, tuple) and hasattr(o, "_fields"):
        return ("NT", type(o).__name__, o._fields, tuple(desc(x, ids) for x in o))
    if isinstance(o, (list, tuple)):
        return (type(o).__name__, tuple(desc(x, ids) for x in o))
    if callable(o) and hasattr(o, "__name__"):
        return ("CALLABLE", o.__name__)
    if hasattr(o, "members") and hasattr(o, "_members"):
        return ("CLIMCONFIG", desc(o._members, ids))
    if hasattr(o, "__next__"):
        return ("ITERATOR", type(o).__name__)
    return (type(o).__name__, repr(o))


IGNORE_MASKED_DATA = [False]


def run(func, args, kwargs, ids=None):
    """Call and describe: the outcome, the log records and the arguments afterwards."""
    CAPTURE.records = []
    try:
        with warnings.catch_warnings():
            warnings.simplefilter("ignore")
            out = func(*args, **kwargs)
        outcome = ("OK", desc(out, ids))
    except BaseException as e:  # noqa: BLE001
        if isinstance(e, (KeyboardInterrupt, SystemExit, MemoryError)):
            raise
        outcome = ("EXC", type(e).__name__, str(e).replace("ioos_qc_orig", "ioos_qc"))
    logs = tuple(CAPTURE.records)
    after = (desc(args), desc(kwargs))
    return outcome, logs, after


COUNTS = defaultdict(lambda: [0, 0, 0])  # cases, ok outcomes, exception outcomes
FAILURES = []
KINDS = defaultdict(lambda: defaultdict(int))
DISTINCT = defaultdict(set)


def compare(label, f_new, f_orig, make_args, same_args=True):
    """make_args(which) builds fresh (args, kwargs) for 'new' / 'orig' deterministically."""
    a_new = make_args("new")
    a_orig = make_args("orig")
    r_new = run(f_new, *a_new)
    r_orig = run(f_orig, *a_orig)
    c = COUNTS[label]
    c[0] += 1
    c[1 if r_orig[0][0] == "OK" else 2] += 1
    KINDS[label][r_orig[0][1] if r_orig[0][0] == "EXC" else "returned"] += 1
    DISTINCT[label].add(hash(r_orig[0]))
    if r_orig[1]:
        KINDS[label]["(with log records)"] += 1
    if r_new != r_orig:
        FAILURES.append((label, a_orig, r_new, r_orig))
        if len(FAILURES) <= 15:
            print(f"MISMATCH in {label}:")
            print("   args:", repr(a_orig)[:600])
            for part, x, y in zip(("outcome", "logs", "args-after"), r_new, r_orig):
                if x != y:
                    print(f"   {part} new :", repr(x)[:700])
                    print(f"   {part} orig:", repr(y)[:700])
    return r_new, r_orig


def simple(label, f_new, f_orig, args, kwargs=None):
    kwargs = kwargs or {}
    return compare(
        label,
        f_new,
        f_orig,
        lambda which: (copy.deepcopy(args), copy.deepcopy(kwargs)),
    )


# --------------------------------------------------------------------------- generators
R = random.Random(20261003)
NAN = float("nan")
INF = float("inf")
NUMBERS = [0, 1, -1, 2, 3, 5, 10, 0.1, 0.3, 2.3, 0.2, 0.7, 1.5, -0.1, 2.5, 7, 1e308, -1e308, 1e-308, 100, 20]
ODD = [NAN, None, INF, -INF]


def number(p_odd=0.25):
    if R.random() < p_odd:
        return R.choice(ODD)
    return R.choice(NUMBERS)


def series(n=None, p_odd=0.25, allow_none=True):
    n = R.randint(0, 8) if n is None else n
    out = [number(p_odd) for _ in range(n)]
    if not allow_none or R.random() < 0.6:
        out = [NAN if v is None else v for v in out]
    return out


def threshold_value(allow_none=True):
    base = R.choice([0, 0.1, 0.3, 2.3, 1, 2, 5, 1e308, -1, 86400, 90000.5, 1e-9, INF, NAN, -INF])
    kind = R.randrange(7)
    if kind == 0 and allow_none:
        return None
    if kind == 1:
        return np.float64(base)
    if kind == 2:
        return np.array(base)
    if kind == 3:
        return np.float32(base) if abs(base) < 1e30 or base != base else np.float64(base)
    if kind == 4 and base == base and abs(base) < 1e9:
        return int(base)
    if kind == 5 and R.random() < 0.1:
        return R.choice(["1", [1, 2], (1,), np.array([1.0])])
    return base


BASE_TIMES = [
    "2020-01-01T00:00:00",
    "2020-01-01T00:00:01",
    "2020-01-01T00:01:00",
    "2020-01-01T01:00:00",
    "2020-01-02T00:00:00",
    "2020-01-03T12:00:00",
    "2020-02-29T23:59:59",
    "2020-06-15T00:00:00",
    "2020-12-31T23:59:59.500",
    "2021-01-04T00:00:00",
    "1969-12-31T23:59:59",
    "2262-04-11T00:00:00",
    "NaT",
]


def time_values(n, kind=None):
    """A time axis of n stamps in one of many spellings (unsorted, duplicated, NaT ...)."""
    kind = R.randrange(14) if kind is None else kind
    stamps = [R.choice(BASE_TIMES) for _ in range(n)]
    if R.random() < 0.4:
        stamps = sorted(s for s in stamps if s != "NaT") + [s for s in stamps if s == "NaT"]
    if R.random() < 0.5:
        stamps = [s for s in stamps if s != "NaT"] + ["2020-01-01T00:00:00"] * stamps.count("NaT")
    arr = np.array(stamps, dtype="datetime64[ns]") if n else np.array([], dtype="datetime64[ns]")
    if kind == 0:
        return arr
    if kind in (1, 2, 3, 4):
        return arr.astype("datetime64[%s]" % "smhD"[kind - 1])
    if kind == 5:
        return pd.DatetimeIndex(arr).tz_localize("UTC")
    if kind == 6:
        return pd.Series(pd.DatetimeIndex(arr).tz_localize("UTC"))
    if kind == 7:
        return pd.Series(arr)
    if kind == 8:
        return pd.DatetimeIndex(arr)
    if kind == 9:
        secs = [R.choice([0, 1, 2, 60, 3600, 86400, 86401, 172800, 1577836800, 1577836801, 2**31 - 1]) for _ in range(n)]
        dt = R.choice([np.int32, np.uint32, np.int64, np.float64])
        return np.array(secs, dtype=dt)
    if kind == 10:
        return [R.choice([0, 1, 2.5, 60, 3600, 86400, 1577836800, NAN, None]) for _ in range(n)]
    if kind == 11:
        return [None if s == "NaT" else pd.Timestamp(s).to_pydatetime() for s in stamps]
    if kind == 12:
        return [s for s in stamps if s != "NaT"] + ["2020-01-01"] * stamps.count("NaT")
    return [pd.Timestamp(s) for s in stamps]


def reshape_variant(values, dtype=np.float64):
    """Alternative containers / layouts for a list of numbers (None kept only in lists)."""
    kind = R.randrange(12)
    if kind <= 2 or any(v is None for v in values):
        return list(values) if kind else tuple(values)
    arr = np.array(values, dtype=np.float64)
    if kind == 3:
        return arr
    if kind == 4:
        return arr.astype(">f8")
    if kind == 5:
        big = np.zeros(arr.size * 2, dtype=np.float64)
        big[::2] = arr
        return big[::2]
    if kind == 6 and arr.size in (4, 6, 8):
        return np.asfortranarray(arr.reshape(2, -1))
    if kind == 7 and arr.size in (4, 6, 8):
        return arr.reshape(-1, 2)
    if kind == 8:
        return np.ma.masked_invalid(arr)
    if kind == 9:
        return pd.Series(arr)
    if kind == 10:
        finite = np.where(np.isfinite(arr) & (np.abs(arr) < 1e9), arr, 0)
        return finite.astype(R.choice([np.int32, np.int64, np.float32, np.int8]))
    return arr[::-1][::-1]


def like_shape(template, values):
    """Give `values` (array) the shape/layout of template when template is an N-D array."""
    if isinstance(template, np.ndarray) and template.ndim == 2:
        out = np.asarray(values).reshape(template.shape)
        if template.flags.f_contiguous and not template.flags.c_contiguous:
            out = np.asfortranarray(out)
        return out
    return values


# --------------------------------------------------------------------------- ClimatologyConfig
QN, QO = NEW["qartod"], ORIG["qartod"]

DATE_BOUNDS = [
    "2020-01-01",
    "2020-01-01T00:00:01",
    "2020-01-02",
    "2020-06-15T00:00:00",
    "2021-01-01",
    "1969-12-31",
    "9999-12-31",
    "9999-12-31T23:59:59",
    "2262-04-11",
    pd.Timestamp("2020-01-01"),
    pd.Timestamp("2020-03-01", tz="UTC"),
    pd.Timestamp("2021-01-01", tz="UTC"),
    pydt.datetime(2020, 1, 1, 0, 0, 0),
    pydt.datetime(2020, 7, 1, 12, 30),
    pydt.datetime(9999, 12, 31),
    pydt.date(2020, 2, 1),
    np.datetime64("2020-01-03"),
    np.datetime64("2020-01-03T00:00:00", "s"),
    np.datetime64("NaT"),
    pd.NaT,
    None,
    0,
    1577836800,
    1.5e18,
    "not a date",
    "NaT",
]
PERIODS = [
    None, None, None, "month", "week", "weekofyear", "dayofyear", "dayofweek", "quarter", "year",
    "hour", "day", "foo", "", "now", "value", "tz", 5, "is_leap_year", "Month", "days_in_month",
]


def span_like(pool, exact=True):
    """2-sequences (and a few wrong ones) out of a pool of bound values."""
    k = R.randrange(20) if R.random() < 0.3 else R.randrange(7, 20)
    a, b = R.choice(pool), R.choice(pool)
    if k == 0:
        return [a]
    if k == 1:
        return (a, b, a)
    if k == 2:
        return np.array([1, 2])
    if k == 3:
        return "ab"
    if k == 4:
        return 5
    if k == 5:
        return {1, 2}
    if k == 6:
        return ()
    if k % 2:
        return [a, b]
    return (a, b)


NUM_BOUNDS = [0, 1, 2, 3, 5, 10, 12, 52, 53, 366, 0.1, 0.3, 2.3, -5, 1e308, -1e308, INF, -INF, NAN,
              np.float64(2.3), np.array(7), np.int32(4), None, "x", 20, 30, 50, 100]


def add_kwargs():
    if R.random() < 0.6:
        # mostly well-formed, with the occasional oddity mixed in
        kw = good_member_dict()
        r = R.random()
        if r < 0.15:
            kw[R.choice(["tspan", "vspan", "fspan", "zspan"])] = span_like(NUM_BOUNDS + DATE_BOUNDS)
        elif r < 0.25:
            kw["period"] = R.choice(PERIODS)
        return kw
    period = R.choice(PERIODS)
    kw = {}
    if period is None or R.random() < 0.15:
        kw["tspan"] = span_like(DATE_BOUNDS)
    else:
        kw["tspan"] = span_like(NUM_BOUNDS)
    kw["vspan"] = span_like(NUM_BOUNDS)
    if R.random() < 0.5:
        kw["fspan"] = span_like(NUM_BOUNDS) if R.random() < 0.85 else None
    if R.random() < 0.5:
        kw["zspan"] = span_like(NUM_BOUNDS) if R.random() < 0.85 else None
    if period is not None or R.random() < 0.3:
        kw["period"] = period
    if R.random() < 0.03:
        kw["bogus"] = 1
    if R.random() < 0.03:
        del kw["vspan"]
    items = list(kw.items())
    R.shuffle(items)
    return dict(items)


def test_add():
    label = "ClimatologyConfig.add"
    while COUNTS[label][0] < N_CASES:
        steps = [add_kwargs() for _ in range(R.randint(1, 3))]
        positional = R.random() < 0.2
        cfgs = {"new": QN.ClimatologyConfig(), "orig": QO.ClimatologyConfig()}
        for kw in steps:
            def make(which, kw=kw):
                kw2 = copy.deepcopy(kw)
                if positional and "tspan" in kw2 and "vspan" in kw2:
                    args = (kw2.pop("tspan"), kw2.pop("vspan"))
                else:
                    args = ()
                return (cfgs[which], *args), kw2

            compare(label, lambda c, *a, **k: (c.add(*a, **k), c)[1], lambda c, *a, **k: (c.add(*a, **k), c)[1], make)


def good_member_dict():
    """A config entry that is (mostly) accepted."""
    period = R.choice([None, None, None, "month", "week", "weekofyear", "dayofyear", "quarter", "dayofweek", "year", "hour"])
    if period is None:
        pool = [b for b in DATE_BOUNDS[:9]] + [pydt.datetime(2020, 1, 1), pydt.datetime(2020, 7, 1, 12, 30),
                                                pydt.datetime(9999, 12, 31), pd.Timestamp("2020-01-01"),
                                                np.datetime64("2020-01-03")]
        if R.random() < 0.05:
            pool = [pd.Timestamp("2020-03-01", tz="UTC"), pd.Timestamp("2021-01-01", tz="UTC")]
        if R.random() < 0.05:
            pool = pool + [pd.NaT, None]
        tspan = (R.choice(pool), R.choice(pool))
    else:
        pool = {"month": [0, 1, 2, 6, 12, 13], "week": [0, 1, 5, 27, 53], "weekofyear": [0, 1, 5, 27, 53],
                "dayofyear": [0, 1, 60, 167, 366], "quarter": [0, 1, 2, 4], "dayofweek": [0, 2, 6],
                "year": [1969, 2020, 2021, 2262], "hour": [0, 1, 12, 23]}[period]
        tspan = (R.choice(pool), R.choice(pool))
        if R.random() < 0.1:
            tspan = (tspan[0] + 0.5, tspan[1])
    vals = [0, 1, 2, 3, 5, 10, 0.1, 0.3, 2.3, -1, 1e308, -1e308, INF, -INF, 100, 20, 7, 2.5]
    if R.random() < 0.05:
        vals = vals + [NAN]
    d = {"tspan": tspan, "vspan": (R.choice(vals), R.choice(vals))}
    if R.random() < 0.5:
        d["fspan"] = (R.choice(vals), R.choice(vals))
    if R.random() < 0.4:
        d["zspan"] = (R.choice(vals), R.choice(vals))
    if period is not None or R.random() < 0.2:
        d["period"] = period
    if R.random() < 0.3:
        d = {k: (list(v) if isinstance(v, tuple) else v) for k, v in d.items()}
    items = list(d.items())
    R.shuffle(items)
    return dict(items)


def config_list(max_len=4):
    return [good_member_dict() if R.random() < 0.93 else add_kwargs() for _ in range(R.randint(0, max_len))]


def test_convert():
    label = "ClimatologyConfig.convert"
    while COUNTS[label][0] < N_CASES:
        k = R.randrange(12)
        cfg = config_list()
        if k == 0:
            # An instance comes back as the very same object
            for which, mod in (("new", QN), ("orig", QO)):
                inst = mod.ClimatologyConfig()
                if mod.ClimatologyConfig.convert(inst) is not inst and which == "new":
                    FAILURES.append((label, "identity", None, None))
            made = {}
            for which, mod in (("new", QN), ("orig", QO)):
                try:
                    made[which] = mod.ClimatologyConfig.convert(copy.deepcopy(cfg))
                except Exception:
                    made[which] = mod.ClimatologyConfig()
            r_new, r_orig = compare(label, QN.ClimatologyConfig.convert, QO.ClimatologyConfig.convert,
                                    lambda which: ((made[which],), {}))
            for which, mod in (("new", QN), ("orig", QO)):
                if mod.ClimatologyConfig.convert(made[which]) is not made[which]:
                    FAILURES.append((label, "identity", which, None))
            continue
        if k == 1:
            arg = R.choice([None, 5, "abc", {"tspan": (1, 2)}, [None], [5], [[("tspan", (0, 1))]], (), {}])
            simple(label, QN.ClimatologyConfig.convert, QO.ClimatologyConfig.convert, (arg,))
            continue
        if k == 2:
            simple(label, QN.ClimatologyConfig.convert, QO.ClimatologyConfig.convert, (tuple(cfg),))
            continue
        if k == 3:
            compare(label, QN.ClimatologyConfig.convert, QO.ClimatologyConfig.convert,
                    lambda which: ((iter(copy.deepcopy(cfg)),), {}))
            continue
        if k == 4:
            cfg = [OrderedDict(d) for d in cfg]
        if k == 5 and cfg:
            # the same list object passed twice with in-place edits in between
            lists = {"new": copy.deepcopy(cfg), "orig": copy.deepcopy(cfg)}
            compare(label, QN.ClimatologyConfig.convert, QO.ClimatologyConfig.convert,
                    lambda which: ((lists[which],), {}))
            extra = good_member_dict()
            for lst in lists.values():
                lst.append(copy.deepcopy(extra))
                lst[0]["vspan"] = (1, 9)
                if len(lst) > 2:
                    del lst[1]
            compare(label, QN.ClimatologyConfig.convert, QO.ClimatologyConfig.convert,
                    lambda which: ((lists[which],), {}))
            continue
        simple(label, QN.ClimatologyConfig.convert, QO.ClimatologyConfig.convert, (cfg,))


def data_for_check(n):
    """(inp, zinp) masked float vectors like climatology_test hands them to check()."""
    vals = np.array(series(n, 0.3, allow_none=False), dtype=np.float64)
    k = R.randrange(8)
    if k == 0:
        inp = np.ma.array(vals)  # nomask
    elif k == 1:
        inp = np.ma.array(vals, mask=[R.random() < 0.3 for _ in range(n)])  # numbers under the mask
    else:
        inp = np.ma.masked_invalid(vals)
    zk = R.randrange(8)
    zn = n if R.random() < 0.9 else R.choice([0, 1, n + 1])
    zvals = np.array([R.choice([0, 1, 5, 10, 20, 0.1, 2.3, 100, NAN, NAN, INF, -1]) for _ in range(zn)], dtype=np.float64)
    if zk == 0:
        zinp = np.ma.masked_all(zn, dtype=np.float64)
    elif zk == 1:
        zinp = np.ma.array(zvals)
    elif zk == 2:
        zinp = np.ma.masked_invalid(np.full(zn, NAN))
    elif zk == 3:
        zinp = np.ma.array(zvals, mask=[R.random() < 0.4 for _ in range(zn)])
    else:
        zinp = np.ma.masked_invalid(zvals)
    return inp, zinp


def test_check():
    label = "ClimatologyConfig.check"
    while COUNTS[label][0] < N_CASES:
        cfg = config_list(3)
        n = R.randint(0, 8)
        tk = R.choice([0, 0, 0, 5, 8, 8, 1, 4])
        tn = n if R.random() < 0.92 else R.choice([0, 1, n + 1])
        tinp = time_values(tn, tk)
        try:
            tinp = pd.DatetimeIndex(tinp)
        except Exception:
            continue
        inp, zinp = data_for_check(n)
        made = {}
        for which, mod in (("new", QN), ("orig", QO)):
            try:
                made[which] = mod.ClimatologyConfig.convert(copy.deepcopy(cfg))
            except Exception:
                made[which] = None
        if made["new"] is None or made["orig"] is None:
            if (made["new"] is None) != (made["orig"] is None):
                FAILURES.append((label, "convert differs", cfg, None))
            continue
        if R.random() < 0.1:
            # members put in directly, not through add()
            for which, mod in (("new", QN), ("orig", QO)):
                made[which] = mod.ClimatologyConfig(members=list(made[which].members))
        compare(label, lambda c, *a: c.check(*a), lambda c, *a: c.check(*a),
                lambda which: ((made[which], copy.deepcopy(tinp), copy.deepcopy(inp), copy.deepcopy(zinp)), {}))


def test_climatology():
    label = "climatology_test"
    fn, fo = QN.climatology_test, QO.climatology_test
    while COUNTS[label][0] < N_CASES:
        cfg = config_list(3)
        n = R.randint(0, 8)
        inp = reshape_variant(series(n, 0.3))
        tn = n if R.random() < 0.93 else R.choice([0, 1, n + 1])
        tinp = time_values(tn)
        if isinstance(tinp, np.ndarray):
            tinp = like_shape(inp, tinp) if tn == n else tinp
        zk = R.randrange(6)
        if zk == 0:
            zinp = [None] * n
        elif zk == 1:
            zinp = np.full(n, NAN)
        elif zk == 2:
            zinp = series(R.choice([0, 1, n + 1]), 0.3)
        else:
            zinp = [R.choice([0, 1, 5, 10, 20, 0.1, 2.3, 100, NAN, None, INF, -1]) for _ in range(n)]
            if R.random() < 0.3 and None not in zinp:
                zinp = like_shape(inp, np.array(zinp, dtype=np.float64))
        use_instance = R.random() < 0.25
        if R.random() < 0.03:
            cfg = R.choice([None, 5, [None], "abc"])
            use_instance = False

        def make(which):
            c = copy.deepcopy(cfg)
            if use_instance:
                mod = QN if which == "new" else QO
                try:
                    c = mod.ClimatologyConfig.convert(c)
                except Exception:
                    pass
            kw = {"config": c, "inp": copy.deepcopy(inp), "tinp": copy.deepcopy(tinp), "zinp": copy.deepcopy(zinp)}
            if R_ORDER[0]:
                kw = dict(reversed(list(kw.items())))
            return (), kw

        R_ORDER[0] = R.random() < 0.3
        compare(label, fn, fo, make)
        if R.random() < 0.15 and isinstance(cfg, list) and cfg and isinstance(cfg[0], dict):
            # same configuration list object twice, edited in place in between
            lists = {"new": copy.deepcopy(cfg), "orig": copy.deepcopy(cfg)}
            for rnd in range(2):
                compare(label, fn, fo, lambda which: ((lists[which], copy.deepcopy(inp), copy.deepcopy(tinp), copy.deepcopy(zinp)), {}))
                for lst in lists.values():
                    lst[0]["vspan"] = [0.3, 2.3]
                    lst.append({"tspan": ("2019-01-01", "9999-12-31"), "vspan": (1, 5)})


R_ORDER = [False]


# --------------------------------------------------------------------------- rate_of_change_test
def test_rate_of_change():
    label = "rate_of_change_test"
    fn, fo = QN.rate_of_change_test, QO.rate_of_change_test
    while COUNTS[label][0] < N_CASES:
        n = R.randint(0, 8)
        inp = reshape_variant(series(n, 0.3))
        tn = n if R.random() < 0.92 else R.choice([0, 1, n + 1])
        tinp = time_values(tn)
        if isinstance(tinp, np.ndarray) and tn == n:
            tinp = like_shape(inp, tinp)
        thr = threshold_value()
        if R.random() < 0.08:
            # all-missing or empty input combined with an invalid parameter
            inp = R.choice([[], [NAN] * n, [None] * n, np.full(n, NAN)])
            tinp = time_values(len(inp))
            thr = R.choice([None, "1", [1, 2], (1,), {}, np.array([1.0, 2.0]), np.ma.masked])
        kw = {"inp": inp, "tinp": tinp, "threshold": thr}
        if R.random() < 0.3:
            kw = dict(reversed(list(kw.items())))
        if R.random() < 0.03:
            del kw["threshold"]
        if R.random() < 0.5:
            simple(label, fn, fo, (), kw)
        else:
            simple(label, fn, fo, tuple(kw[k] for k in ("inp", "tinp", "threshold") if k in kw))


# --------------------------------------------------------------------------- argo
AN, AO = NEW["argo"], ORIG["argo"]
LONS = [0, 0.1, 0.3, 2.3, -70.5, -70.4, 179.9, -179.9, 180, 45, 10, 10.001, 1e308, NAN, None, INF, -INF, 200]
LATS = [0, 0.1, 0.3, 2.3, 41.5, 41.6, 89.9, -89.9, 90, -90, 45, 10, 10.001, NAN, None, INF, 95, 1e308]


def test_speed():
    label = "speed_test"
    fn, fo = AN.speed_test, AO.speed_test
    while COUNTS[label][0] < N_CASES:
        n = R.randint(0, 8) if R.random() < 0.8 else R.randint(0, 2)
        odd = R.random() < 0.5
        lon = [R.choice(LONS if odd else LONS[:12]) for _ in range(n)]
        lat = [R.choice(LATS if odd else LATS[:13]) for _ in range(n)]
        if R.random() < 0.7:
            lon = [NAN if v is None else v for v in lon]
            lat = [NAN if v is None else v for v in lat]
        if R.random() < 0.15:
            # all missing
            lon = [R.choice([NAN, None]) for _ in range(n)]
            lat = [R.choice([NAN, None]) for _ in range(n)]
        if R.random() < 0.06:
            lat = lat + [1.0]
        lon = reshape_variant(lon)
        lat2 = reshape_variant(lat)
        if isinstance(lon, np.ndarray) and lon.ndim == 2 and None not in lat and len(lat) == n:
            lat2 = like_shape(lon, np.array(lat, dtype=np.float64))
        tn = n if R.random() < 0.92 else R.choice([0, 1, n + 1])
        tinp = time_values(tn)
        if isinstance(tinp, np.ndarray) and tn == n:
            tinp = like_shape(lon, tinp)
        kw = {
            "lon": lon,
            "lat": lat2,
            "tinp": tinp,
            "suspect_threshold": threshold_value(),
            "fail_threshold": threshold_value(),
        }
        if R.random() < 0.08:
            # all-missing or empty input combined with invalid parameters
            m = R.choice([0, 1, 2, n])
            kw["lon"] = R.choice([[NAN] * m, [None] * m, np.full(m, NAN)])
            kw["lat"] = R.choice([[NAN] * m, [None] * m, np.full(m, NAN)])
            kw["tinp"] = time_values(m)
            kw[R.choice(["suspect_threshold", "fail_threshold"])] = R.choice([None, "1", [1, 2], {}, np.ma.masked])
        if R.random() < 0.3:
            items = list(kw.items())
            R.shuffle(items)
            kw = dict(items)
        if R.random() < 0.5:
            simple(label, fn, fo, (), kw)
        else:
            simple(label, fn, fo, tuple(kw[k] for k in ("lon", "lat", "tinp", "suspect_threshold", "fail_threshold")))


def test_pressure():
    label = "pressure_increasing_test"
    fn, fo = AN.pressure_increasing_test, AO.pressure_increasing_test
    while COUNTS[label][0] < N_CASES:
        n = R.randint(0, 8)
        k = R.randrange(16)
        base = [R.choice([0, 1, 2, 3, 5, 10, 10, 0.1, 0.3, 2.3, 100, 200, 255, 1e308, -1e308, -1, 7]) for _ in range(n)]
        if R.random() < 0.4:
            base = sorted(base, reverse=R.random() < 0.5)
        if R.random() < 0.3:
            base = [R.choice(ODD[:1] + ODD[2:]) if R.random() < 0.3 else v for v in base]
        finite = [v if (v == v and abs(v) < 1e9) else 0 for v in base]
        if k == 0:
            inp = base
        elif k == 1:
            inp = tuple(base)
        elif k == 2:
            inp = np.array(base, dtype=np.float64)
        elif k == 3:
            inp = np.array([abs(int(v)) % 256 for v in finite], dtype=np.uint8)
        elif k == 4:
            inp = np.array([int(v) for v in finite], dtype=R.choice([np.int8, np.int16, np.int32, np.int64, np.uint32]))
        elif k == 5:
            inp = np.array(base, dtype=np.float32)
        elif k == 6:
            inp = np.ma.masked_invalid(np.array(base, dtype=np.float64))
        elif k == 7:
            inp = np.ma.array(np.array(base, dtype=np.float64), mask=[R.random() < 0.3 for _ in range(n)])
        elif k == 8:
            inp = pd.Series(np.array(base, dtype=np.float64))
        elif k == 9:
            inp = np.array(base, dtype=">f8")
        elif k == 10:
            big = np.zeros(n * 2)
            big[::2] = base
            inp = big[::2]
        elif k == 11 and n in (4, 6, 8):
            inp = np.array(base, dtype=np.float64).reshape(2, -1)
            if R.random() < 0.5:
                inp = np.asfortranarray(inp)
        elif k == 12:
            inp = R.choice([5, 5.0, np.float64(3), np.array(2.0), None, "abc", [[1, 2], [3]], [None, 1], ["1", "2", "1"], [True, False]])
        elif k == 13:
            inp = np.ma.array(np.array(finite, dtype=np.int32), mask=[R.random() < 0.3 for _ in range(n)])
        elif k == 14:
            inp = [None if R.random() < 0.2 else v for v in base]
        else:
            inp = np.array(base, dtype=np.float64)[::-1]
        simple(label, fn, fo, (inp,))


# --------------------------------------------------------------------------- axds
XN, XO = NEW["axds"], ORIG["axds"]


def test_valid_range():
    label = "valid_range_test"
    fn, fo = XN.valid_range_test, XO.valid_range_test
    flagsel = [True, False, True, False, 1, 0, None, "yes", np.True_]
    while COUNTS[label][0] < N_CASES:
        n = R.randint(0, 8)
        k = R.randrange(14)
        kw = {}
        bounds_pool = [0, 1, 2, 3, 5, 0.1, 0.3, 2.3, 2.5, 10, 1e308, -1e308, INF, -INF, NAN, None, 100, 255, 256, -1, 7.9]
        span = (R.choice(bounds_pool), R.choice(bounds_pool))
        vals = series(n, 0.3)
        if k in (0, 1):
            # plain lists, dtype guessed (logs a warning) or given
            inp = vals if k == 0 else tuple(vals)
            if R.random() < 0.6:
                kw["dtype"] = R.choice([np.float64, "float64", float, np.float32, "f4", np.int32, int, "int64", np.uint8,
                                        np.floating, np.integer, object, bool, "U5", np.complex128, "datetime64[ns]"])
        elif k == 2:
            inp = reshape_variant([NAN if v is None else v for v in vals])
        elif k == 3:
            finite = [0 if (v is None or v != v or abs(v) > 1e9) else v for v in vals]
            inp = np.array(finite).astype(R.choice([np.int8, np.uint8, np.int32, np.int64, np.uint32, np.float32, np.float16]))
        elif k in (4, 5, 6):
            inp = time_values(n, R.choice([0, 1, 2, 3, 4, 5, 6, 7, 8, 11, 12, 13]))
            pool = ["2020-01-01", "2020-01-01T00:00:01", "2020-01-02", "2020-06-15", "2021-01-04", "NaT", None,
                    np.datetime64("2020-01-01T01:00:00"), np.datetime64("NaT"), pd.Timestamp("2020-01-03 12:00"),
                    pydt.datetime(2020, 2, 29, 23, 59, 59), pd.Timestamp("2020-01-02", tz="UTC"), 0, 1577836800]
            span = (R.choice(pool), R.choice(pool))
            if R.random() < 0.3:
                kw["dtype"] = R.choice(["datetime64[ns]", "datetime64[s]", np.dtype("M8[ns]"), "M8[D]"])
        elif k == 7:
            inp = pd.Series(np.array([NAN if v is None else v for v in vals], dtype=np.float64))
            if R.random() < 0.3:
                inp = inp.astype(R.choice(["float32", "Float64"]))
        elif k == 8:
            inp = R.choice([None, 5, "abc", {"a": 1}, [[1, 2], [3]], ["a", "b"], [True, False, True], np.array(["a", "b"]),
                            np.array([1 + 2j, 3]), np.array([1, None, 3], dtype=object), np.array(4.0), [],
                            np.array([np.timedelta64(1, "s"), np.timedelta64(5, "s")]), np.array([True, False])])
            if R.random() < 0.3:
                span = R.choice([("a", "b"), (np.timedelta64(2, "s"), np.timedelta64(9, "s")), (False, True), (1 + 0j, 2)])
        elif k == 9:
            # numbers with spans given as date strings and the like: the guessing falls through
            inp = vals
            span = R.choice([("a", "b"), ("2020-01-01", "x"), ("1.5", "2.5"), ((1, 2), (3,)), (1, "x"), ([1], [2])])
        elif k == 10:
            inp = np.ma.masked_invalid(np.array([NAN if v is None else v for v in vals], dtype=np.float64))
        else:
            inp = np.array([NAN if v is None else v for v in vals], dtype=np.float64)
        r = R.random()
        if r < 0.06:
            span = span[:1]
        elif r < 0.1:
            span = span + (3,)
        elif r < 0.2:
            span = list(span)
        elif r < 0.25:
            try:
                span = np.array(span, dtype=np.float64)
            except Exception:
                pass
        elif r < 0.28:
            span = ((1, 2), (3, 4))
        kw["inp"] = inp
        kw["valid_span"] = span
        if R.random() < 0.6:
            kw["start_inclusive"] = R.choice(flagsel)
        if R.random() < 0.6:
            kw["end_inclusive"] = R.choice(flagsel)
        items = list(kw.items())
        R.shuffle(items)
        simple(label, fn, fo, (), dict(items))


# --------------------------------------------------------------------------- results
RN, RO = NEW["results"], ORIG["results"]
STREAMS = ["temp", "sal[1]", "a*b", "w?", "x:y", None, 5, "temp", "qartod"]
TESTS = [("qartod", "gross_range_test"), ("qartod", "spike_test"), ("qartod", "gross_range_test"),
         ("argo", "speed_test"), ("axds", "valid_range_test"), ("q[1]", "t*?"), ("qartod", "aggregate")]


def dummy_function():
    return None


def results_spec():
    """A module-independent description of a results list."""
    total = R.randint(0, 8)
    spec = []
    shape2d = R.random() < 0.08 and total in (4, 6, 8)
    for _ in range(R.randint(0, 4)):
        if R.random() < 0.15:
            pkg, test = R.choice(TESTS)
            res = np.ma.array(np.array([R.choice([1, 2, 3, 4, 9]) for _ in range(total)], dtype="uint8"))
            spec.append(("call", pkg, test, res))
            continue
        sk = R.randrange(6)
        if sk <= 1:
            subset = np.ones(total, dtype=bool)
        elif sk == 2:
            subset = np.zeros(total, dtype=bool)
        else:
            subset = np.array([R.random() < 0.5 for _ in range(total)], dtype=bool)
        if shape2d:
            subset = subset.reshape(2, -1)
            if R.random() < 0.5:
                subset = np.asfortranarray(subset)
        if R.random() < 0.04:
            subset = R.choice([subset.tolist(), np.ma.array(subset, mask=~subset), np.flatnonzero(subset)])
        cnt = int(np.count_nonzero(np.asarray(subset, dtype=bool))) if not (isinstance(subset, np.ndarray) and subset.dtype != bool) else len(subset)
        if R.random() < 0.04:
            cnt = cnt + 1

        def arr(kind):
            if kind == "t":
                a = np.array([R.choice(BASE_TIMES) for _ in range(cnt)], dtype="datetime64[ns]")
            else:
                a = np.array([R.choice([0, 1, 0.1, 2.3, NAN, 1e308, INF, 5]) for _ in range(cnt)], dtype=R.choice([np.float64, np.float64, np.float32]))
                if R.random() < 0.3:
                    a = np.ma.masked_invalid(a)
            return a

        fields = {"data": arr("d"), "tinp": arr("t"), "zinp": arr("d"), "lat": arr("d"), "lon": arr("d")}
        if R.random() < 0.06:
            fields[R.choice(list(fields))] = None
        if R.random() < 0.03:
            fields[R.choice(list(fields))] = [1.0] * cnt
        calls = []
        for _ in range(R.randint(0, 3)):
            pkg, test = R.choice(TESTS)
            res = np.ma.array(np.array([R.choice([1, 2, 3, 4, 9]) for _ in range(cnt)], dtype=R.choice(["uint8", "uint8", "int64", "float64"])))
            if R.random() < 0.2:
                res = np.ma.array(res.data, mask=[R.random() < 0.3 for _ in range(cnt)])
            if R.random() < 0.03:
                res = res.tolist()
            calls.append((pkg, test, res))
        if calls and R.random() < 0.2:
            calls.append(calls[0])  # duplicated test in one context
        spec.append(("context", R.choice(STREAMS), subset, fields, calls))
    if R.random() < 0.02:
        spec.append(("junk", R.choice([None, 5, "abc"])))
    return spec


def build_results(mod, spec):
    """Instantiate the spec with the classes of one module; returns (list, every array in it)."""
    out = []
    for item in spec:
        if item[0] == "call":
            out.append(mod.CallResult(package=item[1], test=item[2], function=dummy_function, results=item[3]))
        elif item[0] == "junk":
            out.append(item[1])
        else:
            _, stream, subset, fields, calls = item
            out.append(
                mod.ContextResult(
                    stream_id=stream,
                    results=[mod.CallResult(package=p, test=t, function=dummy_function, results=r) for p, t, r in calls],
                    subset_indexes=subset,
                    **fields,
                ),
            )
    return out


def input_ids(built):
    ids = {}
    for i, r in enumerate(built):
        if isinstance(r, tuple):
            for j, v in enumerate(r):
                if isinstance(v, np.ndarray):
                    ids[id(v)] = (i, j)
                if isinstance(v, list):
                    for k, tr in enumerate(v):
                        if isinstance(tr, tuple) and isinstance(tr[-1], np.ndarray):
                            ids[id(tr[-1])] = (i, j, k)
    return ids


def run_results(label, f_new, f_orig):
    while COUNTS[label][0] < N_CASES:
        spec = results_spec()
        built = {"new": build_results(RN, copy.deepcopy(spec)), "orig": build_results(RO, copy.deepcopy(spec))}
        as_iter = R.random() < 0.1
        outs = {}
        for which, f in (("new", f_new), ("orig", f_orig)):
            arg = built[which]
            outs[which] = run(f, (iter(arg) if as_iter else arg,), {})
        # identity structure: repeat on fresh copies and describe with input identities
        ident = {}
        for which, f, mod in (("new", f_new, RN), ("orig", f_orig, RO)):
            fresh = build_results(mod, copy.deepcopy(spec))
            ids = input_ids(fresh)
            o = run(f, (fresh,), {}, ids)
            ident[which] = (o[0], desc(fresh))
        c = COUNTS[label]
        c[0] += 1
        c[1 if outs["orig"][0][0] == "OK" else 2] += 1
        KINDS[label][outs["orig"][0][1] if outs["orig"][0][0] == "EXC" else "returned"] += 1
        DISTINCT[label].add(hash(outs["orig"][0]))
        # the argument description of an iterator is useless: describe the lists themselves
        after = {w: desc(built[w]) for w in built}
        if outs["new"][:2] != outs["orig"][:2] or after["new"] != after["orig"] or ident["new"] != ident["orig"]:
            FAILURES.append((label, spec, outs["new"], outs["orig"]))
            if len(FAILURES) <= 15:
                print(f"MISMATCH in {label}:\n   spec: {spec!r:.900}")
                print("   new :", repr((outs["new"][:2], ident["new"][0]))[:900])
                print("   orig:", repr((outs["orig"][:2], ident["orig"][0]))[:900])


def test_collect_list():
    IGNORE_MASKED_DATA[0] = True
    run_results("collect_results_list", RN.collect_results_list, RO.collect_results_list)


def test_collect_dict():
    run_results("collect_results_dict", RN.collect_results_dict, RO.collect_results_dict)
    IGNORE_MASKED_DATA[0] = False


# --------------------------------------------------------------------------- main
def main():
    os.environ["TZ"] = "EST5EDT"
    time.tzset()
    t0 = time.time()
    for test in (
        test_add,
        test_convert,
        test_check,
        test_climatology,
        test_rate_of_change,
        test_speed,
        test_pressure,
        test_valid_range,
        test_collect_list,
        test_collect_dict,
    ):
        test()
    print(f"{'function':32s} {'cases':>7s} {'returned':>9s} {'raised':>7s}")
    for label, (n, ok, exc) in COUNTS.items():
        print(f"{label:32s} {n:7d} {ok:9d} {exc:7d}   distinct outcomes {len(DISTINCT[label])}; {dict(KINDS[label])}")
    print(f"elapsed {time.time() - t0:.1f}s; mismatches: {len(FAILURES)}")
    if FAILURES or any(n < 3000 for n, _, _ in COUNTS.values()):
        print("NOT EQUIVALENT")
        sys.exit(1)
    print("EQUIVALENT")


if __name__ == "__main__":
    main()
