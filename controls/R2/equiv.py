"""Differential check: refactored functions (this worktree) vs. originals (/repo).

Run as: PYTHONPATH=<worktree> /venv/bin/python equiv.py
Exits 0 when every comparison agrees, 1 otherwise.
"""

import copy
import importlib.util
import sys
import warnings
from pathlib import Path

import numpy as np
import pandas as pd

HERE = Path(__file__).resolve().parent
sys.path.insert(0, str(HERE))

import ioos_qc.argo as new_argo  # noqa: E402
import ioos_qc.qartod as new_qartod  # noqa: E402

assert Path(new_qartod.__file__).resolve().parent.parent == HERE, new_qartod.__file__
assert Path(new_argo.__file__).resolve().parent.parent == HERE, new_argo.__file__


def load(name, path):
    spec = importlib.util.spec_from_file_location(name, path)
    mod = importlib.util.module_from_spec(spec)
    sys.modules[name] = mod
    spec.loader.exec_module(mod)
    return mod


old_qartod = load("orig_ioos_qc_qartod", "/repo/ioos_qc/qartod.py")
old_argo = load("orig_ioos_qc_argo", "/repo/ioos_qc/argo.py")

N_CASES = 2500
rng = np.random.default_rng(20261002)
FAILURES = []
COUNTS = {}


# ----------------------------------------------------------------------------- comparison
def describe(x):
    if isinstance(x, np.ma.MaskedArray):
        return (
            "MaskedArray",
            x.dtype,
            x.shape,
            x.data.tolist(),
            np.ma.getmaskarray(x).tolist(),
            x.mask is np.ma.nomask,
            repr(x.fill_value),
            x.hardmask,
        )
    if isinstance(x, np.ndarray):
        return ("ndarray", x.dtype, x.shape, x.tolist())
    return (type(x).__name__, repr(x))


def same_value(a, b):
    if type(a) is not type(b):
        return False
    if isinstance(a, np.ma.MaskedArray):
        return (
            a.dtype == b.dtype
            and a.shape == b.shape
            and (a.mask is np.ma.nomask) == (b.mask is np.ma.nomask)
            and np.array_equal(np.ma.getmaskarray(a), np.ma.getmaskarray(b))
            and np.array_equal(a.data, b.data, equal_nan=a.dtype.kind == "f")
            and repr(a.fill_value) == repr(b.fill_value)
            and a.hardmask == b.hardmask
        )
    if isinstance(a, np.ndarray):
        return (
            a.dtype == b.dtype
            and a.shape == b.shape
            and np.array_equal(a, b, equal_nan=a.dtype.kind == "f")
        )
    return repr(a) == repr(b)


def same_obj(a, b):
    """Structural equality for arguments (mutation check)."""
    if type(a) is not type(b):
        return False
    if isinstance(a, (list, tuple)):
        return len(a) == len(b) and all(same_obj(x, y) for x, y in zip(a, b))
    if isinstance(a, dict):
        return a.keys() == b.keys() and all(same_obj(a[k], b[k]) for k in a)
    if isinstance(a, (np.ndarray, np.ma.MaskedArray)):
        if a.dtype.kind in "mM":
            return a.shape == b.shape and np.array_equal(
                np.asarray(a).view("int64"),
                np.asarray(b).view("int64"),
            )
        if a.dtype.kind == "O":
            return (
                a.dtype == b.dtype
                and a.shape == b.shape
                and np.array_equal(np.ma.getmaskarray(a), np.ma.getmaskarray(b))
                and same_obj(np.asarray(a).tolist(), np.asarray(b).tolist())
            )
        return same_value(a, b)
    if isinstance(a, (pd.Series, pd.Index)):
        return a.equals(b)
    if isinstance(a, float) and a != a:
        return b != b
    try:
        return bool(a == b)
    except Exception:  # noqa: BLE001
        return repr(a) == repr(b)


def run(fn, args, kwargs):
    with warnings.catch_warnings():
        warnings.simplefilter("ignore")
        try:
            return ("ok", fn(*args, **kwargs))
        except BaseException as exc:  # noqa: BLE001
            return ("exc", type(exc))


def compare(label, f_old, f_new, args, kwargs=None):
    kwargs = kwargs or {}
    COUNTS[label] = COUNTS.get(label, 0) + 1
    pristine = copy.deepcopy((args, kwargs))
    a_old = copy.deepcopy((args, kwargs))
    a_new = copy.deepcopy((args, kwargs))
    r_old = run(f_old, *a_old)
    r_new = run(f_new, *a_new)
    ok = r_old[0] == r_new[0]
    if ok and r_old[0] == "exc":
        ok = r_old[1] is r_new[1]
    elif ok:
        ok = same_value(r_old[1], r_new[1])
    # the refactoring must not mutate arguments the original left alone (and vice versa)
    mut_old = not same_obj(a_old, pristine)
    mut_new = not same_obj(a_new, pristine)
    if mut_old != mut_new or (mut_new and not same_obj(a_old, a_new)):
        ok = False
    if not ok:
        FAILURES.append((label, pristine, r_old, r_new))
        if len(FAILURES) <= 10:
            print("MISMATCH", label)
            print("  args:", pristine)
            for tag, r in (("old", r_old), ("new", r_new)):
                print(f"  {tag}:", r[0], describe(r[1]) if r[0] == "ok" else r[1])
    return r_old


# ----------------------------------------------------------------------------- generators
def rand_len():
    return int(rng.integers(0, 9))


def rand_series(n, kind=None):
    """Numeric series of length n with NaN, small value pool so that ties/flat runs occur."""
    kind = kind or rng.choice(["grid", "float", "int", "const", "mono"])
    if kind == "grid":
        vals = rng.choice([0.0, 0.5, 1.0, 1.5, 2.0, -1.0, 10.0], size=n)
    elif kind == "float":
        vals = rng.normal(0, 2, size=n)
    elif kind == "int":
        vals = rng.integers(-3, 4, size=n).astype(float)
    elif kind == "const":
        vals = np.full(n, float(rng.integers(-2, 3)))
        if n:
            jitter = rng.random(n) < 0.2
            vals = vals + jitter * rng.choice([0.01, -0.01, 1.0], size=n)
    else:
        vals = np.cumsum(rng.choice([0.0, 0.5, 1.0, -0.5], size=n, p=[0.2, 0.4, 0.3, 0.1]))
    vals = np.asarray(vals, dtype=float)
    p_nan = rng.choice([0.0, 0.15, 0.5, 1.0], p=[0.4, 0.4, 0.15, 0.05])
    nan_at = rng.random(n) < p_nan
    vals[nan_at] = np.nan
    if n and rng.random() < 0.1:
        vals[int(rng.integers(0, n))] = rng.choice([np.inf, -np.inf])
    return vals


def wrap(vals, allow_int=False):
    """Present the same numbers through different container types."""
    c = rng.choice(["ndarray", "list", "masked", "series", "f32", "object"])
    if c == "ndarray":
        return vals.copy()
    if c == "list":
        return vals.tolist()
    if c == "masked":
        m = rng.random(vals.shape) < 0.2
        return np.ma.masked_array(vals.copy(), mask=m)
    if c == "series":
        return pd.Series(vals.copy())
    if c == "f32":
        return vals.astype("float32")
    out = vals.astype(object)
    if out.size and rng.random() < 0.5:
        flat = out.reshape(-1)
        flat[int(rng.integers(0, flat.size))] = None
    return out


def rand_times(n):
    kind = rng.choice(["regular", "irregular", "dupes", "epoch", "epoch_list", "series", "index"])
    step = int(rng.choice([1, 10, 60, 600, 3600, 86400]))
    if kind in ("regular", "epoch", "epoch_list", "series", "index"):
        secs = np.arange(n, dtype="int64") * step
    elif kind == "irregular":
        secs = np.cumsum(rng.integers(1, 3 * step + 1, size=n)).astype("int64")
    else:
        secs = np.cumsum(rng.integers(0, 2, size=n) * step).astype("int64")
    if n and rng.random() < 0.05:
        secs = secs[::-1].copy()
    base = np.datetime64("2020-01-01T00:00:00", "s")
    dt = (base + secs.astype("timedelta64[s]")).astype("datetime64[ns]")
    if kind == "epoch":
        return secs.astype(float)
    if kind == "epoch_list":
        return secs.tolist()
    if kind == "series":
        return pd.Series(dt)
    if kind == "index":
        idx = pd.DatetimeIndex(dt)
        if rng.random() < 0.5:
            idx = idx.tz_localize("UTC")
        return idx
    if n and rng.random() < 0.1:
        dt = dt.copy()
        dt[int(rng.integers(0, n))] = np.datetime64("NaT")
    return dt


def rand_threshold(allow_none, pool):
    r = rng.random()
    if allow_none and r < 0.25:
        return None
    if not allow_none and r < 0.03:
        return None  # exception path, compared by type
    v = rng.choice(pool)
    if rng.random() < 0.1:
        return float("nan")
    return v.item() if hasattr(v, "item") else v


# ----------------------------------------------------------------------------- qartod_compare
def gen_compare():
    k = int(rng.integers(0, 5))
    n = rand_len()
    vectors = []
    for _ in range(k):
        m = n
        if rng.random() < 0.06:
            m = rand_len()
        pool = [1, 2, 3, 4, 9] if rng.random() < 0.85 else [0, 1, 2, 3, 4, 5, 9, 7]
        vals = rng.choice(pool, size=m)
        c = rng.choice(["u8", "i64", "f", "masked", "masked_u8", "series", "2d", "0d"],
                       p=[0.25, 0.15, 0.1, 0.2, 0.15, 0.09, 0.03, 0.03])
        if c == "u8":
            v = vals.astype("uint8")
        elif c == "i64":
            v = vals.astype("int64")
        elif c == "f":
            v = vals.astype(float)
            if m and rng.random() < 0.5:
                v[int(rng.integers(0, m))] = np.nan
        elif c == "masked":
            v = np.ma.masked_array(vals.astype(float), mask=rng.random(m) < 0.3)
        elif c == "masked_u8":
            v = np.ma.masked_array(vals.astype("uint8"), mask=rng.random(m) < 0.3)
            if rng.random() < 0.3:
                v = np.ma.masked_array(vals.astype("uint8"))
        elif c == "series":
            v = pd.Series(vals, index=np.arange(m)[::-1] if rng.random() < 0.5 else None)
        elif c == "2d":
            v = np.tile(vals.astype("uint8"), (2, 1)).T.copy()
        else:
            v = np.array(4, dtype="uint8")
        vectors.append(v)
    r = rng.random()
    if r < 0.1:
        return (tuple(vectors),)
    return (vectors,)


# ----------------------------------------------------------------------------- flat_line_test
def gen_flat():
    n = rand_len()
    vals = rand_series(n, kind=rng.choice(["const", "grid", "int", "mono", "float"],
                                          p=[0.35, 0.25, 0.2, 0.1, 0.1]))
    inp = wrap(vals)
    nt = n
    if rng.random() < 0.05:
        nt = rand_len()
    tinp = rand_times(nt)
    if rng.random() < 0.05 and n in (4, 6, 8) and nt == n:
        inp = np.asarray(vals).reshape(2, -1)
    pool = np.array([0, 1, 2, 3, 5, 10, 20, 30, 60, 120, 600, 1200, 3600, 7200, 86400, 200000])
    st = rand_threshold(False, pool)
    ft = rand_threshold(False, pool)
    if rng.random() < 0.1 and st is not None and st == st:
        st = float(st) + 0.5
    kwargs = {}
    r = rng.random()
    if r < 0.3:
        pass
    elif r < 0.9:
        kwargs["tolerance"] = rng.choice([0, 0.0, 0.001, 0.01, 0.02, 0.5, 1, 1.0, 2.5, 100]).item()
    elif r < 0.95:
        kwargs["tolerance"] = float("nan")
    else:
        kwargs["tolerance"] = None
    return (inp, tinp, st, ft), kwargs


# ----------------------------------------------------------------------------- density_inversion_test
def gen_density():
    n = rand_len()
    inp = wrap(rand_series(n, kind=rng.choice(["mono", "grid", "float", "int", "const"])))
    nz = n
    if rng.random() < 0.06:
        nz = rand_len()
    z = rand_series(nz, kind=rng.choice(["mono", "grid", "int", "const"]))
    if rng.random() < 0.3:
        z = -z
    zinp = wrap(z)
    if rng.random() < 0.05 and n == nz and n in (2, 4, 6, 8):
        shape = (1, n) if rng.random() < 0.5 else (n // 2, 2) if rng.random() < 0.5 else (n, 1)
        inp = np.asarray(rand_series(n)).reshape(shape)
        zinp = np.asarray(z).reshape(shape)
    if rng.random() < 0.03:
        inp, zinp = 1.5, 2.0
    pool = np.array([-3.0, -1.0, -0.5, -0.03, -0.01, 0.0, 0.01, 0.5, 1.0, 3.0])
    kwargs = {}
    r = rng.random()
    if r < 0.75:
        kwargs["suspect_threshold"] = rand_threshold(True, pool)
    if rng.random() < 0.75:
        kwargs["fail_threshold"] = rand_threshold(True, pool)
    if rng.random() < 0.02:
        kwargs["suspect_threshold"] = "x"
    return (inp, zinp), kwargs


# ----------------------------------------------------------------------------- climatology
PERIODS = [None, None, None, "month", "dayofyear", "week", "weekofyear", "quarter", "dayofweek",
           "year", "hour"]


def gen_clim_config():
    members = []
    for _ in range(int(rng.integers(0, 4))):
        period = PERIODS[int(rng.integers(0, len(PERIODS)))]
        if period is None:
            days = sorted(rng.integers(0, 400, size=2).tolist())
            t0 = np.datetime64("2020-01-01") + np.timedelta64(days[0], "D")
            t1 = np.datetime64("2020-01-01") + np.timedelta64(days[1], "D")
            tspan = (t0, t1) if rng.random() < 0.8 else (t1, t0)
            if rng.random() < 0.3:
                tspan = (str(tspan[0]), str(tspan[1]))
        else:
            hi = {"month": 12, "dayofyear": 366, "week": 53, "weekofyear": 53, "quarter": 4,
                  "dayofweek": 6, "year": 2022, "hour": 23}[period]
            lo = 2018 if period == "year" else 0
            tspan = tuple(rng.integers(lo, hi + 1, size=2).tolist())
        d = {"tspan": tspan, "vspan": tuple(rng.choice([-2.0, -1.0, 0.0, 0.5, 1.0, 2.0, 5.0],
                                                       size=2).tolist())}
        if rng.random() < 0.6:
            d["fspan"] = tuple(rng.choice([-5.0, -2.0, -1.0, 0.0, 1.0, 2.0, 3.0, 10.0],
                                          size=2).tolist())
        if rng.random() < 0.5:
            d["zspan"] = tuple(rng.choice([-1.0, 0.0, 1.0, 5.0, 10.0, 100.0], size=2).tolist())
        if period is not None:
            d["period"] = period
        members.append(d)
    return members


def clim_times(n):
    days = rng.integers(0, 420, size=n)
    hours = rng.integers(0, 24, size=n)
    t = (np.datetime64("2020-01-01T00:00:00") + days.astype("timedelta64[D]")
         + hours.astype("timedelta64[h]")).astype("datetime64[ns]")
    if n and rng.random() < 0.5:
        t = np.sort(t)
    return t


def gen_clim_check():
    """Arguments for ClimatologyConfig.check as climatology_test prepares them."""
    cfg = gen_clim_config()
    n = rand_len()
    tinp = pd.DatetimeIndex(clim_times(n))
    inp = np.ma.masked_invalid(rand_series(n, kind="grid"))
    zkind = rng.choice(["vals", "allnan", "grid"], p=[0.5, 0.2, 0.3])
    z = rand_series(n, kind="int") * 3 if zkind != "allnan" else np.full(n, np.nan)
    zinp = np.ma.masked_invalid(z)
    r = rng.random()
    if r < 0.1:
        # masks supplied by a caller rather than by masked_invalid
        inp = np.ma.masked_array(np.nan_to_num(inp.data, nan=0.0), mask=rng.random(n) < 0.3)
    elif r < 0.15:
        inp = np.ma.masked_array(np.nan_to_num(inp.data, nan=1.0))  # mask is nomask
    if rng.random() < 0.08:
        zinp = np.ma.masked_array(np.nan_to_num(zinp.data, nan=0.0))  # mask is nomask
    if rng.random() < 0.03:
        inp = inp.data  # plain ndarray: no .mask
    if rng.random() < 0.04:
        nz = rand_len()
        zinp = np.ma.masked_invalid(rand_series(nz, kind="int"))
    return cfg, tinp, inp, zinp


def gen_clim_test():
    cfg = gen_clim_config()
    n = rand_len()
    t = clim_times(n)
    tinp = t if rng.random() < 0.6 else pd.DatetimeIndex(t) if rng.random() < 0.5 else \
        (t.astype("datetime64[s]").astype("int64")).tolist()
    inp = wrap(rand_series(n, kind="grid"))
    zinp = wrap(rand_series(n, kind="int") * 3 if rng.random() < 0.8 else np.full(n, np.nan))
    if rng.random() < 0.05 and n in (4, 6, 8):
        inp = np.asarray(rand_series(n, kind="grid")).reshape(2, -1)
        zinp = np.asarray(rand_series(n, kind="int")).reshape(2, -1)
        tinp = t.reshape(2, -1)
    return cfg, inp, tinp, zinp


def call_check(mod):
    def f(cfg, tinp, inp, zinp):
        config = mod.ClimatologyConfig.convert(cfg)
        return config.check(tinp, inp, zinp)
    return f


def call_clim(mod):
    def f(cfg, inp, tinp, zinp):
        return mod.climatology_test(cfg, inp, tinp, zinp)
    return f


# ----------------------------------------------------------------------------- speed_test
def gen_speed():
    n = rand_len()
    lon = rng.choice([-70.0, -70.001, -70.01, -69.0, 0.0, 179.9, -179.9, 10.0], size=n) \
        + rng.choice([0.0, 0.0, 1e-4, 1e-3], size=n)
    lat = rng.choice([40.0, 40.001, 40.01, 41.0, 0.0, 89.0, -45.0], size=n) \
        + rng.choice([0.0, 0.0, 1e-4, 1e-3], size=n)
    for arr in (lon, lat):
        p = rng.choice([0.0, 0.15, 0.5])
        arr[rng.random(n) < p] = np.nan
    if n and rng.random() < 0.2:
        both = rng.random(n) < 0.3
        lon[both] = np.nan
        lat[both] = np.nan
    if n and rng.random() < 0.03:
        lat[int(rng.integers(0, n))] = 95.0  # out of range latitude
    nt = n
    if rng.random() < 0.05:
        nt = rand_len()
    tinp = rand_times(nt)
    lon_w, lat_w = wrap(lon), wrap(lat)
    if rng.random() < 0.04:
        lat_w = wrap(lat[: max(0, n - 1)])
    if rng.random() < 0.04 and n in (4, 6, 8) and nt == n:
        lon_w, lat_w = lon.reshape(2, -1), lat.reshape(2, -1)
        tinp = np.asarray(rand_times(n)).reshape(2, -1) if rng.random() < 0.8 else tinp
    pool = np.array([0.0, 0.01, 0.1, 1.0, 2.5, 3.0, 10.0, 100.0, 1e4, 1e7])
    st = rand_threshold(False, pool)
    ft = rand_threshold(False, pool)
    return (lon_w, lat_w, tinp, st, ft)


# ----------------------------------------------------------------------------- main
def main():
    outcomes = {}

    def tally(label, r):
        key = r[0] if r[0] == "ok" else r[1].__name__
        outcomes.setdefault(label, {}).setdefault(key, 0)
        outcomes[label][key] += 1

    for _ in range(N_CASES):
        label = "qartod_compare"
        tally(label, compare(label, old_qartod.qartod_compare, new_qartod.qartod_compare,
                             gen_compare()))

        label = "flat_line_test"
        args, kwargs = gen_flat()
        tally(label, compare(label, old_qartod.flat_line_test, new_qartod.flat_line_test,
                             args, kwargs))

        label = "density_inversion_test"
        args, kwargs = gen_density()
        tally(label, compare(label, old_qartod.density_inversion_test,
                             new_qartod.density_inversion_test, args, kwargs))

        label = "ClimatologyConfig.check"
        tally(label, compare(label, call_check(old_qartod), call_check(new_qartod),
                             gen_clim_check()))

        label = "climatology_test"
        tally(label, compare(label, call_clim(old_qartod), call_clim(new_qartod),
                             gen_clim_test()))

        label = "speed_test"
        tally(label, compare(label, old_argo.speed_test, new_argo.speed_test, gen_speed()))

    # aggregate() goes through qartod_compare
    for label, n in COUNTS.items():
        print(f"{label}: {n} cases, outcomes {outcomes[label]}")
    if FAILURES:
        print(f"{len(FAILURES)} MISMATCHES")
        return 1
    print("all equivalent")
    return 0


if __name__ == "__main__":
    sys.exit(main())
